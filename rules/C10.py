"""C10  Allocation tallies are exact, per thread, and track the true peak."""
from lib.facts import norm, place_fields, const_int, direct_place, nophi
from lib.paths import Explorer, call_sequences
from lib.patheval import PathEval
from lib.symexpr import add, show
from .C09 import methods, IMPL

INLINE = True      # crate-local helpers the rules do not know by name are inlined into their callers (lib/inline.py)
EXPLANATION = (
    "Structural operand/ordering rules over MIR. R10.1: each allocator hook calls exactly the tally function of its "
    "kind exactly once whenever the thread's tally exists, with the size operands taken from layout.size()/new_size. "
    "R10.2: tally function -> AllocOp slot pairing (Alloc, Dealloc, realloc(shrink flag of new.overflowing_sub(old))), "
    "AllocOp::realloc's arms, AllocOpMap indexing by `op as usize`, AllocOp::ALL in declaration order, 4 variants vs "
    "[T; 4]. R10.3: every increment of current_count/current_size is followed by max_x = max(max_x, current_x) of "
    "the matching field; decrements update no max; tally_op adds the constant 1 to count and its size parameter to "
    "size; clear() overwrites the whole struct with new(), which zero-initialises every field (ADT-enumerated). "
    "R10.4: the tally is a thread_local and only reached through the current thread's pointer. This decides which "
    "operands feed which field on every path, not the arithmetic itself."
    " R10.5 clear is unconditional and total. R10.6 the running totals (negative once memory from before the clearing "
    "point is released after it) are never converted to an unsigned type before the peak comparison.")
NOT_DECIDED = ["numerical exactness of sums/maxima over arbitrary operation sequences (value computation)",
               "overflow behaviour beyond 2^63 operations"]

TALLY_OF = {"alloc": "tally_alloc", "alloc_zeroed": "tally_alloc", "realloc": "tally_realloc", "dealloc": "tally_dealloc"}


def linear(b):
    """Ordered events of a loop-free body with a single feasible normal path; None if not single-path."""
    paths = [p for p, r in Explorer(b).run() if r == "return"]
    if len(paths) != 1:
        return None
    ev = []
    for bi in paths[0]:
        bl = b.blocks[bi]
        for si, s in enumerate(bl["stmts"]):
            if s["k"] == "assign":
                ev.append(("assign", bi, si, s))
        c = b.call_at(bi)
        if c is not None:
            ev.append(("call", bi, None, c))
    return ev


def r10_1(ctx, prog, crate):
    ms = methods(prog, crate)
    for m, b in ms.items():
        if b is None:
            ctx.anchor("R10.1", "GlobalAlloc::" + m, 0, 1)
            continue
        ctx.saw(b)
        want = TALLY_OF[m]

        def tag(c):
            n = c.callee
            if n.endswith("ThreadAllocInfo::try_current"):
                return "try_current"
            if n.startswith("alloc::ThreadAllocInfo::tally_"):
                return n.rsplit("::", 1)[-1]
            if n.startswith("std::alloc::GlobalAlloc::"):
                return "forward"
            return None
        seqs = call_sequences(b, Explorer(b).run(), tag)
        # order-insensitive: tallying before or after forwarding gives the same tally and the same request
        got = sorted(tuple(sorted(s)) for (s, r) in seqs if r == "return")
        exp = sorted([tuple(sorted(("try_current", "forward"))), tuple(sorted(("try_current", want, "forward")))])
        ctx.check(got == exp, "R10.1", [m, "tally-shape"],
                  "call shapes of `%s` are %s, expected %s (exactly one `%s` iff the thread tally exists)" % (m, got, exp, want),
                  b.where(0))
        # whenever try_current() is Some, the tally call is unavoidable before returning
        tcs = [c for c in b.live_calls() if c.callee.endswith("ThreadAllocInfo::try_current")]
        tallies = [c for c in b.live_calls() if c.callee.startswith("alloc::ThreadAllocInfo::tally_")]
        some_arms = []
        for bi, t in b.switches():
            srcs = b.prov.op_src(t["discr"])
            if any(s.kind == "discr" for s in srcs) and any(s.kind == "call" and s.a.endswith("ThreadAllocInfo::try_current") for s in srcs) \
                    and not any(s.kind == "binop" for s in srcs):
                some_arms += [a[1] for a in t["arms"] if a[0] == "1"]
        if ctx.check(len(tcs) == 1 and len(some_arms) == 1, "R10.1", [m, "some-arm-of-try_current"],
                     "cannot identify the `Some` arm of try_current() in `%s`" % m, b.where(0)):
            esc = set(b.returns) & b.reach(some_arms, avoid=[c.bb for c in tallies])
            ctx.check(not esc, "R10.1", [m, "tally-unconditional-when-slot-exists"],
                      "a path on which the thread tally exists returns without tallying the operation", b.where(some_arms[0]))
        for c in b.live_calls():
            if not c.callee.startswith("alloc::ThreadAllocInfo::tally_"):
                continue
            ctx.calls_examined += 1
            # receiver derives from try_current()
            r = b.prov.op_src(c.args[0])
            ctx.check(any(s.kind == "call" and s.a.endswith("ThreadAllocInfo::try_current") for s in r) and nophi(r), "R10.1",
                      [m, "tally-receiver-is-current-thread"], "tally receiver does not come from try_current()", c.line())
            # guarded by Some(..) of try_current only: the dominating switches
            sizes = []
            for a in c.args[1:]:
                srcs = b.prov.op_src(a)
                lab = set()
                for s in srcs:
                    if s.kind == "call" and s.a == "std::alloc::Layout::size":
                        lab.add("layout.size()")
                    elif s.kind == "param" and s.a == "layout":
                        pass
                    elif s.kind == "param":
                        lab.add("param:" + s.a)
                    else:
                        lab.add(s.label())
                sizes.append(sorted(lab))
            exp_args = {"tally_alloc": [["layout.size()"]], "tally_dealloc": [["layout.size()"]],
                        "tally_realloc": [["layout.size()"], ["param:new_size"]]}[want]
            if want == "tally_realloc" and b.arg_count >= 4:
                exp_args = [["layout.size()"], ["param:" + b.param_name(4)]]
            ctx.check(sizes == exp_args, "R10.1", [m, "tally-operands"],
                      "operands of `%s` in `%s` derive from %s, expected %s" % (want, m, sizes, exp_args), c.line())
            # layout.size() is of the `layout` parameter
            for s in b.prov.op_src(c.args[1]):
                if s.kind == "param":
                    ctx.check(b.local_ty_of_param(s.a) == "std::alloc::Layout", "R10.1", [m, "size-of-own-layout"],
                              "size taken from parameter `%s`" % s.a, c.line())


def _tally_sites(b):
    """Where a tally function records the operation: a call of tally_op(self, op, size), or - the same thing written in
    place - a call of AllocOpMap::get_mut(&mut self.tallies, op) whose slot is then updated."""
    out = [c for c in b.live_calls() if c.callee == "alloc::ThreadAllocInfo::tally_op"]
    for c in b.live_calls():
        if c.callee == "alloc::AllocOpMap::get_mut" and c.args and any(z.label() == "param:self.tallies" for z in b.prov.op_src(c.args[0])):
            out.append(c)
    return out


def r10_2(ctx, prog, crate):
    specs = {"tally_alloc": "Alloc", "tally_dealloc": "Dealloc"}
    for fn, variant in specs.items():
        b = prog.body("alloc::ThreadAllocInfo::" + fn, crate)
        if not ctx.anchor("R10.2", fn, 1 if b else 0, 1):
            continue
        ctx.saw(b)
        ops = _tally_sites(b)
        if not ctx.check(len(ops) == 1, "R10.2", [fn, "one-tally_op"], "expected one tally_op call (or one update of a self.tallies slot), found %d" % len(ops), b.where(0)):
            continue
        c = ops[0]
        s1 = b.prov.op_src(c.args[1])
        ctx.check({s.a for s in s1 if s.kind == "variant"} == {"alloc::AllocOp::" + variant} and
                  not any(s.kind in ("param", "call") for s in s1), "R10.2", [fn, "slot"],
                  "`%s` tallies into %s, expected AllocOp::%s" % (fn, sorted(s.label() for s in s1), variant), c.line())
        if c.callee.endswith("::tally_op"):
            s2 = b.prov.op_src(c.args[2])
            ctx.check({s.label() for s in s2} == {"param:" + b.param_name(2)}, "R10.2", [fn, "size-operand"],
                      "`%s` tallies size %s, expected its `size` parameter" % (fn, sorted(s.label() for s in s2)), c.line())
        # (when the slot is updated in place the size added to it is decided by R10.3's path summaries)
        ctx.check(c.args[0] and {s.label().split(".")[0] for s in b.prov.op_src(c.args[0])} == {"param:" + b.param_name(1)}, "R10.2",
                  [fn, "receiver-self"], "tally_op receiver is not self", c.line())
    b = prog.body("alloc::ThreadAllocInfo::tally_realloc", crate)
    if ctx.anchor("R10.2", "tally_realloc", 1 if b else 0, 1):
        ctx.saw(b)
        old, new = b.param_name(2), b.param_name(3)
        subs = [c for c in b.live_calls() if c.callee == "core::num::overflowing_sub"]
        wsubs = [c for c in b.live_calls() if c.callee == "core::num::wrapping_sub"]
        if not subs and len(wsubs) == 1:
            # new.wrapping_sub(old) as isize / new < old / unsigned_abs(): which operand feeds which tally is decided on the
            # path summaries of R10.3 (value spec in this spelling); here only the direction of the one subtraction
            c = wsubs[0]
            a0 = {s_.label() for s_ in b.prov.op_src(c.args[0])}
            a1 = {s_.label() for s_ in b.prov.op_src(c.args[1])}
            ctx.check(a0 == {"param:" + new} and a1 == {"param:" + old}, "R10.2", ["tally_realloc", "diff-direction"],
                      "size change computed as %s - %s, expected new_size - old_size" % (sorted(a0), sorted(a1)), c.line())
            ops = _tally_sites(b)
            ctx.check(len(ops) == 1, "R10.2", ["tally_realloc", "one-tally_op"], "tally_op sites: %d" % len(ops), b.where(0))
            subs = None
        if subs is not None and ctx.check(len(subs) == 1, "R10.2", ["tally_realloc", "one-overflowing_sub"], "overflowing_sub sites: %d" % len(subs), b.where(0)):
            c = subs[0]
            a0 = {s.label() for s in b.prov.op_src(c.args[0])}
            a1 = {s.label() for s in b.prov.op_src(c.args[1])}
            ctx.check(a0 == {"param:" + new} and a1 == {"param:" + old}, "R10.2", ["tally_realloc", "diff-direction"],
                      "size change computed as %s - %s, expected new_size - old_size" % (sorted(a0), sorted(a1)), c.line())
        ops = _tally_sites(b) if subs is not None else []
        if subs is not None and ctx.check(len(ops) == 1, "R10.2", ["tally_realloc", "one-tally_op"], "tally_op sites: %d" % len(ops), b.where(0)):
            c = ops[0]
            s1 = b.prov.op_src(c.args[1])
            rc = [s for s in s1 if s.kind == "call" and s.a == "alloc::AllocOp::realloc"]
            ctx.check(len(rc) == 1, "R10.2", ["tally_realloc", "slot-from-AllocOp::realloc"],
                      "slot derives from %s" % sorted(s.label() for s in s1), c.line())
            if rc:
                rcall = b.call_at(rc[0].b)
                # its argument is field .1 (the overflow flag) of the overflowing_sub result
                l = rcall.args[0]
                flag_srcs = b.prov.op_src(l)
                # locate the defining statement chain: must read field 1 of the sub result
                ok = _reads_field_of_call(b, l, "core::num::overflowing_sub", 1)
                ctx.check(ok, "R10.2", ["tally_realloc", "shrink-flag-is-overflow-bit"],
                          "AllocOp::realloc's argument is not the overflow flag of new_size.overflowing_sub(old_size)", rcall.line())
            if c.callee.endswith("::tally_op"):
                s2 = b.prov.op_src(c.args[2])
                ctx.check(any(s.kind == "call" and s.a == "core::num::wrapping_abs" for s in s2) and
                          _abs_of_field0(b, c.args[2]), "R10.2", ["tally_realloc", "size-is-abs-diff"],
                          "tallied size is not |new_size - old_size| (wrapping_abs of the difference)", c.line())
        # current_size += diff (field 0, not abs)
    b = prog.body("alloc::AllocOp::realloc", crate)
    if b is None:
        ctx.ok("R10.2", "AllocOp::realloc|absent (variant chosen in place, R10.3)")
    elif ctx.anchor("R10.2", "AllocOp::realloc", 1 if b else 0, 1):
        ctx.saw(b)
        tab = _bool_to_variant(b)
        ctx.check(tab == {True: "Shrink", False: "Grow"}, "R10.2", ["AllocOp::realloc", "arms"],
                  "AllocOp::realloc maps %s, expected {true: Shrink, false: Grow}" % tab, b.where(0))
    adt = prog.adt("alloc::AllocOp", crate)
    allc = prog.bodies.get((crate, "alloc::AllocOp::ALL", -1))
    if ctx.anchor("R10.2", "AllocOp ADT and AllocOp::ALL", (1 if adt else 0) + (1 if allc else 0), 2):
        decl = [v["name"] for v in adt["variants"]]
        arr = _const_array_variants(allc)
        ctx.check(arr == decl, "R10.2", ["AllocOp::ALL", "declaration-order"],
                  "AllocOp::ALL = %s but variants are declared %s (ALL[i] must have discriminant i)" % (arr, decl), allc.where(0))
        m = prog.adt("alloc::AllocOpMap", crate)
        if ctx.anchor("R10.2", "AllocOpMap ADT", 1 if m else 0, 1):
            tys = [f["ty"] for f in m["variants"][0]["fields"] if f["name"] == "values"]
            ctx.check(tys == ["[T; %d]" % len(decl)], "R10.2", ["AllocOpMap.values", "length-equals-variant-count"],
                      "AllocOpMap.values has type %s, AllocOp has %d variants" % (tys, len(decl)), "src/alloc.rs")
    for fn in ("get", "get_mut"):
        b = prog.body("alloc::AllocOpMap::" + fn, crate)
        if not ctx.anchor("R10.2", "AllocOpMap::" + fn, 1 if b else 0, 1):
            continue
        ctx.saw(b)
        ok = False
        for bi, si, s in b.stmts():
            if s["k"] == "assign" and s["rv"]["k"] == "ref":
                p = s["rv"]["p"]
                idx = [pr for pr in p["proj"] if pr["k"] == "index"]
                fields = [pr.get("name") for pr in p["proj"] if pr["k"] == "field"]
                if idx and fields == ["values"]:
                    srcs = b.prov.local_src(idx[0]["l"])
                    ok = any(s2.kind == "discr" for s2 in srcs) and \
                        {s2.label() for s2 in srcs if s2.kind == "param"} == {"param:" + b.param_name(2)} and \
                        not any(s2.kind in ("binop", "call") and s2.a not in ("Lt",) for s2 in srcs)
        ctx.check(ok, "R10.2", ["AllocOpMap::" + fn, "index-is-op-discriminant"],
                  "AllocOpMap::%s does not index `values` by `op as usize`" % fn, b.where(0))


def _reads_field_of_call(b, operand, callee, field):
    """operand is (a copy chain of) field `field` of the tuple returned by `callee`."""
    seen = set()
    cur = operand
    for _ in range(8):
        if cur["k"] not in ("copy", "move"):
            return False
        p = cur["p"]
        fs = [pr["i"] for pr in p["proj"] if pr["k"] == "field"]
        if fs:
            defs = b.prov.defs.get(p["l"], [])
            return fs == [field] and len(defs) == 1 and defs[0][0] == "C" and b.call_at(defs[0][1]).callee == callee
        defs = [d for d in b.prov.defs.get(p["l"], []) if d[0] == "S"]
        if len(defs) != 1 or defs[0][3]["rv"]["k"] != "use":
            return False
        cur = defs[0][3]["rv"]["o"]
    return False


def _abs_of_field0(b, operand):
    """operand = cast(wrapping_abs(cast(field 0 of overflowing_sub)))"""
    # follow copies/casts to the wrapping_abs call, then to field 0
    def follow(o, depth=0):
        if depth > 10 or o["k"] not in ("copy", "move"):
            return None
        p = o["p"]
        if p["proj"]:
            return ("field", p)
        defs = b.prov.defs.get(p["l"], [])
        if len(defs) != 1:
            return None
        d = defs[0]
        if d[0] == "C":
            return ("call", b.call_at(d[1]))
        rv = d[3]["rv"]
        if rv["k"] in ("use", "cast"):
            return follow(rv["o"], depth + 1)
        return None
    r = follow(operand)
    if not r or r[0] != "call" or r[1].callee != "core::num::wrapping_abs":
        return False
    r2 = follow(r[1].args[0])
    if not r2 or r2[0] != "field":
        return False
    return _reads_field_of_call(b, {"k": "copy", "p": r2[1]}, "core::num::overflowing_sub", 0)


def _bool_to_variant(b):
    """For `fn(bool) -> Enum` built as a switch on the parameter: {True: variant, False: variant}."""
    out = {}
    for bi, t in b.switches():
        srcs = b.prov.op_src(t["discr"])
        if {s.label() for s in srcs} != {"param:" + b.param_name(1)}:
            continue
        zero = [a[1] for a in t["arms"] if a[0] == "0"]
        for val, start in ((False, zero[0] if zero else None), (True, t["otherwise"])):
            if start is None:
                continue
            vs = set()
            for x in b.reach([start], avoid=[y for y in ([t["otherwise"]] + zero) if y != start]):
                for s in b.blocks[x]["stmts"]:
                    if s["k"] == "assign" and s["p"]["l"] == 0 and s["rv"]["k"] == "agg" and s["rv"]["ak"] == "adt":
                        vs.add(s["rv"]["variant"])
            if len(vs) == 1:
                out[val] = vs.pop()
    return out


def _const_array_variants(body):
    """Variant names of a const array initialiser `[A, B, ...]` (in order)."""
    agg = {}
    arr = None
    for bi, si, s in body.stmts(live_only=False):
        if s["k"] != "assign":
            continue
        rv = s["rv"]
        if rv["k"] == "agg" and rv["ak"] == "adt" and not s["p"]["proj"]:
            agg[s["p"]["l"]] = rv["variant"]
        if rv["k"] == "agg" and rv["ak"] == "array" and s["p"]["l"] == 0:
            arr = rv["ops"]
    if arr is None:
        return None
    out = []
    for o in arr:
        if o["k"] in ("copy", "move") and not o["p"]["proj"]:
            out.append(agg.get(o["p"]["l"]))
        elif o["k"] == "const":
            out.append(o["c"]["d"].rsplit("::", 1)[-1])
        else:
            out.append(None)
    return out


def _implies_le(summary, x, y):
    """The path's decisions imply x <= y:  (x < y) taken, or (y < x) refused."""
    return summary.cond(("Lt", x, y)) is True or summary.cond(("Lt", y, x)) is False or x == y


def _self_field_ty(b, field):
    """Type of self.<field> as MIR spells it at a read or write of that place."""
    import json as _json
    for bi, si, st in b.stmts():
        if st["k"] != "assign":
            continue
        stack = [st["p"], st["rv"]]
        while stack:
            x = stack.pop()
            if isinstance(x, dict):
                if "l" in x and "proj" in x and x["l"] == 1 and place_fields(x) == (field,) and x.get("ty"):
                    return x["ty"]
                stack.extend(x.values())
            elif isinstance(x, list):
                stack.extend(x)
    return None


def _max_update_ok(summary, key, old, cand, old_unsigned=False):
    """On this path the cell `key` ends up as max(old, cand): written with Ord::max of the two (either order), or written
    with cand on a path that implies old <= cand, or left alone on a path that implies cand <= old."""
    if key in summary.mem:
        v = summary.mem[key]
        if v[0] == "call" and v[1].endswith("::max") and set(v[2]) == {old, cand} and len(v[2]) == 2:
            return True, "max"
        if v == cand and _implies_le(summary, old, cand):
            return True, "conditional-store"
        if v == old and _implies_le(summary, cand, old):
            return True, "rewritten-with-itself"
        return False, v
    if _implies_le(summary, cand, old):
        return True, "left-alone"
    if old_unsigned and _implies_le(summary, cand, ("int", 0)):
        # an unsigned maximum is at least 0: a candidate that is not positive cannot raise it
        return True, "left-alone-for-a-non-positive-candidate"
    return False, "not written on a path that does not imply %s <= %s" % (show(cand), show(old))


def _unwrap_wrapping(e):
    """`acc.wrapping_add(x)` / `acc.wrapping_sub(x)` on an accumulator of self is `acc + x` / `acc - x` (modulo 2^n, exactly
    what the plain operators compute when overflow checks are off): the totals are compared as mathematical sums. The
    request difference `new.wrapping_sub(old)` (no accumulator among the operands) stays as written."""
    if not isinstance(e, tuple):
        return e
    e = tuple(_unwrap_wrapping(x) for x in e)
    if len(e) == 3 and e[0] == "call" and e[1] in ("core::num::wrapping_add", "core::num::wrapping_sub") and len(e[2]) == 2:
        a, b_ = e[2]
        if "('arg', 1" in str(a) or "'cell'" in str(a):
            return add(a, b_, 1 if e[1].endswith("add") else -1)
    return e


def r10_3(ctx, prog, crate):
    """What the tally functions compute, as flow-sensitive path summaries (lib/patheval.py): final value of every field
    on every path in terms of the initial values - independent of how the update is spelled."""
    OP = "alloc::ThreadAllocInfo::tally_op"
    F = lambda f: ("arg", 1, (f,))                                      # noqa: E731  initial value of self.<f>
    K = lambda f: (1, (f,))                                             # noqa: E731  memory cell self.<f>
    diff = ("field", ("call", "core::num::overflowing_sub", (("arg", 3, ()), ("arg", 2, ()))), (0,))
    shrink = ("field", ("call", "core::num::overflowing_sub", (("arg", 3, ()), ("arg", 2, ()))), (1,))
    spec = {
        # fn: (current_count', current_size', tracks max of count, of size, tally_op(op, size) arguments)
        "tally_alloc": (add(F("current_count"), ("int", 1)), add(F("current_size"), ("arg", 2, ())), True, True, ("Alloc", ("arg", 2, ()))),
        "tally_dealloc": (add(F("current_count"), ("int", -1)), add(F("current_size"), ("arg", 2, ()), -1), False, False, ("Dealloc", ("arg", 2, ()))),
        "tally_realloc": (None, add(F("current_size"), diff), False, True, ("realloc", ("call", "core::num::wrapping_abs", (diff,)))),
    }
    # the same three quantities in their other exact spelling: new.wrapping_sub(old) reinterpreted as signed is the signed
    # difference, `new < old` is the borrow bit of new - old, unsigned_abs() is wrapping_abs() reinterpreted as unsigned
    diff2 = ("call", "core::num::wrapping_sub", (("arg", 3, ()), ("arg", 2, ())))
    shrink2 = ("cmp", "Lt", ("arg", 3, ()), ("arg", 2, ()))
    alt = {"tally_realloc": (None, add(F("current_size"), diff2), False, True, ("realloc", ("call", "core::num::unsigned_abs", (diff2,))))}
    for fn, (cc, cs, mxc, mxs, (opname, opsize)) in spec.items():
        b = prog.body("alloc::ThreadAllocInfo::" + fn, crate)
        if not ctx.anchor("R10.3", fn, 1 if b else 0, 1):
            continue
        ctx.saw(b)
        sums = PathEval(b, effects={OP: [("tallies",)]}).run()
        if not ctx.check(sums is not None and len(sums) >= 1, "R10.3", [fn, "summarisable"], "`%s` has a loop or too many paths to summarise" % fn, b.where(0)):
            continue
        for sm_ in sums:
            sm_.mem = {k_: _unwrap_wrapping(v_) for k_, v_ in sm_.mem.items()}
            sm_.conds = [(_unwrap_wrapping(a_), p_) for a_, p_ in sm_.conds]
        shrink_here = shrink
        if fn in alt and any(sm_.mem.get(K("current_size")) == alt[fn][1] for sm_ in sums):
            cc, cs, mxc, mxs, (opname, opsize) = alt[fn]
            shrink_here = shrink2
        for n, sm in enumerate(sums):
            tag = "path%d" % n if len(sums) > 1 else "path"
            where = b.where(sm.blocks[-1])
            allowed = {K("tallies"), K("current_count"), K("current_size"), K("max_count"), K("max_size")}
            extra = sorted(str(k) for k in sm.mem if k not in allowed and not (isinstance(k[0], tuple) and k[0][:2] == ("ret", "alloc::AllocOpMap::get_mut")))
            ctx.check(not extra, "R10.3", [fn, "writes-only-the-running-totals"] + extra, "`%s` also writes %s" % (fn, extra), where)
            # current_* : exact value
            for f, want in (("current_count", cc), ("current_size", cs)):
                got = sm.mem.get(K(f))
                if want is None:
                    ctx.check(got is None or got == F(f), "R10.3", [fn, f, "unchanged"], "`%s` changes %s to %s (a reallocation does not change the number of live allocations)"
                              % (fn, f, show(got) if got else None), where)
                else:
                    ctx.check(got == want, "R10.3", [fn, f, "by-one" if f == "current_count" else ("by-signed-diff" if fn == "tally_realloc" else "by-size")],
                              "`%s` leaves %s = %s, expected %s" % (fn, f, show(got) if got else "<unchanged>", show(want)), where, detail=show(want))
            # max_* : running maximum of the updated current value, or untouched
            for f, tracked, cur_new in (("max_count", mxc, cc), ("max_size", mxs, cs)):
                if tracked:
                    ok, how = _max_update_ok(sm, K(f), F(f), cur_new, old_unsigned=(_self_field_ty(b, f) or "").startswith("u"))
                    ctx.check(ok, "R10.3", [fn, f, "is-max-of-both"], "`%s` leaves %s = %s, expected max(%s, %s)" % (fn, f, how if isinstance(how, str) else show(how), show(F(f)), show(cur_new)),
                              where, detail=how if isinstance(how, str) else None)
                else:
                    got = sm.mem.get(K(f))
                    ctx.check(got is None or got == F(f), "R10.3", [fn, "no-max-update" if fn == "tally_dealloc" else f + "-unchanged"],
                              "`%s` writes %s = %s (a %s cannot raise this maximum)" % (fn, f, show(got) if got else None, "deallocation" if fn == "tally_dealloc" else "reallocation"), where)
            # exactly one tally_op(self, <op>, <size>) - as a call, or written in place on the slot get_mut(self.tallies, <op>) returns
            GM = "alloc::AllocOpMap::get_mut"
            ops = []
            for c in sm.calls:
                if c[0] == OP:
                    ops.append((c[1][1], c[1][2], c[1][0] == ("ptr", (1, ())), c))
                elif c[0] == GM and c[1] and c[1][0] == ("ptr", (1, ("tallies",))):
                    reg = ("ret", GM, c[2])
                    cnt, sz = sm.mem.get((reg, ("count",))), sm.mem.get((reg, ("size",)))
                    c0, s0 = ("cell", reg, ("count",)), ("cell", reg, ("size",))
                    okc = cnt == add(c0, ("int", 1))
                    added = add(sz, s0, -1) if sz is not None else None
                    ops.append((c[1][1], added, bool(okc and sz is not None), c))
            sizes_ok = {opsize}
            if opname == "realloc":
                # |new - old| spelled by the std helper (symmetric in its operands)
                sizes_ok |= {("call", "core::num::abs_diff", (("arg", 3, ()), ("arg", 2, ()))), ("call", "core::num::abs_diff", (("arg", 2, ()), ("arg", 3, ())))}
            ok = len(ops) == 1 and ops[0][2] and ops[0][1] in sizes_ok
            if ok:
                o = ops[0][0]
                if opname == "realloc":
                    ok = o[0] == "site" and o[1] == "alloc::AllocOp::realloc" and o[3] == (shrink_here,)
                    if not ok and o[0] == "adt" and o[2] in ("Shrink", "Grow"):
                        # the variant chosen in place: Shrink exactly on the path where new < old
                        lt = sm.cond(("Lt", ("arg", 3, ()), ("arg", 2, ())))
                        ok = lt is not None and (o[2] == "Shrink") == lt
                else:
                    ok = o[0] == "adt" and o[2] == opname
            ctx.check(ok, "R10.3", [fn, "tallies-op-and-size"], "`%s` does not tally (%s, %s) exactly once, by tally_op or in place: %s" % (fn, opname, show(opsize), [(show(o[0]), show(o[1]) if o[1] else None, o[2]) for o in ops]), where)
            other = [c[0] for c in sm.calls if c[0] not in (OP, "alloc::AllocOp::realloc", GM)]
            ctx.check(not other, "R10.3", [fn, "no-other-calls"] + other, "`%s` calls %s" % (fn, other), where)
    b = prog.body(OP, crate)
    if ctx.anchor("R10.3", "tally_op", 1 if b else 0, 1):
        ctx.saw(b)
        sums = PathEval(b).run()
        if ctx.check(sums is not None and len(sums) == 1, "R10.3", ["tally_op", "straight-line"], "tally_op is not a single path", b.where(0)):
            sm = sums[0]
            sm.mem = {k_: _unwrap_wrapping(v_) for k_, v_ in sm.mem.items()}
            gm = [c for c in sm.calls if c[0] == "alloc::AllocOpMap::get_mut"]
            ok = len(gm) == 1 and gm[0][1] == (("ptr", (1, ("tallies",))), ("arg", 2, ()))
            ctx.check(ok, "R10.3", ["tally_op", "slot-from-get_mut"], "the tally written is not self.tallies.get_mut(op): %s" % [(c[0], [show(a) for a in c[1]]) for c in gm], b.where(0))
            if ok:
                reg = ("ret", "alloc::AllocOpMap::get_mut", gm[0][2])
                cnt = sm.mem.get((reg, ("count",)))
                siz = sm.mem.get((reg, ("size",)))
                ctx.check(cnt == add(("cell", reg, ("count",)), ("int", 1)), "R10.3", ["tally_op", "count-plus-one"], "count' = %s" % (show(cnt) if cnt else None), b.where(0))
                ctx.check(siz == add(("cell", reg, ("size",)), ("arg", 3, ())), "R10.3", ["tally_op", "size-plus-size"], "size' = %s" % (show(siz) if siz else None), b.where(0))
                others = sorted(str(k) for k in sm.mem if k not in ((reg, ("count",)), (reg, ("size",)), (1, ("tallies",))))
                ctx.check(not others, "R10.3", ["tally_op", "writes-count-and-size-once"], "tally_op also writes %s" % others, b.where(0))
    # AllocOp::realloc(is_shrink): Shrink iff the flag
    rb = prog.body("alloc::AllocOp::realloc", crate)
    if rb is None:
        ctx.ok("R10.3", "AllocOp::realloc|absent (the variant is chosen where it is used; decided by tallies-op-and-size)")
    elif ctx.anchor("R10.3", "AllocOp::realloc", 1 if rb else 0, 1):
        sums = PathEval(rb).run()
        tab = {}
        for sm in sums or []:
            v = sm.ret
            flag = sm.cond(("bool", ("arg", 1, ())))
            if v[0] == "adt":
                tab[flag] = v[2]
        ctx.check(tab == {True: "Shrink", False: "Grow"}, "R10.3", ["AllocOp::realloc", "shrink-iff-flag"], "AllocOp::realloc(flag) returns %s" % tab, rb.where(0), detail=str(tab))


def _operand_check(ctx, b, fn, f, srcs, e):
    """count fields change by the constant 1; size fields by the size/diff operand."""
    consts = {s.a for s in srcs if s.kind == "const"}
    params = {s.a for s in srcs if s.kind == "param" and not s.b}
    if f == "current_count":
        ctx.check(len(consts) == 1 and list(consts)[0].startswith("1_") and not params, "R10.3", [fn, f, "by-one"],
                  "`%s` changes by %s %s, expected the constant 1" % (f, sorted(consts), sorted(params)), b.where(e[1]))
    else:
        if fn == "tally_realloc":
            ok = params == {b.param_name(2), b.param_name(3)} and not consts and \
                not any(s.kind == "call" and s.a == "core::num::wrapping_abs" for s in srcs)
            ctx.check(ok, "R10.3", [fn, f, "by-signed-diff"],
                      "`current_size` changes by something other than the signed difference new-old", b.where(e[1]))
        else:
            ctx.check(params == {b.param_name(2)} and not consts, "R10.3", [fn, f, "by-size"],
                      "`%s` changes by %s %s, expected the size parameter" % (f, sorted(params), sorted(consts)), b.where(e[1]))


def r10_4(ctx, prog, crate):
    from .common import tally_slot_statics
    tls, _key = tally_slot_statics(prog, crate)
    if ctx.anchor("R10.4", "CURRENT_THREAD_INFO statics", tls, 1):
        ctx.check(all(s["thread_local"] for s in tls), "R10.4", ["slot-is-thread-local"],
                  "a CURRENT_THREAD_INFO static is not thread-local: %s" % [(s["path"], s["thread_local"]) for s in tls], "src/alloc.rs")
    # every &mut ThreadAllocInfo handed to tally_*/clear comes from try_current()/current() in the same body or is `self`
    n = 0
    for c in prog.callers_of("alloc::ThreadAllocInfo::tally_alloc", "alloc::ThreadAllocInfo::tally_dealloc",
                             "alloc::ThreadAllocInfo::tally_realloc", "alloc::ThreadAllocInfo::clear", crates=[crate]):
        b = c.body
        if b.path.startswith("alloc::tests::"):
            continue
        n += 1
        srcs = b.prov.op_src(c.args[0])
        ok = any(s.kind == "call" and (s.a.endswith("ThreadAllocInfo::try_current") or s.a.endswith("ThreadAllocInfo::current"))
                 for s in srcs)
        if not ok and b.kind == "Closure":
            # overhead measurement: closure receives the pointer obtained by its caller from try_current()
            ok = b.path.startswith("time::timer::Timer::measure_tally_") and all(s.kind == "param" for s in srcs)
        ctx.check(ok, "R10.4", ["tally-of-current-thread", b.path, c.callee.rsplit("::", 1)[-1]],
                  "`%s` in `%s` is applied to a tally that does not come from the current thread's slot (%s)"
                  % (c.callee, b.path, sorted(s.label() for s in srcs)), c.line())
    ctx.anchor("R10.4", "tally/clear call sites", n, 4)


def r10_5(ctx, prog, crate):
    """'Since its tally was last cleared': ThreadAllocInfo::clear resets EVERYTHING, unconditionally - one path, no test,
    the whole struct overwritten with new(); new() is all zeroes (running totals, maxima and every per-operation tally).
    A clear that is skipped for some state lets counts from before the clearing point survive."""
    b = prog.body("alloc::ThreadAllocInfo::clear", crate)
    if ctx.anchor("R10.5", "ThreadAllocInfo::clear", 1 if b else 0, 1):
        ctx.saw(b)
        sums = PathEval(b).run()
        ok = sums is not None and len(sums) == 1 and not sums[0].conds
        ctx.check(ok, "R10.5", ["clear", "unconditional"], "clear() has %s paths / tests state before resetting: %s" % (
            len(sums) if sums is not None else "unsummarisable", [c for s in (sums or []) for c in s.conds][:3]), b.where(0))
        adt0 = prog.adt("alloc::ThreadAllocInfo", crate)
        allf = [f["name"] for f in adt0["variants"][0]["fields"]] if adt0 else []
        for sm in sums or []:
            v = sm.mem.get((1, ()))
            whole = v is not None and v[0] == "site" and v[1] == "alloc::ThreadAllocInfo::new" and set(sm.mem) == {(1, ())}
            # or field by field: EVERY field of the struct (ADT-enumerated) written with 0 / a fresh all-zero map
            bywise = bool(allf) and set(sm.mem) == {(1, (f,)) for f in allf} and \
                all((x[0] == "site" and x[1] == "alloc::AllocOpMap::new") if k[1] == ("tallies",) else x == ("int", 0) for k, x in sm.mem.items())
            ctx.check(whole or bywise, "R10.5", ["clear", "whole-struct-from-new"],
                      "clear() leaves %s (expected *self = Self::new(), or every field of %s reset)" % ({str(k): show(x) for k, x in sm.mem.items()}, allf), b.where(sm.blocks[-1]))
    nb = prog.body("alloc::ThreadAllocInfo::new", crate)
    adt = prog.adt("alloc::ThreadAllocInfo", crate)
    if ctx.anchor("R10.5", "ThreadAllocInfo::new + ADT", (1 if nb else 0) + (1 if adt else 0), 2):
        sums = PathEval(nb).run()
        ok = sums is not None and len(sums) == 1 and sums[0].ret[0] == "adt"
        if ok:
            r = sums[0].ret
            fields = dict(zip(r[4], r[3]))
            want = [f["name"] for f in adt["variants"][0]["fields"]]
            ok = sorted(fields) == sorted(want)
            for f, v in fields.items():
                if f == "tallies":
                    ok = ok and v[0] == "site" and v[1] == "alloc::AllocOpMap::new"
                else:
                    ok = ok and v == ("int", 0)
        ctx.check(ok, "R10.5", ["new", "all-zero"], "ThreadAllocInfo::new() is not { tallies: AllocOpMap::new(), every counter 0 }: %s" % (show(sums[0].ret) if sums else None), nb.where(0))
    mb = prog.body("alloc::AllocOpMap::new", crate)
    if ctx.anchor("R10.5", "AllocOpMap::new", 1 if mb else 0, 1):
        # all-zero bytes (mem::zeroed / [0; N] transmuted) or default tallies
        txt = " ".join(str(s["rv"]) for bi, si, s in mb.stmts() if s["k"] == "assign")
        calls = [c.callee for c in mb.live_calls()]
        zero = ("const 0_u8" in txt and "Repeat" in txt or "[const 0_" in txt) or any(c.endswith(("mem::zeroed", "MaybeUninit::zeroed", "Default>::default", "Default::default")) for c in calls)
        nonzero = [c for c in calls if not c.endswith(("mem::zeroed", "MaybeUninit::zeroed", "assume_init", "Default>::default", "Default::default", "transmute"))]
        ctx.check(zero and not nonzero, "R10.5", ["AllocOpMap::new", "all-zero"], "AllocOpMap::new() is not an all-zero map (calls %s)" % calls, mb.where(0))


def r10_6(ctx, prog, crate):
    """The peak is compared as a signed value. current_count/current_size are relative to the clearing point: memory that
    was allocated before the clear and is released after it drives them below zero, and `max(max_x, current_x)` then has to
    keep max_x. A conversion of the (possibly negative) running total to an unsigned type before the comparison wraps to
    about 2^64 and wins the max. Rule: in the tally functions no value that comes from current_count/current_size is cast
    from a signed to an unsigned integer type, unless a test of that value against zero dominates the cast."""
    SIGNED = ("i8", "i16", "i32", "i64", "i128", "isize")
    UNSIGNED = ("u8", "u16", "u32", "u64", "u128", "usize")
    reads = 0
    for fn in ("tally_alloc", "tally_dealloc", "tally_realloc"):
        b = prog.body("alloc::ThreadAllocInfo::" + fn, crate)
        if b is None:
            continue
        ctx.saw(b)
        for bi, si, s in b.stmts():
            rv = s.get("rv") if s["k"] == "assign" else None
            if not rv:
                continue
            ops = [rv.get("o"), rv.get("a"), rv.get("b")] + list(rv.get("ops", []))
            for o in ops:
                if o and o.get("k") in ("copy", "move") and any(z.kind == "param" and z.b in (("current_count",), ("current_size",)) for z in b.prov.op_src(o)):
                    reads += 1
                    pf = place_fields(o["p"])
                    if o["p"]["l"] == 1 and pf in (("current_count",), ("current_size",)) and o["p"].get("ty"):
                        ctx.check(o["p"]["ty"] in SIGNED, "R10.6", [fn, pf[0], "running-total-is-signed"],
                                  "the running total %s has the unsigned type %s: releasing memory from before the clearing point underflows it" % (pf[0], o["p"]["ty"]), b.where(bi))
            if rv["k"] != "cast" or rv["o"].get("k") not in ("copy", "move"):
                continue
            pl = rv["o"]["p"]
            sty = pl.get("ty") or (b.local_ty(pl["l"]) if not pl["proj"] else None)
            if sty not in SIGNED or rv["ty"] not in UNSIGNED:
                continue
            fields = sorted({z.b[0] for z in b.prov.op_src(rv["o"]) if z.kind == "param" and z.b in (("current_count",), ("current_size",))})
            if not fields:
                continue
            guarded = False
            for sb, t in b.switches():
                if not (b.dominates(sb, bi) and sb != bi):
                    continue
                d = direct_place(b, t["discr"])
                if d and d[0] == "rvalue" and d[1]["k"] == "binop" and d[1]["op"] in ("Lt", "Le", "Gt", "Ge") and any(const_int(x) == 0 for x in (d[1]["a"], d[1]["b"])) and \
                        any(z.kind == "param" and z.b and z.b[0] in fields for x in (d[1]["a"], d[1]["b"]) for z in b.prov.op_src(x)):
                    guarded = True
            ctx.check(guarded, "R10.6", [fn] + fields + ["compared-as-signed"],
                      "`%s` converts the running %s (negative once memory from before the clearing point is released) to %s before it is compared: the wrapped value wins the max"
                      % (fn, "/".join(fields), rv["ty"]), b.where(bi))
    ctx.anchor("R10.6", "reads of the running totals in the tally functions", reads, 4)


def run(ctx, prog, crate):
    r10_5(ctx, prog, crate)
    r10_6(ctx, prog, crate)
    r10_1(ctx, prog, crate)
    r10_2(ctx, prog, crate)
    r10_3(ctx, prog, crate)
    r10_4(ctx, prog, crate)
