"""C15  Options resolve per field: run time over benchmark over innermost group."""
from lib.facts import norm, place_fields, direct_place, nophi, const_int, place_root_fields
from lib import tables

INLINE = True      # crate-local helpers the rules do not know by name are inlined into their callers (lib/inline.py)
EXPLANATION = (
    "R15.1 field-wise merge: in BenchOptions::overwrite(self, other) every field of the ADT (enumerated from the type, "
    "so a new field cannot be forgotten) derives only from self.f and other.f and is combined self-first (Option::or / "
    "CounterSet::overwrite, whose per-kind closure is self.get(kind).or(other.get(kind)) over KnownCounterKind::ALL, "
    "itself checked to list every variant once in declaration order). R15.2 merge direction at both call sites (child "
    "over inherited parent while descending; runner over entry at the leaf). R15.3 tables: every clap option with an "
    "env fallback has env == DIVAN_ + UPPER_SNAKE(id); config_with_args reads only ids that cli::command defines and "
    "stores id `a-b` into bench_options.a_b (counter ids construct the counter type of the same name); each Divan "
    "builder method writes the field of its own name from its own parameter. R15.4 thread-count normalisation "
    "(0 -> available parallelism, sort, dedup, empty -> [1]). R15.5 the RunIgnored decision table and its CLI/builder "
    "wiring. R15.6 Bencher::counter replaces only the counter of its own kind."
    ' R15.3 also: whether a bench_options field is stored by config_with_args depends on the option being present, never on the value given. R15.7 attribute level (engine E3): every option written in an attribute, and #[ignore] in all its forms, is emitted into the BenchOptions field of the same name with the value as written and nothing else is emitted. R15.8 each counter kind means the same everywhere: KnownCounterKind::of::<T>(), the kind AnyCounter::new stores for a T (with that value\'s own count) and the arm of count_inputs_as agree for every type implementing Counter; known_kind()/count() return the stored fields; CounterSet::insert writes exactly the slot of the inserted counter\'s kind; with is insert. R15.9 what threads = <value> turns into: n gives [n] on every path (the borrowed constants hold that very n), true gives [0], false gives [1], iterables are collected, sorted, then de-duplicated, items verbatim. R15.10 counter builders: Divan::<kind>_count(n) is self.counter(n.into()) with the counter type of that kind; counter hands its argument to counter_mut and returns self; counter_mut inserts into self.bench_options.counters only. R15.8 also covers the checked downcast (cast_ref/is_type_eq/proxy_type_id) AnyCounter::new decides the kind through.')
EXPLANATION += (' R15.11 (= R14.3) the terse listing resolves ignore like a run (inherited options threaded and merged with overwrite). R15.12 an option that may be given without a value is read by occurrence; bare means true, a value is taken as given, absence writes nothing (path summaries of the reader). R15.13 no option definition carries a clap default, so absence on the command line keeps what the Divan builder configured.')
EXPLANATION += (' R15.14 config_with_args writes bench_options fields only with values built as Some(..) (an absent flag never erases a builder value).')
NOT_DECIDED = ["clap's own precedence of flag over environment variable (trusted library)",
               "programs outside the analysed macro corpus (R15.7 decides the attribute -> field mapping for the corpus and the repository's own programs)"]
TRUSTED = ["clap: a flag given on the command line takes precedence over its .env() fallback"]


def const_str(op):
    if op["k"] == "const" and op["c"]["ty"] in ("&str", "&'static str"):
        d = op["c"]["d"]
        if d.startswith('"') and d.endswith('"'):
            return d[1:-1]
    return None


def str_consts(srcs):
    out = set()
    for s in srcs:
        if s.kind == "const" and s.b in ("&str", "&'static str") and s.a.startswith('"'):
            out.add(s.a[1:-1])
    return out


def r15_1(ctx, prog, crate):
    b = prog.body("benchmark::options::BenchOptions::overwrite", crate)
    adt = prog.adt("benchmark::options::BenchOptions", crate)
    if not ctx.anchor("R15.1", "BenchOptions::overwrite + ADT", (1 if b else 0) + (1 if adt else 0), 2):
        return
    ctx.saw(b)
    fields = [f["name"] for f in adt["variants"][0]["fields"]]
    ctx.anchor("R15.1", "BenchOptions fields", fields, 8)
    aggs = [(bi, s) for bi, si, s in b.stmts() if s["k"] == "assign" and s["rv"]["k"] == "agg" and s["rv"]["ak"] == "adt"
            and norm(s["rv"]["adt"]) == "benchmark::options::BenchOptions" and s["p"]["l"] == 0]
    if not ctx.check(len(aggs) == 1, "R15.1", ["overwrite", "single-result-aggregate"], "result built %d times" % len(aggs), b.where(0)):
        return
    bi, s = aggs[0]
    rv = s["rv"]
    ctx.check(rv["fields"] == fields, "R15.1", ["overwrite", "all-fields"], "aggregate fields %s vs ADT %s" % (rv["fields"], fields), b.where(bi))
    me, other = b.param_name(1), b.param_name(2)
    for f, o in zip(rv["fields"], rv["ops"]):
        srcs = b.prov.op_src(o)
        ps = {(x.a, x.b[:1]) for x in srcs if x.kind == "param"}
        ctx.check(ps == {(me, (f,)), (other, (f,))}, "R15.1", ["overwrite", f, "own-field-only"],
                  "field `%s` of the merged options derives from %s, expected exactly self.%s and other.%s"
                  % (f, sorted("%s.%s" % (a, ".".join(map(str, p))) for a, p in ps), f, f), b.where(bi))
    # what each field of the result is, path by path (lib/patheval.py): `self.f if it is set, else other.f` in any spelling
    from lib.patheval import PathEval
    from lib.symexpr import show
    sums = PathEval(b).run()
    if not ctx.check(sums is not None and sums, "R15.1", ["overwrite", "summarisable"], "BenchOptions::overwrite has a loop or too many paths", b.where(0)):
        return
    COMB = ("std::option::Option::or", "counter::collection::CounterSet::overwrite")

    def leaves(e, out):
        if isinstance(e, tuple):
            if e and e[0] == "arg":
                out.add((e[1], e[2][:1]))
                return
            if e and e[0] in ("ptr", "sptr") and isinstance(e[1], tuple) and not isinstance(e[1][0], tuple):
                out.add((e[1][0], e[1][1][:1]))
                return
            for x in e:
                leaves(x, out)

    def combiner(e):
        """first node `comb(x, y)` with x only from self.f and y only from other.f, or with the sides swapped"""
        found = []

        def walk(x):
            if isinstance(x, tuple):
                if x and x[0] in ("site", "call") and x[1] in COMB:
                    args = x[3] if x[0] == "site" else x[2]
                    if len(args) == 2:
                        l0, l1 = set(), set()
                        leaves(args[0], l0)
                        leaves(args[1], l1)
                        found.append((x[1], l0, l1))
                for y in x:
                    walk(y)
        walk(e)
        return found
    for f in rv["fields"]:
        mine, theirs = {(1, (f,))}, {(2, (f,))}
        for n, sm in enumerate(sums):
            v = sm.ret
            if not (v[0] == "adt" and f in v[4]):
                ctx.fail("R15.1", ["overwrite", f, "one-combiner"], "the result of overwrite is not a BenchOptions aggregate on path %d" % n, b.where(bi))
                continue
            e = v[3][v[4].index(f)]
            lv = set()
            leaves(e, lv)
            cm = combiner(e)
            # is `self.f is Some` decided on this path?
            is_some = None
            for a, pol in sm.conds:
                if a[0] == "discr" and a[1] == ("arg", 1, (f,)) and a[2] in (0, 1):
                    is_some = (a[2] == 1)
                elif a[0] == "bool" and a[1][0] == "site" and a[1][1].endswith(("Option::is_some", "Option::is_none")):
                    l0 = set()
                    leaves(a[1][3], l0)
                    if l0 == mine:
                        is_some = pol if a[1][1].endswith("is_some") else (not pol)
            if len(cm) == 1 and lv == mine | theirs:
                callee, l0, l1 = cm[0]
                ctx.check(l0 == mine and l1 == theirs, "R15.1", ["overwrite", f, "self-first"],
                          "field `%s`: the combiner's receiver is other.%s - the overriding side loses (%s)" % (f, f, show(e)), b.where(bi),
                          detail={"field": f, "combiner": callee, "receiver": "self." + f})
            elif not cm and is_some is True:
                ctx.check(lv == mine, "R15.1", ["overwrite", f, "self-first"], "field `%s`: when self.%s is set the result is %s" % (f, f, show(e)), b.where(bi))
            elif not cm and is_some is False:
                ctx.check(lv == theirs and e == ("arg", 2, (f,)), "R15.1", ["overwrite", f, "falls-back-to-other"],
                          "field `%s`: when self.%s is unset the result is %s, expected other.%s" % (f, f, show(e), f), b.where(bi))
            else:
                ctx.fail("R15.1", ["overwrite", f, "one-combiner"], "field `%s` = %s: neither `self.%s.or(other.%s)` nor a choice on whether self.%s is set"
                         % (f, show(e), f, f, f), b.where(bi))
                continue
            ctx.ok("R15.1", "overwrite|%s|one-combiner" % f)
    # CounterSet::overwrite
    cs = prog.body("counter::collection::CounterSet::overwrite", crate)
    if ctx.anchor("R15.1", "CounterSet::overwrite", 1 if cs else 0, 1):
        ctx.saw(cs)
        cl = [x for x in prog.children(cs) if x.kind == "Closure"]
        if ctx.check(len(cl) == 1, "R15.1", ["CounterSet::overwrite", "per-kind-closure"], "closures: %d" % len(cl), cs.where(0)):
            c = cl[0]
            ctx.saw(c)
            ors = [x for x in c.live_calls() if x.callee == "std::option::Option::or"]
            if ctx.check(len(ors) == 1, "R15.1", ["CounterSet::overwrite", "or"], "Option::or sites: %d" % len(ors), c.where(0)):
                o = ors[0]
                s0 = c.prov.op_src(o.args[0])
                s1 = c.prov.op_src(o.args[1])

                def upv(ss):
                    out = set()
                    for y in ss:
                        if y.kind == "upvar":
                            cap = prog.capture_operand(c, y.a) or prog.capture_operand(c, "*" + y.a)
                            if cap is None:
                                for cn in c.captures or []:
                                    if cn.lstrip("*") == y.a.lstrip("*"):
                                        cap = prog.capture_operand(c, cn)
                            if cap:
                                out |= {z.label() for z in cap[0].prov.op_src(cap[1]) if z.kind == "param"}
                    return out
                ctx.check(upv(s0) == {"param:" + cs.param_name(1)} and upv(s1) == {"param:" + cs.param_name(2)}, "R15.1",
                          ["CounterSet::overwrite", "self-first"], "per-kind merge is %s.or(%s)" % (sorted(upv(s0)), sorted(upv(s1))), o.line())
                g0 = {y.a for y in s0 if y.kind == "call"}
                g1 = {y.a for y in s1 if y.kind == "call"}
                k0 = {y.label() for y in s0 if y.kind == "param"}
                k1 = {y.label() for y in s1 if y.kind == "param"}
                ctx.check(g0 == g1 == {"counter::collection::CounterSet::get"} and k0 == k1 == {"param:" + c.param_name(2)}, "R15.1",
                          ["CounterSet::overwrite", "same-kind-both-sides"], "sides read %s(%s) and %s(%s)" % (sorted(g0), sorted(k0), sorted(g1), sorted(k1)), o.line())
        # iterates KnownCounterKind::ALL
        all_src = any("KnownCounterKind::ALL" in str(y.a) or (y.c and "KnownCounterKind::ALL" in str(y.c)) for c2 in cs.live_calls() for a in c2.args
                      for y in cs.prov.op_src(a) if y.kind == "const")
        ctx.check(all_src, "R15.1", ["CounterSet::overwrite", "over-ALL-kinds"], "the merge does not map over KnownCounterKind::ALL", cs.where(0))
    allc = prog.bodies.get((crate, "counter::any_counter::KnownCounterKind::ALL", -1))
    names = tables.variant_names(prog, "counter::any_counter::KnownCounterKind", crate)
    if ctx.anchor("R15.1", "KnownCounterKind::ALL + ADT", (1 if allc else 0) + (1 if names else 0), 2):
        arr = tables.const_array_elems(allc)
        got = [x[1] if x else None for x in (arr or [])]
        ctx.check(got == names, "R15.1", ["KnownCounterKind::ALL", "every-variant-once-in-order"],
                  "KnownCounterKind::ALL = %s, variants = %s" % (got, names), allc.where(0), detail={"ALL": got})
    g = prog.body("counter::collection::CounterSet::get", crate)
    if ctx.anchor("R15.1", "CounterSet::get", 1 if g else 0, 1):
        ok = False
        for bi, si, s in g.stmts():
            if s["k"] == "assign":
                rvp = s["rv"].get("p") or (s["rv"].get("o", {}).get("p") if s["rv"]["k"] == "use" else None)
                if rvp and any(pr["k"] == "index" for pr in rvp["proj"]) and [pr.get("name") for pr in rvp["proj"] if pr["k"] == "field"] == ["counts"]:
                    idx = [pr for pr in rvp["proj"] if pr["k"] == "index"][0]["l"]
                    srcs = g.prov.local_src(idx)
                    ok = any(y.kind == "discr" for y in srcs) and {y.label() for y in srcs if y.kind == "param"} == {"param:" + g.param_name(2)}
        ctx.check(ok, "R15.1", ["CounterSet::get", "index-by-kind"], "CounterSet::get does not index counts by `kind as usize`", g.where(0))


def r15_2(ctx, prog, crate):
    b = prog.body("divan::Divan::run_bench_entry", crate)
    if ctx.anchor("R15.2", "run_bench_entry", 1 if b else 0, 1):
        ctx.saw(b)
        ow = [c for c in b.live_calls() if c.callee == "benchmark::options::BenchOptions::overwrite"]
        if ctx.check(len(ow) == 1, "R15.2", ["run_bench_entry", "one-overwrite"], "overwrite sites: %d" % len(ow), b.where(0)):
            c = ow[0]
            a0 = {x.label() for x in b.prov.op_src(c.args[0]) if x.kind == "param"}
            a1 = {x.a for x in b.prov.op_src(c.args[1]) if x.kind == "param"}
            entry_p = [b.param_name(l) for l in range(1, b.arg_count + 1) if "BenchOptions" in b.local_ty(l)]
            ctx.check(a0 == {"param:self.bench_options"} and a1 == set(entry_p), "R15.2", ["run_bench_entry", "runner-over-entry"],
                      "overwrite(%s, %s): expected self.bench_options.overwrite(entry_options)" % (sorted(a0), sorted(a1)), c.line())
            # the merged options are what the benchmark context gets
            bc = None
            for x in prog.closure_tree(b):
                for cc in x.live_calls():
                    if cc.callee == "benchmark::BenchContext::new":
                        bc = (x, cc)
            if ctx.check(bc is not None, "R15.2", ["run_bench_entry", "context-built"], "BenchContext::new not found", b.where(0)):
                x, cc = bc
                lab = set()
                for y in x.prov.op_src(cc.args[1]):
                    if y.kind == "upvar":
                        cap = None
                        for cn in x.captures or []:
                            if cn.lstrip("*") == y.a.lstrip("*"):
                                cap = prog.capture_operand(x, cn)
                        if cap:
                            lab |= {z.label() for z in cap[0].prov.op_src(cap[1]) if z.kind in ("call", "param")}
                ctx.check("call:benchmark::options::BenchOptions::overwrite" in lab and "param:self.bench_options" in lab, "R15.2",
                          ["run_bench_entry", "context-gets-merged-options"], "BenchContext::new receives %s" % sorted(lab), cc.line())
    if b is not None:
        effective_options_always_merged(ctx, prog, crate, b, "R15.2")
    b = prog.body("divan::Divan::run_tree", crate)
    if ctx.anchor("R15.2", "run_tree", 1 if b else 0, 1):
        ctx.saw(b)
        ow = [c for c in b.live_calls() if c.callee == "benchmark::options::BenchOptions::overwrite"]
        if ctx.check(len(ow) == 1, "R15.2", ["run_tree", "one-overwrite"], "overwrite sites: %d" % len(ow), b.where(0)):
            c = ow[0]
            s0 = b.prov.op_src(c.args[0])
            s1 = b.prov.op_src(c.args[1])
            opt_param = [b.param_name(l) for l in range(1, b.arg_count + 1) if "BenchOptions" in b.local_ty(l)]
            child0 = any(x.kind == "call" and x.a == "entry::tree::EntryTree::bench_options" for x in s0)
            parent0 = any(x.kind == "param" and x.a in opt_param for x in s0)
            child1 = any(x.kind == "call" and x.a == "entry::tree::EntryTree::bench_options" for x in s1)
            parent1 = any(x.kind == "param" and x.a in opt_param for x in s1)
            ctx.check(child0 and not parent0 and parent1 and not child1, "R15.2", ["run_tree", "child-over-parent"],
                      "expected child.bench_options().overwrite(parent_options)", c.line())
        # both the recursion and the leaf call receive the merged value
        for c in b.live_calls():
            if c.callee in ("divan::Divan::run_tree", "divan::Divan::run_bench_entry"):
                opt_args = [a for a in c.args if a["k"] in ("copy", "move") and "BenchOptions" in a["p"]["ty"]]
                ok = len(opt_args) == 1 and any(x.kind == "call" and x.a == "benchmark::options::BenchOptions::overwrite"
                                                for x in b.prov.op_src(opt_args[0]))
                ctx.check(ok, "R15.2", ["run_tree", "passes-merged", c.callee.rsplit("::", 1)[-1]],
                          "`%s` does not receive the merged options" % c.callee, c.line())
    # EntryTree::bench_options of a node = its own entry/group meta options
    return


def effective_options_always_merged(ctx, prog, crate, b, rule):
    """Every value that can reach the *effective options* of a leaf (the options handed to BenchContext::new and the one
    whose `.ignore` decides should_ignore) is either the runner's own bench_options - only when the entry has no options -
    or the result of self.bench_options.overwrite(entry_options).  Entry options that bypass the merge lose every run-time
    override."""
    from lib.facts import origins
    from lib import tables as _t
    uses = []
    for c in b.live_calls():
        if c.callee == "divan::Divan::should_ignore":
            d = direct_place(b, c.args[1])
            if d and d[0] == "call" and d[1].callee.endswith("unwrap_or_default"):
                uses.append(("should_ignore", d[1].args[0], c))
    for x in prog.closure_tree(b):
        for cc in x.live_calls():
            if cc.callee == "benchmark::BenchContext::new":
                for y in x.prov.op_src(cc.args[1]):
                    if y.kind == "upvar":
                        for cn in x.captures or []:
                            if cn.lstrip("*") == y.a.lstrip("*"):
                                cap = prog.capture_operand(x, cn)
                                if cap and cap[0].path == b.path:
                                    uses.append(("BenchContext::new", cap[1], cc))
    if not ctx.anchor(rule, "uses of the effective options in run_bench_entry", uses, 2):
        return
    entry_params = [l for l in range(1, b.arg_count + 1) if "BenchOptions" in b.local_ty(l)]
    none_arm = None
    for bi, t, base in _t.discr_switches(b):
        if base in entry_params:
            arms, otherwise = _t.arm_targets(t)
            none_arm = arms.get(0, otherwise)
    # the parameter may have been copied into a spliced helper's own parameter before it is matched on
    if none_arm is None:
        for bi, t, base in _t.discr_switches(b):
            if any(o_[0] == "place" and o_[1] in entry_params and not o_[2] for o_ in origins(b, {"k": "copy", "p": {"l": base, "proj": [], "ty": ""}})):
                arms, otherwise = _t.arm_targets(t)
                none_arm = arms.get(0, otherwise)

    def eff_origins(op, depth=6):
        """origins(), seen through the wrappers a borrowed-or-owned result travels in: Cow::Borrowed / Cow::Owned / Some(..)
        aggregates and the Deref / as_deref / as_ref / borrow calls that take the reference back out."""
        out = []
        for o in origins(b, op):
            if depth > 0 and o[0] == "call" and o[1].args and (o[1].callee.endswith(("Deref>::deref", "Borrow<T>>::borrow", "AsRef<T>>::as_ref")) or
                                                                 o[1].callee in ("std::option::Option::as_deref", "std::option::Option::as_ref")):
                out += eff_origins(o[1].args[0], depth - 1)
            elif depth > 0 and o[0] == "rvalue" and o[1]["k"] == "agg" and o[1].get("ak") == "adt" and o[1]["ops"] and \
                    (norm(o[1]["adt"]) == "std::borrow::Cow" or (norm(o[1]["adt"]) == "std::option::Option" and o[1].get("variant") == "Some")):
                sub = eff_origins(o[1]["ops"][0], depth - 1)
                # what decides that the borrowed options are used as they are is the arm that wraps them
                out += [(x[0], x[1], x[2], o[2]) if x[0] == "place" else x for x in sub]
            else:
                out.append(o)
        return out
    for what, op, c in uses:
        for o in eff_origins(op):
            if o[0] == "call":
                ok = o[1].callee == "benchmark::options::BenchOptions::overwrite"
                desc = "call " + o[1].callee
            elif o[0] == "place":
                runner = o[1] == 1 and tuple(o[2])[:1] == ("bench_options",)
                ok = runner and none_arm is not None and o[3] is not None and b.dominates(none_arm, o[3])
                desc = "%s.%s" % (b.param_name(o[1]), ".".join(map(str, o[2])))
                if runner and not ok:
                    desc += " (not confined to the entry-has-no-options arm)"
            else:
                ok = False
                desc = str(o[0])
            ctx.check(ok, rule, [b.path, what, "effective-options-origin", desc],
                      "the effective options used by %s can be `%s`: the runner's options and the entry's options are not merged with "
                      "overwrite() on that path" % (what, desc), c.line(), detail={"use": what, "origin": desc})


def cli_tables(ctx, prog, crate):
    cmd = prog.body("cli::command", crate)
    if not ctx.anchor("R15.3", "cli::command", 1 if cmd else 0, 1):
        return None, None
    ctx.saw(cmd)
    defined = set()
    envs = {}
    for c in cmd.live_calls():
        if c.callee in ("cli::command::option", "cli::command::flag", "cli::command::ignored_flag", "clap::Arg::new"):
            s = const_str(c.args[0])
            if s is not None:
                defined.add(s)
        if c.callee == "clap::Arg::env":
            env = const_str(c.args[1])
            ids = {x for x in str_consts(cmd.prov.op_src(c.args[0]))} & defined_candidates(cmd, c)
            envs[env] = ids
    return defined, envs


def defined_candidates(cmd, envcall):
    """ids given to option()/flag()/Arg::new whose result flows into this env() call's receiver."""
    out = set()
    for s in cmd.prov.op_src(envcall.args[0]):
        if s.kind == "call" and s.a in ("cli::command::option", "cli::command::flag", "clap::Arg::new"):
            cc = cmd.call_at(s.b)
            v = const_str(cc.args[0])
            if v is not None:
                out.add(v)
    return out


def control_ids(b, bi):
    """Option ids whose presence test controls block bi: string constants feeding the discriminant of every switch
    one of whose arms (a single-predecessor target) dominates bi."""
    out = set()
    for sb, t in b.switches():
        for tgt in [a[1] for a in t["arms"]] + [t["otherwise"]]:
            if b.pred[tgt] == [sb] and b.dominates(tgt, bi):
                out |= str_consts(b.prov.op_src(t["discr"]))
    return out


def r15_3(ctx, prog, crate):
    defined, envs = cli_tables(ctx, prog, crate)
    if defined is None:
        return
    ctx.anchor("R15.3", "clap options with an env fallback", envs, 14)
    for env, ids in sorted(envs.items()):
        ok = len(ids) == 1 and env == "DIVAN_" + list(ids)[0].upper().replace("-", "_")
        ctx.check(ok, "R15.3", ["env-name", env], "option %s has environment fallback `%s`" % (sorted(ids), env), "src/cli.rs",
                  detail={"id": sorted(ids), "env": env})
    # options are independent: the parser may relate (override / conflict / require) only the documented mode switches -
    # a relation between two benchmark options makes one run-time value drop another ("setting one option never masks a
    # different option")
    cmd_ = prog.body("cli::command", crate)
    ALLOWED_REL = {("format", "requires", "list"), ("test", "conflicts_with", "list"), ("list", "conflicts_with", "test"),
                   ("ignored", "conflicts_with", "include-ignored"), ("include-ignored", "conflicts_with", "ignored"),
                   ("sortr", "overrides_with", "sort"), ("sort", "overrides_with", "sortr")}
    rels = []
    for c in cmd_.live_calls():
        n = c.callee.rsplit("::", 1)[-1]
        if c.callee.startswith("clap::") and n in ("overrides_with", "overrides_with_all", "conflicts_with", "conflicts_with_all", "requires", "requires_all",
                                                   "requires_if", "requires_ifs", "exclusive", "group", "groups", "default_value_if", "default_value_ifs"):
            subj = defined_candidates(cmd_, c)
            objs = str_consts(cmd_.prov.op_src(c.args[1])) if len(c.args) > 1 else set()
            for s_ in sorted(subj) or ["?"]:
                for o_ in sorted(objs) or ["?"]:
                    rels.append((s_, n, o_, c))
    opt_ids = {f.replace("_", "-") for f in (fields_ for fields_ in [x["name"] for x in (prog.adt("benchmark::options::BenchOptions", crate) or {"variants": [{"fields": []}]})["variants"][0]["fields"]])} | \
        {"items-count", "bytes-count", "chars-count", "cycles-count"}
    for s_, n, o_, c in rels:
        ctx.check((s_, n, o_) in ALLOWED_REL and s_ not in opt_ids and o_ not in opt_ids, "R15.3", ["option-relation", s_, n, o_],
                  "the command line relates --%s to --%s with clap's `%s`: benchmark options are independent (a value given for one must not drop or reject another); "
                  "only the documented mode switches may be related" % (s_, o_, n), c.line(), detail={"subject": s_, "relation": n, "object": o_})
    ctx.anchor("R15.3", "option relations declared by cli::command", rels, 5)
    adt = prog.adt("benchmark::options::BenchOptions", crate)
    fields = [f["name"] for f in adt["variants"][0]["fields"]] if adt else []
    # every option field has a CLI option with env fallback
    for f in fields:
        if f in ("ignore", "counters"):
            continue
        ctx.check(f.replace("_", "-") in defined and ("DIVAN_" + f.upper()) in envs, "R15.3", ["field-has-cli-and-env", f],
                  "BenchOptions.%s has no --%s option / DIVAN_%s variable" % (f, f.replace("_", "-"), f.upper()), "src/cli.rs")
    b = prog.body("divan::Divan::config_with_args", crate)
    if not ctx.anchor("R15.3", "Divan::config_with_args", 1 if b else 0, 1):
        return
    ctx.saw(b)
    reads = {}
    getters = ("clap::ArgMatches::get_flag", "clap::ArgMatches::get_one", "clap::ArgMatches::get_many", "clap::ArgMatches::remove_many",
               "clap::ArgMatches::try_get_one", "clap::ArgMatches::remove_one", "clap::ArgMatches::get_count", "clap::ArgMatches::contains_id")
    for c in b.live_calls():
        if c.callee in getters:
            ids = str_consts(b.prov.op_src(c.args[1]))
            for i in ids:
                reads.setdefault(i, []).append(c)
            ctx.check(len(ids) == 1, "R15.3", ["read-id-constant", c.callee.rsplit("::", 1)[-1]] + sorted(ids),
                      "argument id is not a single string constant", c.line())
    ctx.anchor("R15.3", "option ids read by config_with_args", reads, 20)
    for i, cs in sorted(reads.items()):
        tolerant = all(c.callee.endswith("try_get_one") for c in cs)
        ctx.check(i in defined or (tolerant and i == "format"), "R15.3", ["read-id-defined", i],
                  "config_with_args reads `%s`, which cli::command never defines (clap panics at run time)" % i, cs[0].line())
    # stores: field <- id of the same name
    seen_fields = set()
    for bi, si, s in b.stmts():
        if s["k"] != "assign" or s["p"]["l"] != 1:
            continue
        fs = place_fields(s["p"])
        if fs[:1] != ("bench_options",) or len(fs) < 2:
            continue
        f = fs[1]
        srcs = b.prov._rv(s["rv"], (), frozenset(), bi, si)
        ids = (str_consts(srcs) | control_ids(b, bi)) & set(reads)
        seen_fields.add(f)
        ctx.check(ids == {f.replace("_", "-")}, "R15.3", ["store", f],
                  "bench_options.%s is set from option(s) %s, expected --%s" % (f, sorted(ids), f.replace("_", "-")), b.where(bi),
                  detail={"field": f, "from": sorted(ids)})
    # a run-time value overrides lower levels whatever it is: the store depends on the option being PRESENT, never on the
    # value given (an explicit `false` / `0` must be recorded as Some(false) / Some(0), not left unset)
    from lib.symexpr import Sym
    SY = Sym(b, site_args=True)

    def mentions_site(e, bbs):
        if isinstance(e, tuple):
            if e and e[0] == "site" and e[2] in bbs:
                return True
            return any(mentions_site(x, bbs) for x in e)
        return False
    all_blocks = set(range(len(b.blocks)))
    for bi, si, s in b.stmts():
        if s["k"] != "assign" or s["p"]["l"] != 1:
            continue
        fs = place_fields(s["p"])
        if fs[:1] != ("bench_options",) or len(fs) < 2 or fs[1].replace("_", "-") not in reads:
            continue
        f = fs[1]
        gbbs = {c.bb for c in reads[f.replace("_", "-")]}
        bad = []
        for x, t in b.switches():
            succ = b.succ[x]
            if not b.dominates(x, bi):
                continue
            reach_from = [bi in b.reach([y]) for y in succ]
            if all(reach_from) or not any(reach_from):
                continue            # does not decide whether the store happens
            e = SY.op(t["discr"])
            if e[0] == "phi":
                # a flag computed by `matches!(..)` / if-else: constants assigned on different arms; what it depends on
                # are the tests that select the arm (second-order control dependence)
                deps = []
                for d_ in b.prov.defs.get(e[1], []):
                    db = d_[1]
                    for x2, t2 in b.switches():
                        if x2 == x or not b.dominates(x2, db) or not b.dominates(x2, x):
                            continue
                        r2 = [db in b.reach([y], avoid=[x]) for y in b.succ[x2]]
                        if all(r2) or not any(r2):
                            continue
                        deps.append(SY.op(t2["discr"]))
                if any(mentions_site(d2, gbbs) and not (d2[0] == "discr" and d2[1][0] == "site" and d2[1][2] in gbbs) for d2 in deps):
                    bad.append(b.where(x))
                continue
            if not mentions_site(e, gbbs) and not any(z.kind == "call" and z.b in gbbs for z in b.prov.op_src(t["discr"])):
                continue
            presence = e[0] == "discr" or (e[0] == "site" and e[1].endswith(("Option::is_some", "Option::is_none")))
            if not presence:
                bad.append(b.where(x))
        ctx.check(not bad, "R15.3", ["store", f, "iff-present"],
                  "whether bench_options.%s is stored depends on the VALUE given for --%s (test at %s), not only on its presence: an explicit run-time value "
                  "would not override the attribute/group level" % (f, f.replace("_", "-"), bad), b.where(bi))
    ctx.check(seen_fields >= {x for x in fields if x not in ("ignore", "counters")}, "R15.3", ["store", "all-fields"],
              "config_with_args never stores %s" % sorted(set(fields) - seen_fields - {"ignore", "counters"}), b.where(0))
    # counters: `x-count` -> XCount
    n = 0
    for c in b.live_calls():
        if c.callee == "divan::Divan::counter_mut":
            n += 1
            srcs = b.prov.op_src(c.args[1])
            ids = str_consts(srcs) & set(reads)
            ctor = {x.a for x in srcs if x.kind == "call" and x.a.startswith("counter::") and x.a.endswith("::new")}
            ok = len(ids) == 1 and len(ctor) == 1
            if ok:
                i = list(ids)[0]
                want = i.split("-")[0].capitalize() + "Count"
                ok = i.endswith("-count") and list(ctor)[0].split("::")[-2] == want
            ctx.check(ok, "R15.3", ["counter-store"] + sorted(ids), "counter option %s constructs %s" % (sorted(ids), sorted(ctor)), c.line(),
                      detail={"id": sorted(ids), "ctor": sorted(ctor)})
    ctx.anchor("R15.3", "counter options stored", n, 4)
    # sort / sortr
    for bi, si, s in b.stmts():
        if s["k"] == "assign" and s["p"]["proj"] and place_root_fields(b, s["p"]) == (1, ("reverse_sort",)):
            val = s["rv"]["o"]["c"]["d"] if s["rv"]["k"] == "use" and s["rv"]["o"]["k"] == "const" else None
            # the sorting_attr stored in the same block comes from which option?
            ids = set()
            for s2 in b.blocks[bi]["stmts"]:
                if s2["k"] == "assign" and s2["p"]["proj"] and place_root_fields(b, s2["p"]) == (1, ("sorting_attr",)):
                    ids = str_consts(b.prov._rv(s2["rv"], (), frozenset(), bi, 0)) & set(reads)
            want = {"true": {"sortr"}, "false": {"sort"}}.get(val)
            ctx.check(want is not None and ids == want, "R15.3", ["sort-direction", str(val)],
                      "reverse_sort = %s is paired with option %s" % (val, sorted(ids)), b.where(bi))
    # builder methods
    for f in fields:
        if f in ("ignore", "counters"):
            continue
        m = prog.body("divan::Divan::" + f, crate)
        if not ctx.anchor("R15.3", "builder Divan::" + f, 1 if m else 0, 1):
            continue
        ctx.saw(m)
        ws = [(bi, s) for bi, si, s in m.stmts() if s["k"] == "assign" and s["p"]["l"] == 1 and place_fields(s["p"])[:1] == ("bench_options",)]
        fw = {place_fields(s["p"])[1] for bi, s in ws if len(place_fields(s["p"])) > 1}
        ctx.check(fw == {f}, "R15.3", ["builder", f, "writes-own-field"], "Divan::%s writes bench_options.%s" % (f, sorted(fw)), m.where(0))
        for bi, s in ws:
            srcs = m.prov._rv(s["rv"], (), frozenset(), bi, 0)
            ps = {x.a for x in srcs if x.kind == "param"}
            ctx.check(ps == {m.param_name(2)}, "R15.3", ["builder", f, "from-own-parameter"], "value derives from %s" % sorted(ps), m.where(bi))


def _nonzero_or_parallelism(m):
    """The closure returns NonZero::new(<its argument>).unwrap_or_else(known_parallelism) (the function by name or a closure
    that calls nothing else) on its only path."""
    from lib.patheval import PathEval
    sums = PathEval(m).run()
    if not sums or len(sums) != 1 or sums[0].conds:
        return False
    r = sums[0].ret
    if not (r[0] == "site" and r[1] == "std::option::Option::unwrap_or_else" and len(r[3]) == 2):
        return False
    inner, alt = r[3]
    if not (inner[0] == "site" and inner[1] == "std::num::NonZero::new" and len(inner[3]) == 1 and "('arg', 2" in str(inner[3][0])):
        return False
    if alt == ("opaque", "fn:util::known_parallelism"):
        return True
    kids = [x for x in m.prog.children(m) if x.kind == "Closure"]
    return len(kids) == 1 and [c.callee for c in kids[0].live_calls()] == ["util::known_parallelism"]


def r15_4(ctx, prog, crate):
    b = prog.body("divan::Divan::run_bench_entry", crate)
    if b is None:
        return
    # the mapping closure: NonZero::new(n) else known_parallelism()
    maps = [x for x in prog.children(b) if x.kind == "Closure" and any(c.callee == "std::num::NonZero::new" for c in x.live_calls())]
    if ctx.check(len(maps) == 1, "R15.4", ["thread-count-map", "exists"], "no closure mapping usize -> NonZeroUsize", b.where(0)):
        m = maps[0]
        ctx.saw(m)
        nz = [c for c in m.live_calls() if c.callee == "std::num::NonZero::new"][0]
        kp = [c for c in m.live_calls() if c.callee == "util::known_parallelism"]
        ok = len(kp) == 1
        comb = _nonzero_or_parallelism(m)
        if comb:
            ok = True       # NonZero::new(n).unwrap_or_else(known_parallelism): the same mapping as a combinator
        elif ok:
            # known_parallelism only on the None arm of NonZero::new's result
            sw_ = tables.switch_on_call_result(m, nz)
            sw = [sw_] if sw_ is not None else []
            ok = len(sw) == 1
            if ok:
                arms, otherwise = tables.arm_targets(sw[0][1])
                none_t = arms.get(0, otherwise)
                some_t = arms.get(1, otherwise)
                ok = kp[0].bb in m.reach([none_t]) and kp[0].bb not in m.reach([some_t])
        ctx.check(ok, "R15.4", ["thread-count-map", "zero-means-available-parallelism"],
                  "a thread count of 0 is not replaced by known_parallelism()", m.where(0))
    so = [c for c in b.live_calls() if c.callee.endswith("::sort_unstable") or c.callee.endswith("::sort")]
    dd = [c for c in b.live_calls() if c.callee.endswith("::dedup")]
    ie = [c for c in b.live_calls() if c.callee.endswith("::is_empty")]
    ok = len(so) == 1 and len(dd) == 1 and b.dominates(so[0].bb, dd[0].bb)
    ctx.check(ok, "R15.4", ["thread-counts", "sort-then-dedup"], "thread counts are not sorted and then de-duplicated", b.where(0))
    if ok:
        l0 = direct_place(b, so[0].args[0])
        l1 = direct_place(b, dd[0].args[0])
        same = {x.label() for x in b.prov.op_src(so[0].args[0])} & {x.label() for x in b.prov.op_src(dd[0].args[0])}
        ctx.check(bool(same), "R15.4", ["thread-counts", "same-vector"], "sort and dedup act on different vectors", dd[0].line())
        # the run_bench closure reads thread_counts only after both
        uses = [c for c in b.live_calls() if c.callee.endswith("::len") or "{closure#" in c.name]
        from .common import closure_of
        late = [c for c in b.live_calls() if c.is_fn_trait_call and closure_of(prog, crate, c.name, b.path) and
                any(q.callee in ("benchmark::BenchContext::new", "benchmark::Bencher::new") for q in prog.bodies[(crate, c.name, -1)].live_calls())]
        ctx.check(all(b.dominates(dd[0].bb, c.bb) for c in late) and late, "R15.4", ["thread-counts", "normalised-before-use"],
                  "benchmarks can run before the thread counts are normalised", b.where(0))
    # empty => [NonZeroUsize::MIN]
    ok = False
    for c in ie:
        for bi, t in b.switches():
            if any(s.kind == "call" and s.b == c.bb for s in b.prov.op_src(t["discr"])):
                tgt = t["otherwise"]
                for x in tables.exclusive_blocks(b, tgt, [a[1] for a in t["arms"]]):
                    for s in b.blocks[x]["stmts"]:
                        if s["k"] == "assign" and s["rv"]["k"] in ("use", "ref", "cast"):
                            srcs = b.prov._rv(s["rv"], (), frozenset(), x, 0)
                            if any(z.kind == "const" and ("NonZero" in str(z.a) or "MIN" in str(z.a)) for z in srcs) or \
                                    any(z.kind == "const" and "1" in str(z.a) and "NonZero" in str(z.b) for z in srcs):
                                ok = True
    ctx.check(ok, "R15.4", ["thread-counts", "empty-means-one"], "an empty thread list is not replaced by [NonZeroUsize::MIN]", b.where(0))
    # CLI and builder also normalise
    for path in ("divan::Divan::config_with_args", "divan::Divan::threads"):
        m = prog.body(path, crate)
        if m is None:
            continue
        so = [c for c in m.live_calls() if c.callee.endswith("::sort_unstable")]
        dd = [c for c in m.live_calls() if c.callee.endswith("::dedup")]
        ctx.check(len(so) == 1 and len(dd) == 1 and m.dominates(so[0].bb, dd[0].bb), "R15.4", [path, "sort-then-dedup"],
                  "`%s` does not sort and de-duplicate the thread list" % path, m.where(0))


def matches_table(prog, crate, path, adt):
    b = prog.body(path, crate)
    names = tables.variant_names(prog, adt, crate)
    if b is None or names is None:
        return None
    sws = tables.discr_switches(b)
    if len(sws) != 1:
        return None
    bi, t, _ = sws[0]
    vals = tables.return_values_per_arm(b, bi, t)
    default = list(vals["otherwise"])[0] if "otherwise" in vals and len(vals["otherwise"]) == 1 else None
    out = {}
    for i, n in enumerate(names):
        v = vals.get(i)
        lab = list(v)[0] if v and len(v) == 1 else default
        out[n] = bool(lab[1]) if lab and lab[0] == "const" else None
    return out


def r15_5(ctx, prog, crate):
    """RunIgnored::should_run(ignored) as a truth table over (variant, ignored), read off the path summaries of the function
    (its helper predicates spliced in, however many there are and whatever they are called): No runs exactly the
    benchmarks that are not ignored, Only exactly the ignored ones, Yes both."""
    from lib.patheval import PathEval
    from lib.symexpr import show
    b = prog.body("config::RunIgnored::should_run", crate)
    names = tables.variant_names(prog, "config::RunIgnored", crate)
    if ctx.anchor("R15.5", "RunIgnored::should_run + ADT", (1 if b else 0) + (1 if names else 0), 2):
        ctx.saw(b)
        sums = PathEval(b).run()
        if ctx.check(bool(sums), "R15.5", ["should_run", "readable"], "cannot summarise RunIgnored::should_run", b.where(0)):
            IG = ("arg", 2, ())
            want = {"No": {False: True, True: False}, "Yes": {False: True, True: True}, "Only": {False: False, True: True}}
            for vi, vn in enumerate(names):
                for ig in (False, True):
                    outs = set()
                    for sm in sums:
                        ok = True
                        for a, pol in sm.conds:
                            if a[0] == "bool" and a[1] == IG:
                                ok = ok and (pol == ig)
                            elif a[0] == "discr" and "('arg', 1" in str(a[1]):
                                v = a[2]
                                sel = (set(range(len(names))) - {int(x) for x in v[6:].split(",") if x}) if isinstance(v, str) and v.startswith("other:") else {int(v)}
                                ok = ok and ((vi in sel) == pol)
                            else:
                                outs.add("decides on %s" % show(a))
                        if not ok:
                            continue
                        r = sm.ret
                        neg = False
                        while r[0] == "un" and r[1] == "Not":
                            r, neg = r[2], not neg
                        if r[0] == "site" and r[3] == (("arg", 1, ()),) and prog.body(r[1], crate) is not None:
                            # a predicate of the variant alone, kept as a call: its own table
                            from .common import variant_table
                            vt = variant_table(prog, prog.body(r[1], crate), crate)
                            r = vt.get(vn, r) if vt else r
                        if r[0] == "int":
                            outs.add(bool(r[1]) != neg)
                        elif r == IG:
                            outs.add(ig != neg)
                        else:
                            outs.add("returns %s" % show(sm.ret))
                    ctx.check(vn in want and outs == {want[vn][ig]}, "R15.5", ["should_run", vn, "ignored" if ig else "not-ignored"],
                              "RunIgnored::%s.should_run(%s) is %s, expected %s" % (vn, str(ig).lower(), sorted(map(str, outs)), want.get(vn, {}).get(ig)), b.where(0),
                              detail={"variant": vn, "ignored": ig, "runs": want.get(vn, {}).get(ig)})
    b = prog.body("divan::Divan::should_ignore", crate)
    if ctx.anchor("R15.5", "Divan::should_ignore", 1 if b else 0, 1):
        ctx.saw(b)
        cs = [c for c in b.live_calls() if c.callee == "config::RunIgnored::should_run"]
        ok = len(cs) == 1
        if ok:
            a0 = {s.label() for s in b.prov.op_src(cs[0].args[0])}
            a1 = {s.label() for s in b.prov.op_src(cs[0].args[1])}
            ret = b.prov.local_src(0)
            nots = [s for s in ret if s.kind == "unop" and s.a == "Not"]
            ok = a0 == {"param:self.run_ignored"} and a1 == {"param:" + b.param_name(2)} and len(nots) == 1 and \
                not any(s.kind == "binop" for s in ret)
        ctx.check(ok, "R15.5", ["should_ignore", "negation-of-should_run"], "should_ignore is not !self.run_ignored.should_run(ignored)", b.where(0))
    # CLI wiring
    b = prog.body("divan::Divan::config_with_args", crate)
    if b is not None:
        got = {}
        for bi, si, s in b.stmts():
            if s["k"] == "assign" and s["p"]["proj"] and place_root_fields(b, s["p"]) == (1, ("run_ignored",)):
                srcs = b.prov._rv(s["rv"], (), frozenset(), bi, si)
                vs = {x.a.rsplit("::", 1)[-1] for x in srcs if x.kind == "variant"}
                # nearest dominating get_flag switch
                flag = None
                for sb, t in b.switches():
                    ids = str_consts(b.prov.op_src(t["discr"]))
                    if ids and b.dominates(t["otherwise"], bi) and b.pred[t["otherwise"]] == [sb]:
                        flag = ids if flag is None or len(ids) <= len(flag) else flag
                        last = (sb, ids)
                # choose the innermost dominating switch: the one whose true target dominates bi and is dominated by all others
                cands = []
                for sb, t in b.switches():
                    ids = str_consts(b.prov.op_src(t["discr"]))
                    if len(ids) == 1 and b.dominates(t["otherwise"], bi) and b.pred[t["otherwise"]] == [sb]:
                        cands.append((sb, list(ids)[0]))
                inner = [c for c in cands if all(b.dominates(o[0], c[0]) for o in cands)]
                if len(vs) == 1 and inner:
                    got[list(vs)[0]] = inner[0][1]
        ctx.check(got == {"Only": "ignored", "Yes": "include-ignored"}, "R15.5", ["cli", "ignored-flags"],
                  "CLI maps %s, expected {--ignored: Only, --include-ignored: Yes}" % got, b.where(0), detail=got)
    for fn, want in (("run_ignored", "Yes"), ("run_only_ignored", "Only")):
        m = prog.body("divan::Divan::" + fn, crate)
        if not ctx.anchor("R15.5", "builder Divan::" + fn, 1 if m else 0, 1):
            continue
        vs = set()
        for bi, si, s in m.stmts():
            if s["k"] == "assign" and s["p"]["proj"] and place_root_fields(m, s["p"]) == (1, ("run_ignored",)):
                vs |= {x.a.rsplit("::", 1)[-1] for x in m.prov._rv(s["rv"], (), frozenset(), bi, si) if x.kind == "variant"}
        ctx.check(vs == {want}, "R15.5", ["builder", fn], "Divan::%s sets run_ignored = %s, expected %s" % (fn, sorted(vs), want), m.where(0))


def r15_6(ctx, prog, crate):
    b = prog.body("counter::collection::CounterCollection::set_counter", crate)
    if not ctx.anchor("R15.6", "CounterCollection::set_counter", 1 if b else 0, 1):
        return
    ctx.saw(b)
    im = [c for c in b.live_calls() if c.callee == "counter::collection::CounterCollection::info_mut"]
    if ctx.check(len(im) == 1, "R15.6", ["set_counter", "one-info_mut"], "info_mut sites: %d" % len(im), b.where(0)):
        k = b.prov.op_src(im[0].args[1])
        ctx.check(any(s.kind == "call" and s.a.endswith("AnyCounter::known_kind") for s in k) and
                  {s.label() for s in k if s.kind == "param"} == {"param:" + b.param_name(2)}, "R15.6", ["set_counter", "own-kind"],
                  "set_counter selects the slot by %s" % sorted(s.label() for s in k), im[0].line())
        # every write goes through that slot
        for c in b.live_calls():
            if c.callee.endswith(("::push", "::first_mut", "::clear", "::insert")):
                srcs = b.prov.op_src(c.args[0])
                ctx.check(any(s.kind == "call" and s.b == im[0].bb for s in srcs) and nophi(srcs), "R15.6", ["set_counter", "writes-own-slot", c.callee.rsplit("::", 1)[-1]],
                          "`%s` is applied to something other than the selected slot" % c.callee, c.line())
            ctx.check(not c.callee.endswith("::clear"), "R15.6", ["set_counter", "no-clear"], "set_counter clears", c.line())
    m = prog.body("counter::collection::CounterCollection::info_mut", crate)
    if ctx.anchor("R15.6", "CounterCollection::info_mut", 1 if m else 0, 1):
        ok = False
        for bi, si, s in m.stmts():
            if s["k"] == "assign" and s["rv"]["k"] == "ref":
                p = s["rv"]["p"]
                idx = [pr for pr in p["proj"] if pr["k"] == "index"]
                if idx and [pr.get("name") for pr in p["proj"] if pr["k"] == "field"] == ["info"]:
                    srcs = m.prov.local_src(idx[0]["l"])
                    ok = any(z.kind == "discr" for z in srcs) and {z.label() for z in srcs if z.kind == "param"} == {"param:" + m.param_name(2)}
        ctx.check(ok, "R15.6", ["info_mut", "index-by-kind"], "info_mut does not index by `kind as usize`", m.where(0))
    # an input counter replaces the inherited counter of its own kind: set_input_counter empties exactly that kind's
    # counts, unconditionally, and installs the generator in the same slot
    si = [x for x in prog.find("CounterCollection::set_input_counter", crate) if x.kind != "Closure"]
    if ctx.anchor("R15.6", "CounterCollection::set_input_counter", si, 1):
        x = si[0]
        ctx.saw(x)
        im2 = [c for c in x.live_calls() if c.callee == "counter::collection::CounterCollection::info_mut"]
        if ctx.check(len(im2) == 1, "R15.6", ["set_input_counter", "one-info_mut"], "info_mut sites: %d" % len(im2), x.where(0)):
            k = x.prov.op_src(im2[0].args[1])
            ctx.check(any(s.kind == "call" and s.a.endswith("KnownCounterKind::of") for s in k), "R15.6", ["set_input_counter", "own-kind"],
                      "set_input_counter selects the slot by %s" % sorted(s.label() for s in k), im2[0].line())
            clears = [c for c in x.live_calls() if c.callee == "std::vec::Vec::clear"
                      and any(s.kind == "call" and s.b == im2[0].bb for s in x.prov.op_src(c.args[0])) and nophi(x.prov.op_src(c.args[0]))]
            ok = len(clears) == 1 and all(x.dominates(clears[0].bb, r) for r in x.returns)
            ctx.check(ok, "R15.6", ["set_input_counter", "clears-own-kind-unconditionally"],
                      "set_input_counter does not unconditionally empty the counts of the selected kind (the inherited counter of that kind would survive next to the input counts)", x.where(0))
            others = [c.callee.rsplit("::", 1)[-1] for c in x.live_calls() if "CounterCollection::" in c.callee and c.callee != im2[0].callee]
            ctx.check(not others, "R15.6", ["set_input_counter", "touches-only-own-slot"] + others, "set_input_counter also calls %s" % others, x.where(0))
            # count_input is stored into the same slot
            st = [(bi, s) for bi, si_, s in x.stmts() if s["k"] == "assign" and place_fields(s["p"])[-1:] == ("count_input",)]
            ok2 = len(st) == 1 and any(z.kind == "call" and z.b == im2[0].bb for z in x.prov.local_src(st[0][1]["p"]["l"]))
            ctx.check(ok2, "R15.6", ["set_input_counter", "generator-in-own-slot"], "count_input is not stored into the selected slot", x.where(0))
    bc = [x for x in prog.find("Bencher::counter", crate)]
    if ctx.anchor("R15.6", "Bencher::counter", bc, 1):
        for x in bc:
            cs = [c.callee.rsplit("::", 1)[-1] for c in x.live_calls() if "CounterCollection::" in c.callee]
            ctx.check(cs == ["set_counter"], "R15.6", ["Bencher::counter", "only-set_counter"], "Bencher::counter calls %s" % cs, x.where(0))


MACRO_OPTIONS = {"option", "options-emitted", "ignore-attribute", "no-unwritten-options", "no-options"}


def run_extra(ctx):
    """R15.7 the attribute level: every option written in #[divan::bench(..)] / #[divan::bench_group(..)] (and the built-in
    #[ignore] in all its forms) is emitted into the BenchOptions field of the same name with the value as written, and
    nothing that was not written is emitted - analysed on the macro expansions of the corpus and the repository's own
    attributed programs (engine E3, rules shared with C12/R12.3)."""
    from . import C12
    from .common import ExpansionView
    C12.ensure_tool()
    ctx.cfg = "expand"
    px = ExpansionView(ctx, "R15.7", MACRO_OPTIONS)
    n = 0
    for t in C12.targets(ctx.tier):
        exp = C12.expand_target(t)
        items = C12.tool("items", t["src"])["items"]
        regs = C12.tool("regs", exp)
        n += len([i for i in items if [o for o in i["options"] if o["key"] not in ("types", "consts", "args", "name", "crate")] or i["ignore_attr"]])
        C12.check_program(px, t, items, regs)
    ctx.anchor("R15.7", "attributed items that write options", n, 25)


def r15_8(ctx, prog, crate):
    """'Each counter kind' means the same thing everywhere: the kind KnownCounterKind::of::<C>() names for a counter type
    is the kind AnyCounter::new stores for a value of that type (with that value's own count), for every type that
    implements Counter; known_kind()/count() return the stored kind/count; CounterSet::insert writes the slot of the
    inserted counter's own kind with that counter's count, and `with` is insert."""
    from lib.patheval import PathEval
    A = "counter::any_counter::"
    of = prog.body(A + "KnownCounterKind::of", crate)
    new = prog.body(A + "AnyCounter::new", crate)
    ins = prog.body("counter::collection::CounterSet::insert", crate)
    wth = prog.body("counter::collection::CounterSet::with", crate)
    if not ctx.anchor("R15.8", "KnownCounterKind::of, AnyCounter::new, CounterSet::insert/with", sum(1 for x in (of, new, ins, wth) if x), 4):
        return
    for b in (of, new, ins, wth):
        ctx.saw(b)
    # AnyCounter::new decides the kind through the checked downcast: its contract is part of this clause
    from rules.C17 import type_cast_rule
    type_cast_rule(ctx, "R15.8", prog, crate)
    ctypes = sorted(norm(f["self"]) for f in prog.impls(crate) if f["trait"] == "counter::Counter")
    ctx.anchor("R15.8", "types implementing Counter", len(ctypes), 4)

    def garg_of(body, bb):
        c = body.call_at(bb)
        return norm(c.gargs[-1]) if c is not None and c.gargs else None

    # KnownCounterKind::of: type -> kind
    t_of = {}
    sums = PathEval(of).run()
    if ctx.check(bool(sums), "R15.8", ["of", "readable"], "cannot summarise KnownCounterKind::of", of.where(0)):
        for s in sums:
            pos = [a for a, p in s.conds if p]
            if s.ret[0] != "adt" or len(pos) != 1 or pos[0][0] != "bool" or pos[0][1][0] != "site" or not pos[0][1][1].endswith("PartialEq>::eq"):
                ctx.fail("R15.8", ["of", "path-shape"], "a path of KnownCounterKind::of is not `id == TypeId::of::<T>() => Kind` (%s -> %s)" % (pos, s.ret), of.where(0))
                continue
            ids = [x for x in pos[0][1][3] if x[0] == "site" and x[1] == "std::any::TypeId::of"]
            tys = [garg_of(of, x[2]) for x in ids]
            subj = [t for t in tys if t and t.endswith("::Counter")]
            named = [t for t in tys if t and not t.endswith("::Counter")]
            if ctx.check(len(subj) == 1 and len(named) == 1, "R15.8", ["of", "compares-C::Counter-with-a-counter-type"], "KnownCounterKind::of compares TypeIds of %s" % tys, of.where(0)):
                t_of[named[0]] = s.ret[2]
    # AnyCounter::new: type -> constructor -> kind, count of the same cast
    t_new = {}
    sums = PathEval(new).run()
    if ctx.check(bool(sums), "R15.8", ["new", "readable"], "cannot summarise AnyCounter::new", new.where(0)):
        def kind_and_count(r, body, depth=0):
            """(kind variant, count expression) of an AnyCounter-valued expression: known(<Kind>, n), the struct itself, or
            a local constructor that returns one of those for its argument (substituted)."""
            if r[0] == "site" and r[1] == A + "AnyCounter::known" and len(r[3]) == 2 and r[3][0][0] == "adt":
                return r[3][0][2], r[3][1]
            if r[0] == "adt" and r[1] == A[:-2] + "::AnyCounter" or (r[0] == "adt" and r[1].endswith("AnyCounter")):
                f = dict(zip(r[4], r[3]))
                if f.get("kind", ("?",))[0] == "adt":
                    return f["kind"][2], f.get("count")
            if r[0] == "site" and r[1].startswith(A + "AnyCounter::") and depth < 2 and len(r[3]) == 1:
                ctor = prog.body(r[1], crate)
                cs = PathEval(ctor).run() if ctor is not None else None
                if cs and len(cs) == 1:
                    ctx.saw(ctor)
                    kc = kind_and_count(cs[0].ret, ctor, depth + 1)
                    if kc is not None and kc[1] == ("arg", 1, ()):
                        return kc[0], r[3][0]
            return None
        for s in sums:
            pos = [a for a, p in s.conds if p and a[0] == "discr" and a[2] == 1]
            if not pos:
                ctx.fail("R15.8", ["new", "path-shape"], "a path of AnyCounter::new is not `cast_ref::<T>() is Some => a counter` (%s)" % (s.ret,), new.where(0))
                continue
            cast = pos[-1][1]
            ty = garg_of(new, cast[2]) if cast[0] == "site" and cast[1].endswith("TypeCast::cast_ref") else None
            kc = kind_and_count(s.ret, new)
            if not ctx.check(kc is not None, "R15.8", ["new", ty or "?", "constructor"], "AnyCounter::new returns %s for a %s, which is not `known(<Kind>, count)`" % (s.ret[:2], ty), new.where(0)):
                continue
            kind, arg = kc
            ok = ty is not None and arg is not None and arg[0] == "field" and arg[2] == ("count",) and arg[1][0] == "payload" and arg[1][3] == cast
            if not ctx.check(ok, "R15.8", ["new", ty or "?", "count-of-the-same-cast"], "AnyCounter::new builds the %s counter from %s, expected the count of the value just cast to it" % (ty, arg), new.where(cast[2] if cast[0] == "site" else 0)):
                continue
            t_new[ty] = kind
    kn = prog.body(A + "AnyCounter::known", crate)
    if ctx.anchor("R15.8", "AnyCounter::known", 1 if kn else 0, 1):
        ctx.saw(kn)
        ks = PathEval(kn).run()
        r = ks[0].ret if ks and len(ks) == 1 else None
        f = dict(zip(r[4], r[3])) if r and r[0] == "adt" else {}
        ctx.check(f.get("kind") == ("arg", 1, ()) and f.get("count") == ("arg", 2, ()), "R15.8", ["known", "stores-its-arguments"], "AnyCounter::known builds %s" % (f,), kn.where(0))
    ctx.check(sorted(t_of) == ctypes, "R15.8", ["of", "covers-every-counter-type"], "KnownCounterKind::of names a kind for %s; the Counter types are %s" % (sorted(t_of), ctypes), of.where(0))
    ctx.check(sorted(t_new) == ctypes, "R15.8", ["new", "covers-every-counter-type"], "AnyCounter::new handles %s; the Counter types are %s" % (sorted(t_new), ctypes), new.where(0))
    for t in ctypes:
        if t in t_of and t in t_new:
            ctx.check(t_of[t] == t_new[t], "R15.8", [t.rsplit("::", 1)[-1], "same-kind-in-of-and-new"],
                      "KnownCounterKind::of::<%s>() is %s but AnyCounter::new stores a %s value as %s" % (t, t_of[t], t, t_new[t]), new.where(0))
    ctx.check(len(set(t_of.values())) == len(t_of), "R15.8", ["of", "one-kind-per-type"], "two counter types share a kind: %s" % t_of, of.where(0))
    # count_inputs_as::<C>: the arm of kind K installs an input counter of the type whose kind is K
    kinds = [v["name"] for v in prog.adt(A + "KnownCounterKind", crate)["variants"]]
    for cia in [b for b in prog.find("benchmark::Bencher::count_inputs_as", crate) if b.kind == "AssocFn"]:
        ctx.saw(cia)
        sums = PathEval(cia).run()
        if not ctx.check(bool(sums), "R15.8", ["count_inputs_as", "readable"], "cannot summarise count_inputs_as", cia.where(0)):
            continue
        seen = set()
        for s in sums:
            ds = [a for a, p in s.conds if p and a[0] == "discr" and a[1][0] == "site" and a[1][1] == A + "KnownCounterKind::of" and isinstance(a[2], int)]
            ics = [c for c in s.calls if c[0] == "benchmark::Bencher::input_counter"]
            if len(ds) != 1 or len(ics) != 1 or ds[0][2] >= len(kinds):
                ctx.fail("R15.8", ["count_inputs_as", "path-shape"], "a path of count_inputs_as is not `KnownCounterKind::of::<C>() == K => input_counter(..)`", cia.where(0))
                continue
            k = kinds[ds[0][2]]
            seen.add(k)
            call = cia.call_at(ics[0][2])
            tys = [norm(g) for g in call.gargs if norm(g) in t_of]
            ctx.check(len(tys) == 1 and t_of[tys[0]] == k, "R15.8", ["count_inputs_as", k, "counts-as-that-kind"],
                      "count_inputs_as::<C>() with C of kind %s installs an input counter of type %s (kind %s)" % (k, tys, [t_of[t] for t in tys]), call.line())
        ctx.check(seen == set(kinds), "R15.8", ["count_inputs_as", "every-kind"], "count_inputs_as handles kinds %s of %s" % (sorted(seen), kinds), cia.where(0))
    # getters
    for fn, field in (("known_kind", "kind"), ("count", "count")):
        g = prog.body(A + "AnyCounter::" + fn, crate)
        if ctx.anchor("R15.8", "AnyCounter::" + fn, 1 if g else 0, 1):
            ctx.saw(g)
            gs = PathEval(g).run()
            r = gs[0].ret if gs and len(gs) == 1 else None
            ctx.check(r == ("arg", 1, (field,)), "R15.8", [fn, "returns-the-stored-" + field], "AnyCounter::%s returns %s, expected self.%s" % (fn, r, field), g.where(0))
    # insert
    from lib.symexpr import Sym, show
    S = Sym(ins, site_args=True)
    # the slot store, written directly or through `let slot = &mut self.counts[i]; *slot = ..`
    slot_refs = {s_["p"]["l"]: s_["rv"]["p"] for bi, si, s_ in ins.stmts() if s_["k"] == "assign" and not s_["p"]["proj"] and s_["rv"]["k"] == "ref" and s_["rv"]["mut"] and
                 s_["rv"]["p"]["l"] == 1 and any(pr["k"] in ("index", "cindex") for pr in s_["rv"]["p"]["proj"])}
    stores = []
    for bi, si, s_ in ins.stmts():
        if s_["k"] != "assign":
            continue
        if s_["p"]["l"] == 1 and any(pr["k"] in ("index", "cindex") for pr in s_["p"]["proj"]):
            stores.append((bi, s_))
        elif s_["p"]["l"] in slot_refs and [pr["k"] for pr in s_["p"]["proj"]] == ["deref"]:
            stores.append((bi, dict(s_, p=slot_refs[s_["p"]["l"]])))
    writes = [s_ for bi, si, s_ in ins.stmts() if s_["k"] == "assign" and s_["p"]["l"] == 1 and s_["p"]["proj"]] + \
        [s_ for bi, si, s_ in ins.stmts() if s_["k"] == "assign" and s_["p"]["l"] in slot_refs and s_["p"]["proj"]]
    muts = [c for c in ins.live_calls() if any(a["k"] in ("move", "copy") and (ins.local_ty(a["p"]["l"]) or "").startswith("&mut ") and
                                                   any(z.kind == "param" and z.label().startswith("param:self") for z in ins.prov.op_src(a)) for a in c.args)]
    if ctx.check(len(stores) == 1 and len(writes) == 1 and not muts and not ins.loops, "R15.8", ["insert", "one-slot-written"],
                 "CounterSet::insert writes %d slots, %d places of self in all, and hands self to %s; expected exactly one slot write" % (len(stores), len(writes), [c.callee for c in muts]), ins.where(0)):
        bi, st = stores[0]
        pr = [p_ for p_ in st["p"]["proj"] if p_["k"] == "index"]
        idx = S.local(pr[0]["l"]) if pr else None
        val = S.rv(st["rv"])
        newc = ("site", A + "AnyCounter::new")
        ok_i = idx is not None and idx[0] == "discr" and idx[1][0] == "site" and idx[1][1] == A + "AnyCounter::known_kind" and \
            len(idx[1][3]) == 1 and str(idx[1][3][0]).count("AnyCounter::new") == 1 and "('arg', 2, ())" in str(idx[1][3][0])
        ok_v = val is not None and val[0] == "adt" and val[2] == "Some" and val[3] and val[3][0][0] == "site" and val[3][0][1] == A + "AnyCounter::count" and \
            str(val[3][0][3]).count("AnyCounter::new") == 1 and "('arg', 2, ())" in str(val[3][0][3])
        ctx.check(ok_i and ok_v and place_fields(st["p"])[:1] == ("counts",) and st["p"]["l"] == 1 and all(ins.dominates(bi, r) for r in ins.returns), "R15.8", ["insert", "own-kind-slot-gets-own-count"],
                  "CounterSet::insert writes slot [%s] = %s; expected counts[new(counter).known_kind() as usize] = Some(new(counter).count())" % (show(idx) if idx else "?", show(val) if val else "?"), ins.where(bi))
    sums = PathEval(wth).run()
    if ctx.check(bool(sums) and len(sums) == 1, "R15.8", ["with", "readable"], "cannot summarise CounterSet::with", wth.where(0)):
        s = sums[0]
        cs = [c for c in s.calls if c[0] == "counter::collection::CounterSet::insert"]
        ctx.check(len(cs) == 1 and len(cs[0][1]) == 2 and "1" in str(cs[0][1][0]) and cs[0][1][1] == ("arg", 2, ()) and "1" in str(s.ret), "R15.8", ["with", "is-insert"],
                  "CounterSet::with does not insert the given counter into self and return it (calls %s, returns %s)" % ([c[0] for c in s.calls], s.ret), wth.where(0))


def r15_9(ctx, prog, crate):
    """What the attribute's `threads = <value>` turns into: a single count n gives the one-element list [n] on every path
    (the borrowed constants for small n hold that very n), `true` gives [0] (available parallelism) and `false` gives [1],
    and any iterable is collected, sorted and then de-duplicated, in that order, and returned."""
    from lib.patheval import PathEval
    impls = {b.local_ty(1): b for b in prog.lib_bodies(crate) if b.kind == "AssocFn" and b.path.endswith("IntoThreads<0>>::into_threads") or
             (b.kind == "AssocFn" and b.path.endswith("IntoThreads<1>>::into_threads"))}
    if not ctx.anchor("R15.9", "IntoThreads::into_threads impls (usize, bool, iterables)", len(impls), 3):
        return

    def promoted_list(b, blocks):
        """Value of the promoted `&[k, ..]` constant used on this path, as a list of ints."""
        for bi in blocks:
            for s in b.blocks[bi]["stmts"]:
                if s["k"] == "assign" and s["rv"]["k"] == "use" and s["rv"]["o"]["k"] == "const" and s["rv"]["o"]["c"].get("promoted", -1) >= 0:
                    pb = prog.promoted(b, s["rv"]["o"]["c"]["promoted"], s["rv"]["o"]["c"])
                    if pb is None:
                        return None
                    for bj, sj, sd in pb.stmts(live_only=False):
                        if sd["k"] == "assign" and sd["rv"]["k"] == "agg" and sd["rv"]["ak"] == "array":
                            return [const_int(o) for o in sd["rv"]["ops"]]
        return None
    for ty, b in sorted(impls.items()):
        ctx.saw(b)
        sums = PathEval(b).run()
        if not ctx.check(bool(sums), "R15.9", [ty, "readable"], "cannot enumerate the paths of `%s`" % b.path, b.where(0)):
            continue
        if ty == "usize":
            for s in sums:
                vs = [a[2] for a, p in s.conds if p and a[0] == "val" and a[1] == ("arg", 1, ())]
                if s.ret[0] == "adt" and s.ret[2] == "Borrowed":
                    lst = promoted_list(b, s.blocks)
                    ok = len(vs) == 1 and isinstance(vs[0], int) and lst == [vs[0]]
                    ctx.check(ok, "R15.9", ["usize", "borrowed-constant-is-the-count"], "`threads = %s` becomes the list %s" % (vs, lst), b.where(s.blocks[-1]))
                elif s.ret[0] == "adt" and s.ret[2] == "Owned":
                    # vec![self]: the boxed array written holds exactly the parameter
                    arr = [sd for bi in s.blocks for sd in b.blocks[bi]["stmts"] if sd["k"] == "assign" and sd["rv"]["k"] == "agg" and sd["rv"]["ak"] == "array"]
                    els = [direct_place(b, o) for sd in arr for o in sd["rv"]["ops"]]
                    ctx.check(len(arr) == 1 and els == [("place", 1, ())], "R15.9", ["usize", "owned-list-is-the-count"], "a larger count becomes the list %s" % (els,), b.where(s.blocks[-1]))
                else:
                    ctx.fail("R15.9", ["usize", "shape"], "usize::into_threads returns %s" % (s.ret,), b.where(s.blocks[-1]))
        elif ty == "bool":
            for s in sums:
                pol = [p for a, p in s.conds if a == ("bool", ("arg", 1, ()))]
                lst = promoted_list(b, s.blocks)
                want = [0] if pol == [True] else [1] if pol == [False] else None
                ctx.check(want is not None and lst == want, "R15.9", ["bool", "true" if pol == [True] else "false", "documented-list"],
                          "`threads = %s` becomes %s, expected %s" % ("true" if pol == [True] else "false", lst, want), b.where(s.blocks[-1]))
        else:
            s = sums[0]
            names = [c[0] for c in s.calls]
            srt = [i for i, n_ in enumerate(names) if n_.startswith("core::slice::sort")]
            ded = [i for i, n_ in enumerate(names) if n_ == "std::vec::Vec::dedup"]
            col = [i for i, n_ in enumerate(names) if n_ == "std::iter::Iterator::collect"]
            ok = len(sums) == 1 and len(srt) == 1 and len(ded) == 1 and len(col) == 1 and col[0] < srt[0] < ded[0] and s.ret[0] == "adt" and s.ret[2] == "Owned" and \
                s.ret[3] and s.ret[3][0][0] == "site" and s.ret[3][0][1] == "std::iter::Iterator::collect"
            ctx.check(ok, "R15.9", ["iterable", "collect-sort-dedup-return"], "the iterable impl is not collect -> sort -> dedup -> return that list (calls: %s)" % [n_.rsplit("::", 1)[-1] for n_ in names], b.where(0))
            cl = [x for x in prog.children(b) if x.kind == "Closure"]
            if ctx.check(len(cl) == 1, "R15.9", ["iterable", "one-map-closure"], "closures: %d" % len(cl), b.where(0)):
                cs = PathEval(cl[0]).run()
                ctx.check(bool(cs) and len(cs) == 1 and cs[0].ret[0] == "cell" and cs[0].ret[1][0] == "ret" and cs[0].ret[1][1].endswith("Borrow::borrow") and not cs[0].ret[2],
                          "R15.9", ["iterable", "each-item-verbatim"], "an item of the iterable is mapped to %s, expected the borrowed value itself" % (cs[0].ret if cs else None,), cl[0].where(0))


def r15_10(ctx, prog, crate):
    """The counter builder calls equivalent to --items-count & co.: Divan::<kind>_count(n) is self.counter(n.into()) with
    the counter type of that kind (the kind the type maps to under KnownCounterKind::of is the one the method is named
    after), Divan::counter hands its argument to counter_mut and returns self, counter_mut inserts it into
    self.bench_options.counters and nothing else."""
    from lib.patheval import PathEval
    from rules.common import snake
    D = "divan::Divan::"
    kinds = [v["name"] for v in prog.adt("counter::any_counter::KnownCounterKind", crate)["variants"]]
    ctypes = sorted(norm(f["self"]) for f in prog.impls(crate) if f["trait"] == "counter::Counter")
    n = 0
    for k in kinds:
        m = prog.body(D + snake(k) + "_count", crate)
        if not ctx.anchor("R15.10", "builder Divan::%s_count" % snake(k), 1 if m else 0, 1):
            continue
        ctx.saw(m)
        n += 1
        sums = PathEval(m).run()
        ok = bool(sums) and len(sums) == 1
        tys = []
        if ok:
            r = sums[0].ret
            ok = r[0] == "site" and r[1] == D + "counter" and r[3][0] == ("arg", 1, ()) and r[3][1][0] == "site" and r[3][1][3] == (("arg", 2, ()),) and len(sums[0].calls) == 2
            call = m.call_at(r[2]) if ok else None
            tys = [norm(g) for g in (call.gargs if call else []) if norm(g) in ctypes]
        # the type's kind, by the type's own name (BytesCount <-> Bytes): the same convention the CLI rule uses for `x-count`
        ctx.check(ok and len(tys) == 1 and tys[0].rsplit("::", 1)[-1] == k + "Count", "R15.10", ["builder", snake(k) + "_count", "counter-of-its-own-kind"],
                  "Divan::%s_count sets a counter of type %s, expected %sCount via self.counter(count.into())" % (snake(k), tys, k), m.where(0))
    for fn, callee, recv in (("counter", D + "counter_mut", None), ("counter_mut", "counter::collection::CounterSet::insert", ("bench_options", "counters"))):
        m = prog.body(D + fn, crate)
        if fn == "counter_mut" and m is None:
            continue        # the private helper is optional: Divan::counter may insert into the set itself (accepted below)
        if not ctx.anchor("R15.10", "Divan::" + fn, 1 if m else 0, 1):
            continue
        ctx.saw(m)
        sums = PathEval(m).run()
        if fn == "counter" and sums and len(sums) == 1 and [c[0] for c in sums[0].calls] == ["counter::collection::CounterSet::insert"]:
            callee, recv = "counter::collection::CounterSet::insert", ("bench_options", "counters")     # inserted in place
        ok = bool(sums) and len(sums) == 1 and [c[0] for c in sums[0].calls] == [callee]
        if ok:
            c = sums[0].calls[0]
            ok = c[1][1] == ("arg", 2, ()) and (c[1][0] == ("arg", 1, ()) or (recv is not None and c[1][0] == ("arg", 1, recv)) or
                                                (c[1][0][0] == "ptr" and c[1][0][1][0] == 1 and (recv is None or c[1][0][1][1] == recv))) and \
                (sums[0].ret in (("arg", 1, ()), ("ptr", (1, ()))) or (sums[0].ret[0] in ("after", "upd") and "1" in str(sums[0].ret)))
            if recv is not None and c[1][0] == ("arg", 1, recv):
                pass        # by-value self: the field itself
            elif recv is not None:
                ok = ok and c[1][0][0] == "ptr" and c[1][0][1] == (1, recv) and all(k_[1][:2] == recv for k_ in sums[0].mem if isinstance(k_, tuple) and k_[0] == 1)
        ctx.check(ok, "R15.10", ["builder", fn, "forwards-the-counter"], "Divan::%s does not hand its counter to %s and return self (calls %s)" % (fn, callee, [c[0] for c in sums[0].calls] if sums else "?"), m.where(0))
    ctx.anchor("R15.10", "per-kind counter builders", n, 4)


def optional_value_flags(ctx, rule, prog, crate):
    """An option that may be given without a value (clap `num_args` range starting at 0, no default_missing_value) means
    `true` when given bare. clap records it as present with zero values, so the reader must ask for the occurrence
    (get_many / contains_id ...) - `get_one` answers None for the bare flag and the option is silently dropped. Decided on the
    path summaries of the reader in config_with_args: present without a value -> the field becomes Some(true); present
    with a value v -> Some(v); absent -> the field is not written."""
    from lib.patheval import PathEval
    cmd = prog.body("cli::command", crate)
    cfgb = prog.body("divan::Divan::config_with_args", crate)
    if not ctx.anchor(rule, "cli::command + config_with_args", (1 if cmd else 0) + (1 if cfgb else 0), 2):
        return
    ctx.saw(cmd)
    ctx.saw(cfgb)
    zero_ok = {}
    dmv = set()
    for c in cmd.live_calls():
        n = c.callee.rsplit("::", 1)[-1]
        if c.callee.startswith("clap::") and n in ("num_args", "default_missing_value", "default_missing_values", "default_missing_value_os"):
            ids = defined_candidates(cmd, c)
            if n != "num_args":
                dmv |= ids
                continue
            lo = None
            for x in cmd.prov.op_src(c.args[1]):
                if x.kind == "call" and x.a.rsplit("::", 1)[-1] == "new" and "Range" in x.a:
                    rc = cmd.call_at(x.b)
                    a0 = rc.args[0]
                    if a0["k"] == "const":
                        lo = a0["c"]["d"].split("_")[0]
                elif x.kind == "const" and lo is None and x.a.split("_")[0].isdigit():
                    lo = x.a.split("_")[0]
            for i in ids:
                zero_ok[i] = (lo, c)
    flags = sorted(i for i, (lo, c) in zero_ok.items() if lo == "0" and i not in dmv)
    ctx.anchor(rule, "options whose arity is declared with num_args", sorted(zero_ok), 1)
    for i in sorted(j for j, (lo, c_) in zero_ok.items() if lo == "0" and j in dmv):
        ctx.ok(rule, "%s|bare-flag-value-supplied-by-clap (default_missing_value)" % i)
    for i in flags:
        reads = [c for c in cfgb.live_calls() if c.callee.startswith("clap::ArgMatches::") and len(c.args) > 1 and
                 '"%s"' % i in {str(x.a) for x in cfgb.prov.op_src(c.args[1]) if x.kind == "const"}]
        if not ctx.check(len(reads) == 1, rule, [i, "read-once"], "config_with_args reads `%s` %d times" % (i, len(reads)), cfgb.where(0)):
            continue
        c = reads[0]
        n = c.callee.rsplit("::", 1)[-1]
        if not ctx.check(n in ("get_many", "try_get_many", "get_occurrences", "remove_many", "get_raw", "contains_id", "value_source", "get_count"), rule,
                         [i, "occurrence-is-read"], "`--%s` may be given without a value, but config_with_args reads it with %s(), which answers "
                         "None for the bare flag: the option is silently ignored" % (i, n), c.line()):
            continue
        others = {x.bb for x in cfgb.live_calls() if x.callee.startswith("clap::ArgMatches::") and x.bb != c.bb}
        sums = PathEval(cfgb, max_paths=500).run(start=c.bb, stop_at=others)
        if not ctx.check(bool(sums), rule, [i, "reader-summarisable"], "cannot summarise the reader of `%s`" % i, c.line()):
            continue
        field = i.replace("-", "_")
        rows = set()
        for sm in sums:
            present = None
            nxt = None
            val = None
            for a, pol in sm.conds:
                if a[0] == "discr" and a[1][0] == "site" and a[1][2] == c.bb:
                    present = (a[2] == 1) if pol else None
                    if isinstance(a[2], str) and a[2].startswith("other:"):
                        present = "1" not in a[2][6:].split(",")
                elif a[0] == "discr" and a[1][0] == "site" and a[1][1].endswith("::next"):
                    nxt = {0: "none", 1: "some"}.get(a[2], "unreachable")
                elif a[0] == "bool" and a[1][0] == "payload" and a[1][3][0] == "site" and a[1][3][1].endswith("::next"):
                    val = bool(pol)
            w = sm.env.get(1)
            stored = None
            while w is not None and w[0] == "upd":
                if tuple(w[2])[-1] == field:
                    stored = w[3]
                    break
                w = w[1]
            if nxt == "unreachable":
                continue
            if stored is None:
                got = "unwritten"
            elif stored[0] == "adt" and stored[2] == "Some" and stored[3] and stored[3][0][0] == "int":
                got = "Some(%s)" % ("true" if stored[3][0][1] else "false")
            elif stored[0] == "adt" and stored[2] == "Some" and stored[3] and stored[3][0][0] == "site" and \
                    stored[3][0][1].rsplit("::", 1)[-1] == "unwrap_or" and len(stored[3][0][3]) == 2 and stored[3][0][3][1][0] == "int":
                # Some(values.next().copied().unwrap_or(d)): no value -> d, a value -> itself
                x = stored[3][0][3][0]
                while x[0] == "site" and x[1].rsplit("::", 1)[-1] in ("copied", "cloned") and x[3]:
                    x = x[3][0]
                if x[0] == "site" and x[1].endswith("::next") and present is True and nxt is None:
                    d_ = "true" if stored[3][0][3][1][1] else "false"
                    rows |= {(True, "none", None, "Some(%s)" % d_), (True, "some", True, "Some(true)"), (True, "some", False, "Some(false)")}
                    continue
                got = "other"
            else:
                got = "other"
            rows.add((present, nxt, val, got))
        want = {(True, "none", None, "Some(true)"), (True, "some", True, "Some(true)"), (True, "some", False, "Some(false)"), (False, None, None, "unwritten")}
        ctx.check(rows == want, rule, [i, "bare-flag-means-true"],
                  "reader of `--%s`: (present, values, value) -> field rows %s, expected %s" % (i, sorted(map(str, rows - want)), sorted(map(str, want - rows))),
                  c.line(), detail={"rows": sorted(map(str, rows))})


def r15_12(ctx, prog, crate):
    optional_value_flags(ctx, "R15.12", prog, crate)


def no_cli_defaults(ctx, rule, prog, crate, only=None):
    """A value that was not given at run time leaves what the program configured: config_with_args writes an option only when
    clap reports a value (`if let Some(..) = matches.get_one(id)`), so the definitions in cli::command must not give clap a
    default of their own (default_value & co.) - such a default is reported for every run and silently replaces the value set
    through the Divan builder (and the DIVAN_* / attribute levels below it)."""
    cmd = prog.body("cli::command", crate)
    if not ctx.anchor(rule, "cli::command", 1 if cmd else 0, 1):
        return
    ctx.saw(cmd)
    # default_missing_value* is not among them: it only applies when the flag IS given (without a value) - R15.12's business
    DEFAULTS = ("default_value", "default_values", "default_value_os", "default_values_os", "default_value_if", "default_value_ifs")
    n = 0
    for c in cmd.live_calls():
        if not c.callee.startswith("clap::"):
            continue
        m = c.callee.rsplit("::", 1)[-1]
        if c.callee.startswith("clap::Arg::") or c.callee.startswith("clap::builder::Arg::"):
            n += 1
        if m in DEFAULTS:
            ids = sorted(defined_candidates(cmd, c)) or ["?"]
            for i in ids:
                if only is None or i in only:
                    ctx.fail(rule, ["cli-default", i, m], "the command line gives `--%s` a default of its own (clap `%s`): clap then reports a value on every "
                             "run and config_with_args overwrites what was configured through the Divan builder" % (i, m), c.line())
    ctx.anchor(rule, "clap::Arg builder calls examined", n, 40)
    ctx.ok(rule, "no-cli-defaults")


def r15_14(ctx, prog, crate):
    """A value that was not given at run time leaves what the builder configured: config_with_args writes a field of
    self.bench_options only with a value it builds as `Some(..)` (or through an in-place insert) - never with an Option it got
    from clap, which is None for an absent flag and would erase the value set by Divan::sample_count & co."""
    b = prog.body("divan::Divan::config_with_args", crate)
    if not ctx.anchor("R15.14", "config_with_args", 1 if b else 0, 1):
        return
    ctx.saw(b)
    n = 0
    for bi, si, st in b.stmts():
        if st["k"] != "assign" or st["p"]["l"] != 1:
            continue
        names = [pr.get("name") for pr in st["p"]["proj"] if pr["k"] == "field"]
        if len(names) < 2 or names[0] != "bench_options" or b.inlined_from(bi):
            continue
        n += 1
        rv = st["rv"]
        ok = rv["k"] == "agg" and rv.get("ak") == "adt" and rv.get("variant") == "Some"
        if not ok and rv["k"] == "use" and rv["o"].get("k") in ("copy", "move") and not rv["o"]["p"]["proj"]:
            defs = [d for d in b.prov.defs.get(rv["o"]["p"]["l"], []) if d[0] == "S"]
            alld = b.prov.defs.get(rv["o"]["p"]["l"], [])
            ok = bool(defs) and len(defs) == len(alld) and all(d[3]["rv"]["k"] == "agg" and d[3]["rv"].get("variant") == "Some" for d in defs)
        ctx.check(ok, "R15.14", ["config_with_args", names[1], "written-only-with-Some"],
                  "config_with_args assigns bench_options.%s a value that is not built as Some(..): an absent flag would overwrite "
                  "the value configured through the Divan builder with None" % names[1], b.where(bi))
    ctx.anchor("R15.14", "stores to bench_options fields in config_with_args", n, 4)


def r15_13(ctx, prog, crate):
    no_cli_defaults(ctx, "R15.13", prog, crate)


def r15_11(ctx, prog, crate):
    """(= R14.3) `ignore` resolves for the terse listing exactly as for a run: run_tree_list threads the inherited options
    through its recursion, merges each node's own options over them with overwrite() and lets the runner's value win at the
    leaf - a node that sets some other option must not mask the `ignore` it inherits."""
    from .C14 import r14_3
    from .common import Renamed
    r14_3(Renamed(ctx, "R15.11"), prog, crate)


def run(ctx, prog, crate):
    r15_14(ctx, prog, crate)
    r15_13(ctx, prog, crate)
    r15_12(ctx, prog, crate)
    r15_11(ctx, prog, crate)
    r15_10(ctx, prog, crate)
    r15_8(ctx, prog, crate)
    r15_9(ctx, prog, crate)
    r15_1(ctx, prog, crate)
    r15_2(ctx, prog, crate)
    r15_3(ctx, prog, crate)
    r15_4(ctx, prog, crate)
    r15_5(ctx, prog, crate)
    r15_6(ctx, prog, crate)
