"""C20  The printed tree is a faithful, well-formed picture of what ran."""
from lib.facts import norm, direct_place, const_int, origins, place_fields
from lib.paths import Explorer, call_sequences
from lib import tables
from .C15 import const_str

INLINE = True      # crate-local helpers the rules do not know by name are inlined into their callers (lib/inline.py)
EXPLANATION = (
    "R20.1 start/finish typestate with correlated-branch splitting: on every feasible normal path of run_tree, "
    "run_bench_entry and the run_bench closure each start_parent is closed by exactly one finish_parent, each start_leaf "
    "by exactly one of finish_leaf / finish_empty_leaf, ignore_leaf is self-contained, nesting is well bracketed, the "
    "recursion / per-leaf calls lie outside open leaves and the benchmark run strictly inside one; the thread-count loop "
    "is unrolled under its checked trip-count side condition (has_thread_branches = len(thread_counts) > 1 over the "
    "non-empty normalised list the loop iterates). R20.2 every is_last argument derives from `index == len - 1` of the "
    "collection iterated at that site (or is the caller's is_last for the single-branch case). R20.3 width constants "
    "agree: the four branch/prefix literals are 3 chars, finish_parent removes 3 chars (nth(2)), max_name_span's "
    "DEPTH_COLS == 3; the prefix push is control-dependent on !is_top_level, depth is incremented/decremented once each. "
    "R20.4 column mapping: TreeColumn::name, get_stat and the match in finish_leaf map each variant to the stat of the "
    "same name (Samples <-> sample_count, Iters <-> iter_count); TreeColumn::ALL lists each variant once in declaration "
    "order. R20.5 ignored => ignore_leaf and return before anything that can run the benchmark. R20.6 run_tree visits "
    "the (sorted, filtered) slice in order."
    ' R20.7 wherever the name buffer is right-padded the number of spaces appended has a lower bound >= 1 over its canonical value expression (gap + saturating difference; lengths, counts and saturating differences are >= 0), so a name and the first column never run together, whatever the name length and the current span. R20.8 continuation blocks belong to their label (per-variant arrays read at the labelled item\'s own index; X::ALL in declaration order). R20.9 TreeColumn::is_time_stat() is true for exactly the columns get_stat() has a statistic for; is_first()/is_last() name the first/last element of TreeColumn::ALL. R20.10 a leaf is closed with the position it was opened with: finish_leaf\'s is_last ranges over exactly the positions given to the start_leaf calls that can precede it. R20.11 rows that share one label are shown together or not at all: the optional rows printed as one block under a single label are present under the same condition. R20.12 (= R15.4) each thread-count branch is printed exactly once: the list the t=N leaves are painted from is sorted and then de-duplicated after 0 was resolved.')
EXPLANATION += (' R20.13 (= R18.2) throughput continuation rows are scaled with the table that belongs to the suffix printed next to them.')
EXPLANATION += (" R20.14 (= R17.1/R17.3) the typed bench function comes from the instantiation's own runner on every call.")
EXPLANATION += (" R20.15 (= R12.3, expansions) a bench_group's entry carries the module's raw name as module_path!() spells it.")
NOT_DECIDED = ["the rendered text itself beyond R20.3 (glyph/prefix widths) and R20.7 (the name/column gap never vanishes): column padding arithmetic, display widths of non-ASCII names"]

P = "tree_painter::TreePainter::"
EVENTS = {P + "start_parent": "(P", P + "finish_parent": "P)", P + "start_leaf": "(L", P + "finish_leaf": "L)",
          P + "finish_empty_leaf": "L)", P + "ignore_leaf": "I"}


def bracket_ok(seq):
    """Well-bracketed? returns (ok, reason)."""
    st = []
    for e in seq:
        if e == "(P":
            if st and st[-1] == "L":
                return False, "a group is opened inside an open leaf"
            st.append("P")
        elif e == "(L":
            if st and st[-1] == "L":
                return False, "a leaf is opened inside an open leaf"
            st.append("L")
        elif e == "P)":
            if not st or st[-1] != "P":
                return False, "finish_parent without a matching open group"
            st.pop()
        elif e == "L)":
            if not st or st[-1] != "L":
                return False, "finish_leaf without a matching open leaf"
            st.pop()
        elif e in ("I", "CHILD"):
            if st and st[-1] == "L":
                return False, "a child node is painted inside an open leaf"
        elif e == "RUN":
            if not st or st[-1] != "L":
                return False, "the benchmark runs outside an open leaf"
        elif e == "STATS":
            if not st or st[-1] != "L":
                return False, "statistics are computed outside an open leaf"
    if st:
        return False, "a %s is never closed" % ("leaf" if st[-1] == "L" else "group")
    return True, ""


def r20_1(ctx, prog, crate):
    rt = prog.body("divan::Divan::run_tree", crate)
    re_ = prog.body("divan::Divan::run_bench_entry", crate)
    if not ctx.anchor("R20.1", "run_tree / run_bench_entry", (1 if rt else 0) + (1 if re_ else 0), 2):
        return
    rb = [x for x in prog.children(re_) if x.kind == "Closure" and any(c.callee == "benchmark::BenchContext::new" for c in x.live_calls())]
    if not ctx.check(len(rb) == 1, "R20.1", ["run_bench", "closure"], "run_bench closures: %d" % len(rb), re_.where(0)):
        return
    rb = rb[0]
    for b in (rt, re_, rb):
        ctx.saw(b)

    def tagger(b):
        def tag(c):
            if c.callee in EVENTS:
                return EVENTS[c.callee]
            if c.callee in ("divan::Divan::run_tree", "divan::Divan::run_bench_entry"):
                return "CHILD"
            if c.is_fn_trait_call and c.name == rb.path:
                return "CHILD"  # a whole (balanced) benchmark node, checked on its own below
            if b.path == rb.path and (c.decl is None or (c.is_fn_trait_call and c.name.startswith(("param:", "upvar:")))):
                return "RUN"
            if c.callee == "benchmark::BenchContext::compute_stats":
                return "STATS"
            return None
        return tag

    # run_tree and run_bench_entry: plain path enumeration (loops 0..2 iterations)
    for b in (rt, re_):
        ps = Explorer(b, max_visits=3).run()
        seqs = call_sequences(b, ps, tagger(b))
        n = 0
        for (seq, reason), path in sorted(seqs.items()):
            if reason != "return":
                continue
            n += 1
            ok, why = bracket_ok(seq)
            ctx.check(ok, "R20.1", [b.path, "bracketing"] + list(seq), "painter call sequence %s on a path of `%s`: %s" % (list(seq), b.path, why), b.where(path[-1]),
                      detail={"body": b.path, "sequence": list(seq)})
        ctx.anchor("R20.1", "returning paths of " + b.path, n, 2)
    # run_bench closure: scenarios for the thread-count loop
    # the captured flag `thread_counts.len() > 1` and the captured thread-count slice, identified by what they are
    flag_name, counts_name = None, None
    for cn in rb.captures or []:
        cp = prog.capture_operand(rb, cn)
        if not cp:
            continue
        for o in origins(cp[0], cp[1]):
            if o[0] == "rvalue" and o[1]["k"] == "binop" and o[1]["op"] == "Gt" and const_int(o[1]["b"]) == 1:
                flag_name = cn.lstrip("*")
        if cp[1]["k"] in ("copy", "move") and "NonZero<usize>" in cp[0].local_ty(cp[1]["p"]["l"]) and "[" in cp[0].local_ty(cp[1]["p"]["l"]):
            counts_name = cn.lstrip("*")
    flag_sw = []
    for bi, t in rb.switches():
        srcs = rb.prov.op_src(t["discr"])
        if flag_name is not None and {z.kind for z in srcs} == {"upvar"} and {z.a.lstrip("*") for z in srcs} == {flag_name}:
            flag_sw.append(bi)
    nx = [c for c in rb.live_calls() if c.callee.endswith("::next")]
    if not ctx.check(len(flag_sw) >= 3 and len(nx) == 1, "R20.1", [rb.path, "scenario-anchors"],
                     "switches on has_thread_branches: %d, loop next() calls: %d" % (len(flag_sw), len(nx)), rb.where(0)):
        return
    nsw = tables.switch_on_call_result(rb, nx[0])
    if not ctx.check(nsw is not None, "R20.1", [rb.path, "loop-switch"], "no match on the loop's next()", nx[0].line()):
        return
    loop_bb = nsw[0]
    _side_conditions(ctx, prog, crate, re_, rb, nx[0], flag_name, counts_name)
    for scen, flag, iters in (("single-thread-count", 0, 1), ("thread-branches", "otherwise", 2), ("thread-branches", "otherwise", 3)):
        force = {bi: (lambda v, flag=flag: flag) for bi in flag_sw}
        force[loop_bb] = (lambda v, iters=iters: 1 if v < iters else 0)
        ps = Explorer(rb, max_visits=iters + 2, force=force).run()
        seqs = call_sequences(rb, ps, tagger(rb))
        n = 0
        for (seq, reason), path in sorted(seqs.items()):
            if reason != "return":
                continue
            n += 1
            ok, why = bracket_ok(seq)
            ctx.check(ok, "R20.1", [rb.path, scen, "x%d" % iters, "bracketing"] + list(seq),
                      "run_bench (%s, %d thread count(s)): painter/run sequence %s: %s" % (scen, iters, list(seq), why), rb.where(path[-1]),
                      detail={"scenario": scen, "iterations": iters, "sequence": list(seq)})
            # exactly one RUN per leaf
            runs = seq.count("RUN")
            leaves = seq.count("(L")
            ctx.check(runs == leaves == iters, "R20.1", [rb.path, scen, "x%d" % iters, "one-run-per-leaf"] + list(seq),
                      "%d leaves opened, %d benchmark runs, %d thread counts" % (leaves, runs, iters), rb.where(path[-1]))
        ctx.anchor("R20.1", "returning paths of run_bench (%s x%d)" % (scen, iters), n, 1)


def _side_conditions(ctx, prog, crate, re_, rb, nx, flag_name, counts_name):
    """has_thread_branches == (thread_counts.len() > 1) and the loop iterates that very slice."""
    cap = None
    for cn in rb.captures or []:
        if cn.lstrip("*") == flag_name:
            cap = prog.capture_operand(rb, cn)
    ok = False
    if cap:
        d = direct_place(cap[0], cap[1])
        # &has_thread_branches -> local -> Gt(len, 1)
        o = origins(cap[0], cap[1])
        for x in o:
            if x[0] == "rvalue" and x[1]["k"] == "binop" and x[1]["op"] == "Gt" and const_int(x[1]["b"]) == 1:
                dl = direct_place(cap[0], x[1]["a"])
                ok = dl is not None and dl[0] == "call" and dl[1].callee.endswith("::len")
                if ok:
                    base = {z.label() for z in cap[0].prov.op_src(dl[1].args[0]) if z.kind == "call"}
                    # the loop in the closure iterates the captured thread_counts
                    it = {z.a.lstrip("*") for z in rb.prov.op_src(nx.args[0]) if z.kind == "upvar"}
                    ok = counts_name is not None and counts_name in it
    ctx.check(ok, "R20.1", [rb.path, "trip-count-side-condition"],
              "cannot establish has_thread_branches == (thread_counts.len() > 1) over the slice the loop iterates", rb.where(0))
    # non-empty: the is_empty -> [MIN] replacement (also C15/R15.4)
    ie = [c for c in re_.live_calls() if c.callee.endswith("Vec::is_empty")]
    ctx.check(len(ie) >= 1, "R20.1", [re_.path, "thread_counts-never-empty"], "thread_counts is not normalised to a non-empty list", re_.where(0))


def r20_2(ctx, prog, crate):
    n = 0
    for path in ("divan::Divan::run_tree", "divan::Divan::run_bench_entry"):
        root = prog.body(path, crate)
        if root is None:
            continue
        for b in prog.closure_tree(root):
            for c in b.live_calls():
                if c.callee not in (P + "start_parent", P + "start_leaf", P + "ignore_leaf", P + "finish_leaf") and \
                        c.callee != "divan::Divan::run_bench_entry" and not (c.is_fn_trait_call and "run_bench_entry::{closure#" in c.name and len(c.args) == 2):
                    continue
                # the bool is_last argument(s)
                bools = [a for a in c.args[1:] if a["k"] in ("copy", "move", "const") and (a.get("p", {}).get("ty") == "bool" or a.get("c", {}).get("ty") == "bool")]
                if c.is_fn_trait_call:
                    bools = []
                    for a in c.args[1:]:
                        if a["k"] in ("copy", "move"):
                            for d in b.prov.defs.get(a["p"]["l"], []):
                                if d[0] == "S" and d[3]["rv"]["k"] == "agg" and d[3]["rv"]["ak"] == "tuple":
                                    bools += [o for o in d[3]["rv"]["ops"] if o["k"] in ("copy", "move") and o["p"]["ty"] == "bool"]
                for a in bools:
                    n += 1
                    ok, desc = _is_last_ok(prog, b, a)
                    ctx.check(ok, "R20.2", [b.path, c.callee.rsplit("::", 1)[-1] if not c.is_fn_trait_call else "run_bench", desc],
                              "an is_last argument of `%s` in `%s` is `%s`: expected `index == len - 1` of the collection iterated here (or the caller's is_last)"
                              % (c.callee if not c.is_fn_trait_call else "run_bench", b.path, desc), c.line(), detail={"site": b.path, "is_last": desc})
    ctx.anchor("R20.2", "is_last arguments", n, 4)


def _strip_sites(e):
    """Canonical expression with call-site block numbers removed (two evaluations of the same pure test compare equal)."""
    if not isinstance(e, tuple):
        return e
    if e and e[0] == "site" and len(e) >= 3:
        return ("site", e[1]) + tuple(_strip_sites(x) for x in e[3:])
    return tuple(_strip_sites(x) for x in e)


def r20_12(ctx, prog, crate):
    """Each thread-count branch is printed exactly once: the list the `t=N` leaves are painted from is sorted and then
    de-duplicated after 0 was resolved (C15's thread-count pipeline R15.4, reported here under this property)."""
    from rules import C15
    from rules.common import Renamed
    C15.r15_4(Renamed(ctx, "R20.12"), prog, crate)


def r20_11(ctx, prog, crate):
    """Rows that share one label are shown together or not at all: the optional row strings that finish_leaf prints as
    one block under a single label (`max alloc:` - count row and size row) are present under the same condition, so a
    block always has the same rows in the same positions."""
    from lib.symexpr import Sym, bool_switch, show
    b = prog.body(P + "finish_leaf", crate)
    if not ctx.anchor("R20.11", "TreePainter::finish_leaf", 1 if b else 0, 1):
        return
    ctx.saw(b)
    S = Sym(b, site_args=True)
    n = 0
    for bi, si, s in b.stmts():
        if not (s["k"] == "assign" and s["rv"]["k"] == "agg" and s["rv"]["ak"] == "array" and len(s["rv"]["ops"]) >= 2 and "Option<&" in (s["p"].get("ty") or "")):
            continue
        gates = []
        for o in s["rv"]["ops"]:
            # o = X.as_ref() of an Option local X assigned None on one arm and Some(..) on the other
            X = None
            for c in b.live_calls():
                if c.callee == "std::option::Option::as_ref" and o["k"] in ("move", "copy") and c.dest["l"] == o["p"]["l"]:
                    a = c.args[0]
                    for bj, sj, sd in b.stmts():
                        if sd["k"] == "assign" and a["k"] in ("move", "copy") and sd["p"]["l"] == a["p"]["l"] and sd["rv"]["k"] == "ref" and not sd["rv"]["p"]["proj"]:
                            X = sd["rv"]["p"]["l"]
            defs = [(bj, sd["rv"].get("variant")) for bj, sj, sd in b.stmts() if X is not None and sd["k"] == "assign" and sd["p"]["l"] == X and not sd["p"]["proj"] and sd["rv"]["k"] == "agg"]
            somes = [bj for bj, v in defs if v == "Some"]
            nones = [bj for bj, v in defs if v == "None"]
            g = None
            thens = [c for c in b.live_calls() if X is not None and c.dest["l"] == X and not c.dest["proj"] and c.callee in ("core::bool::then", "core::bool::then_some")]
            if len(thens) == 1 and not defs:
                e_ = S.op(thens[0].args[0])
                neg = False
                while e_[0] == "un" and e_[1] == "Not":
                    e_, neg = e_[2], not neg
                g = (_strip_sites(("bool", e_)), not neg)
            if len(somes) == 1 and len(nones) == 1:
                cand = [sw_[0] for sw_ in b.switches() if b.dominates(sw_[0], somes[0]) and b.dominates(sw_[0], nones[0])]
                if cand:
                    x = max(cand, key=lambda y: sum(1 for z in range(len(b.blocks)) if b.dominates(z, y)))
                    bs_ = bool_switch(b, S, x)
                    if bs_ is None:
                        # the test is a bool-valued call (`x.is_zero()`), not a comparison
                        t_ = b.term(x)
                        e_ = S.op(t_["discr"])
                        neg = False
                        while e_[0] == "un" and e_[1] == "Not":
                            e_, neg = e_[2], not neg
                        arms = {int(a_[0]): a_[1] for a_ in t_["arms"]}
                        if not (set(arms) - {0, 1}):
                            f_t, t_t = arms.get(0, t_["otherwise"]), arms.get(1, t_["otherwise"])
                            if f_t != t_t:
                                bs_ = (("bool", e_), f_t, t_t) if neg else (("bool", e_), t_t, f_t)
                    if bs_ is not None:
                        atom, t_t, f_t = bs_
                        pol = b.dominates(t_t, somes[0]) or t_t == somes[0]
                        g = (_strip_sites(atom), pol)
            gates.append((X, g))
        n += 1
        if not ctx.check(all(g is not None for _, g in gates), "R20.11", ["finish_leaf", "rows-of-one-block", "gate-readable"],
                         "cannot read the condition under which each row of a block printed under one label is present", b.where(bi)):
            continue
        ctx.check(len({g for _, g in gates}) == 1, "R20.11", ["finish_leaf", "rows-of-one-block", "present-together"],
                  "the rows printed as one block under a single label are present under different conditions (%s): a block can lose one of its rows and the remaining row takes its place" %
                  "; ".join("%s%s" % ("" if g[1] else "not ", show(g[0]) if isinstance(g[0], tuple) else g[0]) for _, g in gates), b.where(bi))
    ctx.anchor("R20.11", "blocks of optional rows under one label", n, 1)


def r20_10(ctx, prog, crate):
    """A leaf is closed with the position it was opened with: wherever one function both starts leaves and finishes
    them with statistics, the is_last given to finish_leaf (it decides whether the continuation rows carry the bar of a
    later sibling) ranges over exactly the positions given to the start_leaf calls that can precede it."""
    n = 0
    for b in prog.lib_bodies(crate):
        if "::tests::" in b.path or not (b.path.startswith("divan::") or b.path.startswith("tree_painter::")):
            continue
        fin = [c for c in b.live_calls() if c.callee == P + "finish_leaf"]
        sta = [c for c in b.live_calls() if c.callee == P + "start_leaf"]
        if not fin or not sta:
            continue
        ctx.saw(b)
        for f in fin:
            n += 1
            back = b.reach_back([f.bb])
            pre = [s for s in sta if s.bb in back]
            fd = set(_is_last_ok(prog, b, f.args[1])[1].split("|"))
            sd = set()
            for s in pre:
                sd |= set(_is_last_ok(prog, b, s.args[2])[1].split("|"))
            ctx.check(bool(pre) and fd == sd, "R20.10", [b.path, "finish-position-is-the-start-position"],
                      "finish_leaf in `%s` is told is_last = {%s} but the leaf it closes was started with is_last = {%s}" % (b.path, ", ".join(sorted(fd)), ", ".join(sorted(sd))), f.line())
    ctx.anchor("R20.10", "finish_leaf calls paired with start_leaf", n, 1)


def _is_last_ok(prog, b, a):
    """Every origin of the bool is Eq(enumerate index, len(iterated) - 1), a parameter/captured is_last, or a
    selection between those."""
    descs = []
    ok_all = True
    for o in origins(b, a):
        if o[0] == "place" and (1 <= o[1] <= b.arg_count):
            nm = b.param_name(o[1]) if not (b.kind == "Closure" and o[1] == 1) else "captured"
            ok = nm == "captured" or b.local_ty(o[1]) == "bool"  # the caller's own is_last, forwarded
            descs.append("param:" + nm)
            ok_all = ok_all and ok
        elif o[0] == "rvalue" and o[1]["k"] == "binop" and o[1]["op"] == "Eq":
            ia = b.prov.op_src(o[1]["a"])
            ib = b.prov.op_src(o[1]["b"])
            if not any(z.kind == "call" and "Enumerate" in z.a and z.a.endswith("::next") for z in ia):
                ia, ib = ib, ia         # `len - 1 == i`
            idx = any(z.kind == "call" and "Enumerate" in z.a and z.a.endswith("::next") for z in ia) and \
                not any(z.kind == "binop" or (z.kind == "call" and z.a.endswith("::len")) for z in ia)
            # len - 1, in any subtraction spelling (the loop body only runs when len >= 1)
            ln = any(z.kind == "call" and z.a.endswith("::len") for z in ib) and any(z.kind == "const" and z.a.startswith("1_") for z in ib) and \
                (any(z.kind == "binop" and z.a.startswith("Sub") for z in ib) or
                 any(z.kind == "call" and z.a in ("core::num::wrapping_sub", "core::num::saturating_sub") for z in ib)) and \
                not any(z.kind == "binop" and not z.a.startswith("Sub") for z in ib) and not any(z.kind == "call" and "Enumerate" in z.a for z in ib)
            # same collection: the len() receiver and the iterator share an origin
            it_base = {z.label() for z in ia if z.kind in ("param", "upvar") or (z.kind == "call" and z.a.endswith(("::iter", "unwrap_or_default")))}
            ln_base = {z.label() for z in ib if z.kind in ("param", "upvar") or (z.kind == "call" and z.a.endswith(("::iter", "unwrap_or_default")))}
            same = bool(it_base & ln_base)
            descs.append("index==len-1" if idx and ln and same else "Eq(%s)" % ("other-collection" if idx and ln else "?"))
            ok_all = ok_all and idx and ln and same
        elif o[0] == "const":
            descs.append("const:" + o[1]["c"]["d"])
            ok_all = False
        else:
            descs.append(o[0])
            ok_all = False
    return ok_all and bool(descs), "|".join(sorted(set(descs)))


def r20_3(ctx, prog, crate):
    lits = {}
    for fn in ("start_parent", "start_leaf", "ignore_leaf", "finish_leaf"):
        b = prog.body(P + fn, crate)
        if not ctx.anchor("R20.3", "TreePainter::" + fn, 1 if b else 0, 1):
            continue
        ctx.saw(b)
        for x in [b] + [y for y in prog.children(b) if y.kind == "Closure"]:
            for bi, si, s in x.stmts():
                if s["k"] == "assign" and s["rv"]["k"] == "use":
                    v = const_str(s["rv"]["o"])
                    if v is not None and v and all(ch in "├─╰│ " for ch in v):
                        lits.setdefault(fn, set()).add(v)
            for c in x.live_calls():
                for a in c.args:
                    v = const_str(a)
                    if v is not None and v and all(ch in "├─╰│ " for ch in v):
                        lits.setdefault(fn, set()).add(v)
                    if a["k"] == "const" and a["c"]["ty"] == "char" and a["c"]["d"].strip("'") in "│":
                        lits.setdefault(fn, set()).add(a["c"]["d"].strip("'"))
    branch = set()
    for fn in ("start_parent", "start_leaf", "ignore_leaf"):
        branch |= {v for v in lits.get(fn, set()) if v.strip() and v[0] in "├╰"}
    ctx.check(branch == {"├─ ", "╰─ "}, "R20.3", ["branch-glyphs"], "branch literals: %s" % sorted(branch), None, detail=sorted(branch))
    for fn in ("start_parent", "start_leaf", "ignore_leaf"):
        got = {v for v in lits.get(fn, set()) if v.strip() and v[0] in "├╰"}
        ctx.check(got == {"├─ ", "╰─ "}, "R20.3", [fn, "both-branch-glyphs"], "`%s` uses branch literals %s" % (fn, sorted(got)), None)
    pref = {v for v in lits.get("start_parent", set()) if v in ("│  ", "   ")}
    ctx.check(pref == {"│  ", "   "}, "R20.3", ["prefix-pieces"], "prefix pieces pushed by start_parent: %s" % sorted(lits.get("start_parent", set())), None)
    allw = {len(v) for v in branch | pref}
    ctx.check(allw == {3}, "R20.3", ["all-pieces-3-chars"], "widths (in chars) of the branch/prefix literals: %s" % sorted(allw), None)
    # finish_parent removes nth(2)
    fp = prog.body(P + "finish_parent", crate)
    if ctx.anchor("R20.3", "TreePainter::finish_parent", 1 if fp else 0, 1):
        ctx.saw(fp)
        nth = [c for c in fp.live_calls() if c.callee.endswith("::nth")]
        ok = len(nth) == 1 and const_int(nth[0].args[1]) == 2 and any(c.callee.endswith("::rev") for c in fp.live_calls()) and \
            any(c.callee == "std::string::String::truncate" for c in fp.live_calls())
        ctx.check(ok, "R20.3", ["finish_parent", "removes-3-chars"], "finish_parent does not pop exactly 3 chars (rev().nth(2)) from the prefix", fp.where(0))
        # depth decremented once
        subs = [s for bi, si, s in fp.stmts() if s["k"] == "assign" and s["rv"]["k"] == "binop" and s["rv"]["op"] in ("Sub", "SubWithOverflow") and const_int(s["rv"]["b"]) == 1]
        ctx.check(len(subs) == 1, "R20.3", ["finish_parent", "depth-minus-1"], "depth decrements in finish_parent: %d" % len(subs), fp.where(0))
        # the truncate happens unconditionally... but the push is conditional on !is_top_level: truncation of an empty prefix is a no-op
    sp = prog.body(P + "start_parent", crate)
    if sp is not None:
        adds = [s for bi, si, s in sp.stmts() if s["k"] == "assign" and s["rv"]["k"] == "binop" and s["rv"]["op"] in ("Add", "AddWithOverflow") and const_int(s["rv"]["b"]) == 1
                and any(z.kind == "param" and z.b == ("depth",) for z in sp.prov.op_src(s["rv"]["a"]))]
        ctx.check(len(adds) == 1, "R20.3", ["start_parent", "depth-plus-1"], "depth increments in start_parent: %d" % len(adds), sp.where(0))
        ps = [c for c in sp.live_calls() if c.callee == "std::string::String::push_str" and any(z.kind == "param" and z.b == ("current_prefix",) for z in sp.prov.op_src(c.args[0]))]
        ok = len(ps) == 1
        if ok:
            # control dependent on !is_top_level where is_top_level = (depth == 0)
            ok = False
            for sb, t in sp.switches():
                d = direct_place(sp, t["discr"])
                neg = False
                if d and d[0] == "rvalue" and d[1]["k"] == "unop" and d[1]["op"] == "Not":
                    d = direct_place(sp, d[1]["o"])
                    neg = True
                if d and d[0] == "rvalue" and d[1]["k"] == "binop" and d[1]["op"] == "Eq" and const_int(d[1]["b"]) == 0 and \
                        any(z.kind == "param" and z.b == ("depth",) for z in sp.prov.op_src(d[1]["a"])):
                    zero = [a[1] for a in t["arms"] if a[0] == "0"][0]
                    not_top = t["otherwise"] if neg else zero
                    top = zero if neg else t["otherwise"]
                    if sp.dominates(not_top, ps[0].bb) and ps[0].bb not in sp.reach([top], avoid=[not_top]):
                        ok = True
        ctx.check(ok, "R20.3", ["start_parent", "prefix-pushed-iff-nested"], "the prefix is not extended exactly when the group is nested (!is_top_level)", sp.where(0))
    # DEPTH_COLS
    dc = [b for (ck, pth, pr), b in prog.bodies.items() if ck == crate and pth.endswith("max_name_span::DEPTH_COLS")]
    mns = prog.body("entry::tree::EntryTree::max_name_span", crate)
    vals = set()
    if mns is not None:
        for x in prog.closure_tree(mns):
            for bi, si, s in x.stmts():
                if s["k"] == "assign" and s["rv"]["k"] == "binop" and s["rv"]["op"] in ("Mul", "MulWithOverflow"):
                    for o in (s["rv"]["a"], s["rv"]["b"]):
                        if o["k"] == "const" and "DEPTH_COLS" in o["c"]["d"]:
                            vals.add(const_int(o))
    ctx.check(vals == {3}, "R20.3", ["max_name_span", "DEPTH_COLS-is-3"], "DEPTH_COLS values used: %s (must equal the 3-char branch/prefix width)" % sorted(vals), None)


def r20_4(ctx, prog, crate):
    names = tables.variant_names(prog, "tree_painter::TreeColumn", crate)
    allc = prog.bodies.get((crate, "tree_painter::TreeColumn::ALL", -1))
    if not ctx.anchor("R20.4", "TreeColumn ADT + ALL", (1 if names else 0) + (1 if allc else 0), 2):
        return
    arr = tables.const_array_elems(allc)
    got = [x[1] if x else None for x in (arr or [])]
    ctx.check(got == names, "R20.4", ["TreeColumn::ALL", "declaration-order"], "TreeColumn::ALL = %s, variants = %s" % (got, names), allc.where(0), detail=got)
    cnt = prog.bodies.get((crate, "tree_painter::TreeColumn::COUNT", -1))
    if cnt is not None:
        v = [const_int(s["rv"]["o"]) for bi, si, s in cnt.stmts(live_only=False) if s["k"] == "assign" and s["p"]["l"] == 0 and s["rv"]["k"] == "use"]
        ctx.check(v == [len(names)], "R20.4", ["TreeColumn::COUNT", "equals-variant-count"], "COUNT = %s, variants = %d" % (v, len(names)), cnt.where(0))
    # name()
    nb = prog.body("tree_painter::TreeColumn::name", crate)
    if ctx.anchor("R20.4", "TreeColumn::name", 1 if nb else 0, 1):
        sws = tables.discr_switches(nb)
        if ctx.check(len(sws) == 1, "R20.4", ["name", "match"], "not a match", nb.where(0)):
            bi, t, _ = sws[0]
            arms, otherwise = tables.arm_targets(t)
            tab = {}
            for i, nm in enumerate(names):
                tgt = arms.get(i, otherwise)
                for y in tables.exclusive_blocks(nb, tgt, [z for z in list(arms.values()) + [otherwise] if z != tgt]):
                    for s in nb.blocks[y]["stmts"]:
                        if s["k"] == "assign" and s["rv"]["k"] == "use":
                            v = const_str(s["rv"]["o"])
                            if v is not None:
                                tab[nm] = v
            ctx.check(tab == {n: n.lower() for n in names}, "R20.4", ["name", "heading-is-lowercase-variant"], "column headings: %s" % tab, nb.where(0), detail=tab)
    # get_stat()
    gb = prog.body("tree_painter::TreeColumn::get_stat", crate)
    if ctx.anchor("R20.4", "TreeColumn::get_stat", 1 if gb else 0, 1):
        tab = _field_per_arm(gb, names, "param")
        want = {"Fastest": "fastest", "Slowest": "slowest", "Median": "median", "Mean": "mean", "Samples": None, "Iters": None}
        ctx.check(tab == want, "R20.4", ["get_stat", "same-named-stat"], "get_stat maps %s" % tab, gb.where(0), detail=tab)
    # the match in finish_leaf's time row closure
    fl = prog.body(P + "finish_leaf", crate)
    if ctx.anchor("R20.4", "finish_leaf", 1 if fl else 0, 1):
        cl = [x for x in prog.children(fl) if x.kind == "Closure" and any(pr.get("name") in ("sample_count", "iter_count") for bi, si, s in x.stmts()
                                                                          if s["k"] == "assign" and s["rv"]["k"] in ("ref", "use")
                                                                          for pr in (s["rv"].get("p") or s["rv"].get("o", {}).get("p") or {"proj": []})["proj"] if pr["k"] == "field")]
        if ctx.check(len(cl) == 1, "R20.4", ["finish_leaf", "time-row-closure"], "closures reading sample_count/iter_count: %d" % len(cl), fl.where(0)):
            x = cl[0]
            ctx.saw(x)
            tab = _field_per_arm(x, names, "upvar")
            want = {"Fastest": "time.fastest", "Slowest": "time.slowest", "Median": "time.median", "Mean": "time.mean", "Samples": "sample_count", "Iters": "iter_count"}
            ctx.check(tab == want, "R20.4", ["finish_leaf", "row-values"], "the statistics row prints %s" % tab, x.where(0), detail=tab)
    # continuation rows belong to the benchmark above: they are written inside finish_leaf only (between start_leaf and the next node)
    for c in prog.callers_of("tree_painter::TreeColumnData::write", crates=[crate]):
        ok = c.body.path.startswith((P + "finish_leaf", P + "start_parent", P + "ignore_leaf"))
        ctx.check(ok, "R20.4", ["row-writer-callers", c.body.path], "column rows are written from `%s`" % c.body.path, c.line())


def _field_per_arm(b, names, kind):
    sws = tables.discr_switches(b)
    sws = [x for x in sws if "TreeColumn" in b.local_ty(x[2])]
    if len(sws) != 1:
        return None
    bi, t, _ = sws[0]
    arms, otherwise = tables.arm_targets(t)
    tab = {}
    for i, nm in enumerate(names):
        tgt = arms.get(i, otherwise)
        fields = set()
        for y in tables.exclusive_blocks(b, tgt, [z for z in list(arms.values()) + [otherwise] if z != tgt]):
            for s in b.blocks[y]["stmts"]:
                if s["k"] == "assign" and s["rv"]["k"] in ("ref", "use"):
                    pl = s["rv"].get("p") or (s["rv"]["o"].get("p") if s["rv"]["k"] == "use" else None)
                    if pl is None:
                        continue
                    fs = [pr.get("name") for pr in pl["proj"] if pr["k"] == "field" and isinstance(pr.get("name"), str) and not pr["name"].isdigit()]
                    if fs:
                        fields.add(".".join(fs))
        # several arms may share a block (Samples | Iters => None)
        tab[nm] = (sorted(fields)[0] if len(fields) == 1 else (None if not fields else "|".join(sorted(fields))))
    return tab


def r20_5(ctx, prog, crate):
    b = prog.body("divan::Divan::run_bench_entry", crate)
    if b is None:
        return
    si = [c for c in b.live_calls() if c.callee == "divan::Divan::should_ignore"]
    il = [c for c in b.live_calls() if c.callee == P + "ignore_leaf"]
    if not ctx.check(len(si) == 1 and len(il) == 1, "R20.5", ["run_bench_entry", "shape"], "should_ignore x%d ignore_leaf x%d" % (len(si), len(il)), b.where(0)):
        return
    sw = None
    for bi, t in b.switches():
        d = direct_place(b, t["discr"])
        if d and d[0] == "call" and d[1].bb == si[0].bb:
            sw = (bi, t)
    if not ctx.check(sw is not None, "R20.5", ["run_bench_entry", "branch-on-should_ignore"], "no branch on should_ignore()", si[0].line()):
        return
    bi, t = sw
    ign = t["otherwise"]
    zero = [a[1] for a in t["arms"] if a[0] == "0"][0]
    r = b.reach([ign])
    ctx.check(il[0].bb in r and il[0].bb not in b.reach([zero]) and not (set(b.returns) & b.reach([ign], avoid=[il[0].bb])), "R20.5", ["run_bench_entry", "ignored-is-marked"],
              "an ignored benchmark is not (always and only) painted with ignore_leaf", il[0].line())
    from .C14 import user_reaching
    bad = [user_reaching(prog, b, c) for c in b.live_calls() if c.bb in r and user_reaching(prog, b, c)]
    other = [c.callee for c in b.live_calls() if c.bb in r and c.callee.startswith(P) and c.callee != P + "ignore_leaf"]
    ctx.check(not bad and not other, "R20.5", ["run_bench_entry", "ignored-is-not-run"], "after should_ignore() == true the code can reach %s %s" % (bad, other), b.where(ign))
    ctx.check(b.dominates(si[0].bb, il[0].bb) and all(b.dominates(bi, c.bb) for c in b.live_calls() if c.callee.startswith(P)), "R20.5",
              ["run_bench_entry", "decision-first"], "something is painted before the ignore decision", si[0].line())
    # ignore_leaf prints the marker
    ib = prog.body(P + "ignore_leaf", crate)
    if ib is not None:
        strs = set()
        for c in ib.live_calls():
            for a in c.args:
                v = const_str(a)
                if v:
                    strs.add(v)
        for bi_, si_, s_ in ib.stmts():
            if s_["k"] == "assign" and s_["rv"]["k"] == "use":
                v = const_str(s_["rv"]["o"])
                if v:
                    strs.add(v)
        ctx.check("(ignored)" in strs, "R20.5", ["ignore_leaf", "marker"], "ignore_leaf's literals: %s" % sorted(strs), ib.where(0))


def r20_6(ctx, prog, crate):
    b = prog.body("divan::Divan::run_tree", crate)
    if b is None:
        return
    nx = [c for c in b.live_calls() if c.callee.endswith("::next")]
    if ctx.check(len(nx) == 1, "R20.6", ["run_tree", "one-loop"], "loops in run_tree: %d" % len(nx), b.where(0)):
        srcs = b.prov.op_src(nx[0].args[0])
        names = {z.a for z in srcs if z.kind == "call"}
        ok = {z.label() for z in srcs if z.kind == "param"} == {"param:" + b.param_name(3)} and any(n.endswith("enumerate") for n in names) and \
            not any(n.endswith(("::rev", "::skip", "::take", "::filter", "::step_by", "::chain")) for n in names)
        ctx.check(ok, "R20.6", ["run_tree", "slice-order"], "run_tree does not visit `tree` front to back (iterator chain %s)" % sorted(names), nx[0].line())
    # every node of the slice is painted: each loop iteration reaches run_bench_entry or start_parent (no skipping)
    lp = b.innermost_loop(nx[0].bb) if nx else None
    if lp:
        paint = [c.bb for c in b.live_calls() if c.callee in ("divan::Divan::run_bench_entry", P + "start_parent")]
        sw = tables.switch_on_call_result(b, nx[0])
        if sw:
            arms, otherwise = tables.arm_targets(sw[1])
            some_t = arms.get(1, otherwise)
            outside = set(range(len(b.blocks))) - lp["body"]
            r = b.reach([some_t], avoid=outside | set(paint))
            ctx.check(not any(l in r for l in lp["latches"]), "R20.6", ["run_tree", "every-node-painted"], "an iteration can finish without painting its node", b.where(some_t))
    ra = prog.body("divan::Divan::run_action", crate)
    if ra is not None:
        so = [c for c in ra.live_calls() if c.callee == "entry::tree::EntryTree::sort_by_attr"]
        rt = [c for c in ra.live_calls() if c.callee == "divan::Divan::run_tree"]
        if so and rt:
            ctx.check(ra.dominates(so[0].bb, rt[0].bb), "R20.6", ["run_action", "sorted-before-painting"], "the tree is painted before it is sorted", rt[0].line())
            a = {z.label() for z in ra.prov.op_src(so[0].args[1]) if z.kind == "param"} | {z.label() for z in ra.prov.op_src(so[0].args[2]) if z.kind == "param"}
            ctx.check(a == {"param:self.sorting_attr", "param:self.reverse_sort"}, "R20.6", ["run_action", "sorted-as-configured"], "sort_by_attr gets %s" % sorted(a), so[0].line())


def _lower_bound(e):
    """Least value a canonical expression over unsigned quantities can take (None = unbounded below).  Lengths, counts,
    saturating differences and parameters are >= 0; a sum is bounded by the sum of its parts when no part is subtracted."""
    k = e[0]
    if k == "int":
        return e[1]
    if k == "lin":
        lb = e[2]
        for a, c in e[1]:
            if c < 0:
                return None
            al = _lower_bound(a)
            if al is None:
                return None
            lb += c * al
        return lb
    if k == "mul":
        out = 1
        for f in e[1]:
            fl = _lower_bound(f)
            if fl is None:
                return None
            out *= fl
        return out
    if k in ("arg", "upvar", "site", "phi", "field", "cell"):
        return 0
    if k == "call":
        n = e[1].rsplit("::", 1)[-1]
        if n in ("saturating_sub", "len", "count", "abs_diff", "wrapping_sub", "checked_sub"):
            return 0
        if n in ("max",):
            ls = [_lower_bound(a) for a in e[2]]
            return None if any(x is None for x in ls) else max(ls)
        if n in ("min",):
            ls = [_lower_bound(a) for a in e[2]]
            return None if any(x is None for x in ls) else min(ls)
        if n in ("saturating_add",):
            ls = [_lower_bound(a) for a in e[2]]
            return None if any(x is None for x in ls) else sum(ls)
        return 0
    if k == "payload":
        return 0
    return None


def r20_7(ctx, prog, crate):
    """The name of a line and its first statistics column never run together: wherever the name buffer is right-padded
    (start_parent, start_leaf and their helper) the number of spaces appended is at least the column gap (TREE_COL_BUF >= 1)
    for EVERY name length and every current span - decided by a lower bound over the canonical value expression of the
    padding length (lengths, counts and saturating differences are >= 0), not by running the painter."""
    from lib.symexpr import Sym, show
    sites = []
    for b in prog.lib_bodies(crate):
        if not b.path.startswith("tree_painter::") or "::tests::" in b.path:
            continue
        S = Sym(b)
        for c in b.live_calls():
            if not (c.callee.endswith("::take") and len(c.args) == 2):
                continue
            r = S.op(c.args[0])
            if not (r[0] == "site" and r[1].endswith("::repeat")):
                continue
            n = S.op(c.args[1])
            # the name padding: its length is computed from a character count of the buffer and the running name span
            # (column padding inside TreeColumnData::write comes from a checked difference and may be 0)
            text = repr(n)
            if "count" in text and ("max_name_span" in text or b.path.endswith("right_pad_buffer")) and "checked_sub" not in text:
                sites.append((b, c, n))
    ctx.anchor("R20.7", "name right-padding sites in tree_painter", sites, 1)
    for b, c, n in sites:
        ctx.saw(b)
        lb = _lower_bound(n)
        ctx.check(lb is not None and lb >= 1, "R20.7", [b.path.rsplit("::", 1)[-1], "gap-never-vanishes"],
                  "the padding after the name is %s, whose least value is %s: for a name longer than the current span the name and the first column run together "
                  "(expected gap + saturating_sub(span, len), at least 1)" % (show(n), lb), c.line(), detail={"padding": show(n), "lower_bound": lb})
    # both line starters pad (directly or through the helper)
    for fn in ("start_parent", "start_leaf"):
        b = prog.body(P + fn, crate)
        if b is None:
            continue
        direct = any(x is b for x, _c, _n in sites)
        via = any(c.callee == x.path for c in b.live_calls() for x, _c, _n in sites)
        ctx.check(direct or via, "R20.7", [fn, "pads-the-name"], "`%s` does not right-pad the name before the columns" % fn, b.where(0))


def r20_8(ctx, prog, crate):
    """Continuation rows belong to what they are labelled with: the per-operation / per-kind data arrays built with
    `X::ALL.map(..)` (declaration order, so slot i holds variant i) are read at `item as usize` of the very loop item whose
    label is printed (AllocOp::prefix) - or, when the array is taken apart by position, every (variant, slot) pair
    satisfies slot == discriminant(variant)."""
    from lib.symexpr import Sym, show
    b = prog.body(P + "finish_leaf", crate)
    if not ctx.anchor("R20.8", "TreePainter::finish_leaf", 1 if b else 0, 1):
        return
    ctx.saw(b)
    S = Sym(b, site_args=True)
    # arrays produced by `<Enum>::ALL.map(..)`
    arrays = {}
    for c in b.live_calls():
        if c.callee.endswith("::map") and c.args and not c.dest["proj"]:
            e0 = S.op(c.args[0])
            if e0[0] == "opaque" and e0[1].startswith("uneval:") and e0[1].endswith("::ALL"):
                arrays[c.dest["l"]] = e0[1][len("uneval:"):].rsplit("::", 1)[0]
    # locals derived from such an array by moves / map(TreeColumnData) keep the slot order
    grew = True
    while grew:
        grew = False
        for c in b.live_calls():
            if c.callee.endswith("::map") and c.args and c.args[0]["k"] in ("copy", "move") and not c.args[0]["p"]["proj"] and c.args[0]["p"]["l"] in arrays \
                    and not c.dest["proj"] and c.dest["l"] not in arrays:
                arrays[c.dest["l"]] = arrays[c.args[0]["p"]["l"]]
                grew = True
    ctx.anchor("R20.8", "per-variant arrays in finish_leaf (X::ALL.map)", arrays, 2)
    indexed = {}
    positional = {}
    for bi, si, s in b.stmts():
        if s["k"] != "assign" or s["rv"]["k"] not in ("ref", "use"):
            continue
        p = s["rv"]["p"] if s["rv"]["k"] == "ref" else (s["rv"]["o"].get("p") if s["rv"]["o"]["k"] in ("copy", "move") else None)
        if p is None:
            continue
        base = p["l"]
        if base not in arrays:
            # through a reference to the array
            d = direct_place(b, {"k": "copy", "p": {"l": base, "proj": [], "ty": ""}})
            if d and d[0] == "place" and d[1] in arrays and not d[2]:
                base = d[1]
            elif d and d[0] == "call" and not d[1].dest["proj"] and d[1].dest["l"] in arrays:
                base = d[1].dest["l"]
        if base not in arrays:
            continue
        for pr in p["proj"]:
            if pr["k"] == "index":
                indexed.setdefault(base, []).append((bi, S.local(pr["l"])))
            elif pr["k"] == "cindex":
                positional.setdefault(base, []).append((bi, s["p"]["l"], pr["o"]))
    labels = [c for c in b.live_calls() if c.callee == "alloc::AllocOp::prefix"]
    ctx.anchor("R20.8", "AllocOp::prefix label sites", labels, 1)
    ctx.anchor("R20.8", "slot reads of the per-variant arrays", sum(len(v) for v in indexed.values()) + sum(len(v) for v in positional.values()), 1)
    for arr, enum in sorted(arrays.items()):
        adt = prog.adt(enum, crate)
        names = [v["name"] for v in adt["variants"]] if adt else []
        for bi, e in indexed.get(arr, []):
            ok = e[0] == "discr" and e[1][0] == "payload" and e[1][1] == "Some" and e[1][3][0] == "site" and e[1][3][1].endswith("::next")
            ctx.check(ok, "R20.8", [enum.rsplit("::", 1)[-1], "slot-is-discriminant-of-loop-item"],
                      "the %s array is read at %s, expected `<loop item> as usize`" % (enum, show(e)), b.where(bi))
            if ok and enum.endswith("AllocOp"):
                for c in labels:
                    ctx.check(S.op(c.args[0]) == e[1], "R20.8", ["AllocOp", "label-of-the-same-item"],
                              "the block labelled with prefix(%s) shows the data of slot %s" % (show(S.op(c.args[0])), show(e)), c.line())
        pos = positional.get(arr, [])
        if pos:
            # taken apart by position: pair every positional read with the variant constant it travels with
            pairs = []
            slot_of = {l: k for _bi, l, k in pos}
            for bi, si, s in b.stmts():
                if s["k"] == "assign" and s["rv"]["k"] == "agg" and s["rv"]["ak"] == "tuple" and len(s["rv"]["ops"]) == 2:
                    o0, o1 = s["rv"]["ops"]
                    v = None
                    if o0["k"] == "const" and enum.rsplit("::", 1)[-1] in str(o0["c"].get("d", "")):
                        v = str(o0["c"]["d"]).rsplit("::", 1)[-1]
                    elif o0["k"] in ("copy", "move") and not o0["p"]["proj"]:
                        dfs = [d_ for d_ in b.prov.defs.get(o0["p"]["l"], []) if d_[0] == "S"]
                        if len(dfs) == 1 and dfs[0][3]["rv"]["k"] == "agg" and dfs[0][3]["rv"]["ak"] == "adt" and norm(dfs[0][3]["rv"]["adt"]) == enum:
                            v = dfs[0][3]["rv"]["variant"]
                    if v is not None and o1["k"] in ("copy", "move"):
                        # follow copies / reborrows of the positional reference
                        l1 = o1["p"]["l"]
                        k = slot_of.get(l1)
                        for _ in range(4):
                            if k is not None:
                                break
                            dfs = [d_ for d_ in b.prov.defs.get(l1, []) if d_[0] == "S"]
                            if len(dfs) != 1:
                                break
                            rv1 = dfs[0][3]["rv"]
                            src1 = rv1["p"]["l"] if rv1["k"] == "ref" else (rv1["o"]["p"]["l"] if rv1["k"] == "use" and rv1["o"]["k"] in ("copy", "move") else None)
                            if src1 is None:
                                break
                            l1 = src1
                            k = slot_of.get(l1)
                        pairs.append((bi, v, k))
            ok = len(pairs) == len(names) and all(v in names and k == names.index(v) for _bi, v, k in pairs)
            ctx.check(ok, "R20.8", [enum.rsplit("::", 1)[-1], "positional-slots-match-declaration-order"],
                      "the %s array is taken apart by position and paired as %s, but %s::ALL is in declaration order %s" % (
                          enum, [(v, k) for _bi, v, k in pairs], enum, names), b.where(pos[0][0]))

    # X::ALL itself is in declaration order (slot i <-> variant i): R20.4 checks TreeColumn::ALL, here AllocOp / KnownCounterKind
    for enum in sorted(set(arrays.values())):
        cb = None
        for (ck, pth, pr), x in prog.bodies.items():
            if ck == crate and pth == enum + "::ALL" and pr == -1:
                cb = x
        adt = prog.adt(enum, crate)
        if cb is None or adt is None:
            ctx.fail("R20.8/ANCHOR", [enum, "ALL"], "cannot read %s::ALL" % enum, None)
            continue
        names = [v["name"] for v in adt["variants"]]
        elems = tables.const_array_elems(cb)
        got = [e[1] if isinstance(e, tuple) and e[0] == "variant" else str(e) for e in (elems or [])]
        ctx.check(got == names, "R20.8", [enum.rsplit("::", 1)[-1], "ALL-in-declaration-order"], "%s::ALL = %s, declared %s" % (enum, got, names), cb.where(0))


def r20_9(ctx, prog, crate):
    """Column predicates the row writers branch on: is_time_stat() is true for exactly the columns get_stat() has a
    statistic for (the width of those columns is computed from the statistics), and is_first()/is_last() name the first
    and last element of TreeColumn::ALL (whose order R20.8 ties to the declaration)."""
    from rules.common import variant_table
    T = "tree_painter::TreeColumn::"
    adt = prog.adt("tree_painter::TreeColumn", crate)
    bs = {n: prog.body(T + n, crate) for n in ("is_time_stat", "get_stat", "is_first", "is_last")}
    if not ctx.anchor("R20.9", "TreeColumn predicates", sum(1 for b in bs.values() if b) + (1 if adt else 0), 5):
        return
    for b in bs.values():
        ctx.saw(b)
    names = [v["name"] for v in adt["variants"]]
    ts, gs = variant_table(prog, bs["is_time_stat"], crate), variant_table(prog, bs["get_stat"], crate)
    if ctx.check(ts is not None and gs is not None, "R20.9", ["is_time_stat", "decided-by-variant"], "cannot read is_time_stat/get_stat as functions of the variant", bs["is_time_stat"].where(0)):
        yes = sorted(v for v, e in ts.items() if e == ("int", 1))
        odd = sorted(v for v, e in ts.items() if e not in (("int", 1), ("int", 0)))
        some = sorted(v for v, e in gs.items() if e[0] == "adt" and e[2] == "Some")
        ctx.check(not odd and yes == some, "R20.9", ["is_time_stat", "exactly-the-columns-with-a-statistic"],
                  "is_time_stat() is true for %s but get_stat() has a statistic for %s" % (yes, some), bs["is_time_stat"].where(0))
    for fn, want_idx, (off, from_end) in (("is_first", 0, (0, False)), ("is_last", len(names) - 1, (1, True))):
        b = bs[fn]
        t = variant_table(prog, b, crate)
        if t is not None and all(e in (("int", 1), ("int", 0)) for e in t.values()):
            yes = sorted(v for v, e in t.items() if e == ("int", 1))
            ok, desc = yes == [names[want_idx]] and all(e in (("int", 1), ("int", 0)) for e in t.values()), "true for %s" % yes
        else:
            # `let [first, ..] = Self::ALL; self == first`
            eqs = [c for c in b.live_calls()]
            picks = []
            for bi, si, s in b.stmts():
                if s["k"] == "assign" and s["rv"]["k"] == "use" and s["rv"]["o"]["k"] in ("copy", "move"):
                    for pr in s["rv"]["o"]["p"]["proj"]:
                        if pr["k"] == "cindex":
                            src = {z.label() for z in b.prov.local_src(s["rv"]["o"]["p"]["l"])}
                            idx = pr["o"] if not pr["from_end"] else len(names) - pr["o"]
                            picks.append((idx, src, s["rv"]["o"]["p"]["l"], s["p"]["l"]))
            ok = len(eqs) == 1 and eqs[0].callee.endswith("PartialEq>::eq") and len(picks) == 1 and picks[0][0] == want_idx and \
                picks[0][1] == {"const:tree_painter::TreeColumn::ALL"} and eqs[0].dest["l"] == 0 and not eqs[0].dest["proj"]
            if ok:
                # the two operands are self and the picked element
                ops = [direct_place(b, a) for a in eqs[0].args]
                ls = sorted(d[1] for d in ops if d and d[0] == "place")
                ok = len(ls) == 2 and ls[0] == 1 and ls[1] in (picks[0][2], picks[0][3])
            desc = "not `self == %s element of Self::ALL`" % ("first" if not from_end else "last")
        ctx.check(ok, "R20.9", [fn, "names-the-%s-column" % ("first" if not from_end else "last")],
                  "TreeColumn::%s is %s; expected true exactly for %s, the %s column of TreeColumn::ALL" % (fn, desc, names[want_idx], "first" if not from_end else "last"), b.where(0))


def r20_13(ctx, prog, crate):
    """(= R18.2) The throughput continuation rows show the value computed for the benchmark above them: the count per second
    is scaled with the table (1000^k / 1024^k) that belongs to the suffix printed next to it, so that a row agrees with the
    time printed in the same column."""
    from .C18 import r18_2
    from .common import Renamed
    r18_2(Renamed(ctx, "R20.13"), prog, crate)


def r20_14(ctx, prog, crate):
    """(= R17.1 / R17.3) The rows under a type or constant show what ran for it: the typed benchmark function is taken from
    the instantiation's own runner on every call and never from the argument list shared by all instantiations."""
    from .C17 import r17_1, r17_3
    from .common import Renamed
    r17_1(Renamed(ctx, "R20.14"), prog, crate)
    r17_3(Renamed(ctx, "R20.14"), prog, crate)


def run_extra(ctx):
    """R20.15 (= R12.3) Groups are shown with what they declare (name, thread branches, (ignored)): the group entry a
    #[divan::bench_group] emits carries the module's raw name as module_path!() spells it (raw identifiers keep their r#),
    so insert_group finds its node - on the macro expansions (engine E3)."""
    from . import C12
    from .common import Renamed
    C12.run_extra(Renamed(ctx, "R20.15"))


def run(ctx, prog, crate):
    r20_14(ctx, prog, crate)
    r20_13(ctx, prog, crate)
    r20_8(ctx, prog, crate)
    r20_9(ctx, prog, crate)
    r20_10(ctx, prog, crate)
    r20_11(ctx, prog, crate)
    r20_12(ctx, prog, crate)
    r20_7(ctx, prog, crate)
    r20_1(ctx, prog, crate)
    r20_2(ctx, prog, crate)
    r20_3(ctx, prog, crate)
    r20_4(ctx, prog, crate)
    r20_5(ctx, prog, crate)
    r20_6(ctx, prog, crate)
