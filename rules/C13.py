"""C13  A benchmark case runs iff its full display path passes the filters."""
from lib.facts import norm, direct_place, const_int, origins, place_fields, nophi
from lib import tables
from .C15 import const_str, str_consts

INLINE = True      # crate-local helpers the rules do not know by name are inlined into their callers (lib/inline.py)
EXPLANATION = (
    "R13.1 polarity constants: FilterSet::include/exclude pass true/false to SplitVec::insert(after_split); the CLI sends "
    "the positional `filter` values to include and `--skip` values to exclude; Divan::skip_regex/skip_exact exclude; "
    "Filter::Exact is built iff the `exact` flag, Filter::Regex otherwise; Filter::is_match is Regex::is_match (search) "
    "vs whole-string ==. R13.2 decision shape of FilterSet::is_match over the atoms 'a filter matched at index i', "
    "i >= split, len == split: matched => i >= split, otherwise len == split; SplitVec::insert keeps the exclusive half "
    "first (the !after_split branch writes at the old split position and increments the split index). R13.3 filters "
    "apply to cases only: in EntryTree::retain the filter callback is invoked only on the Leaf arms (once for an "
    "argument-less leaf, once per argument inside args.retain), never on the Parent arm, whose result derives only from "
    "children.is_empty() after the recursive call; a leaf with arguments survives iff !args.is_empty(). R13.4 one "
    "naming function: the path pieces used for filtering, listing and painting all come from display_name() and the "
    "same args vector. R13.5 run_action filters before listing, sorting and running. R13.2 also: SplitVec::all is the whole items slice, split_index the stored index, set_split_index stores its argument. R13.1 also: include/exclude/insert_filter store the filter on every path.")
EXPLANATION += (" R13.6 the clap definitions of the positional `filter` and of `--skip` collect every occurrence as one value (ArgAction::Append) and carry only value-neutral builder calls (no delimiter, value parser, default, arity change), so each filter reaches the filter set exactly as typed.")
NOT_DECIDED = ["regular-expression semantics (regex-lite trusted)", "string equality of the two format! path builders beyond the shared accessor and '::' separator"]
TRUSTED = ["regex_lite::Regex::is_match is an unanchored search"]


def filter_is_match_rule(ctx, rule, prog, crate):
    """Filter::is_match: the Regex arm is a regex search, the Exact arm is whole-string equality of the filter text and the
    candidate path (shared by R13.1 and R14.5)."""
    # Filter::is_match
    b = prog.body("config::filter::Filter::is_match", crate)
    names = tables.variant_names(prog, "config::filter::Filter", crate)
    if ctx.anchor(rule, "Filter::is_match + ADT", (1 if b else 0) + (1 if names else 0), 2):
        ctx.saw(b)
        sws = tables.discr_switches(b)
        if ctx.check(len(sws) == 1, rule, ["Filter::is_match", "match"], "not a single match on self", b.where(0)):
            bi, t, _ = sws[0]
            arms, otherwise = tables.arm_targets(t)
            tab = {}
            for nm in names:
                tgt = arms.get(names.index(nm), otherwise)
                blocks = tables.exclusive_blocks(b, tgt, [y for y in list(arms.values()) + [otherwise] if y != tgt])
                tab[nm] = sorted({b.call_at(x).callee for x in blocks if b.call_at(x) is not None})
            ok_r = any(n.endswith("Regex::is_match") for n in tab.get("Regex", [])) and not any("eq" == n.rsplit("::", 1)[-1] for n in tab.get("Regex", []))
            ok_e = any(n.rsplit("::", 1)[-1] == "eq" for n in tab.get("Exact", [])) and not any("Regex" in n or n.endswith(("contains", "starts_with", "ends_with", "find")) for n in tab.get("Exact", []))
            ctx.check(ok_r and ok_e, rule, ["Filter::is_match", "regex-search-vs-equality"], "Filter::is_match arms call %s" % tab, b.where(bi), detail=tab)
            # both sides of == are the filter text and the candidate path
            for c in b.live_calls():
                if c.callee.rsplit("::", 1)[-1] == "eq":
                    s0 = {z.label() for z in b.prov.op_src(c.args[0]) if z.kind == "param"}
                    s1 = {z.label() for z in b.prov.op_src(c.args[1]) if z.kind == "param"}
                    ctx.check({frozenset(s0), frozenset(s1)} == {frozenset({"param:self"}), frozenset({"param:" + b.param_name(2)})} or
                              (any(l.startswith("param:self") for l in s0) and s1 == {"param:" + b.param_name(2)}), rule, ["Filter::is_match", "compares-filter-with-path"],
                              "== compares %s with %s" % (sorted(s0), sorted(s1)), c.line())


def r13_1(ctx, prog, crate):
    for fn, want in (("include", 1), ("exclude", 0)):
        b = prog.body("config::filter::FilterSet::" + fn, crate)
        if not ctx.anchor("R13.1", "FilterSet::" + fn, 1 if b else 0, 1):
            continue
        ctx.saw(b)
        cs = [c for c in b.live_calls() if c.callee in ("config::filter::FilterSet::insert_filter", "util::split_vec::SplitVec::insert")]
        ok = len(cs) == 1 and const_int(cs[0].args[2]) == want and {z.label() for z in b.prov.op_src(cs[0].args[1])} == {"param:" + b.param_name(2)}
        ctx.check(ok, "R13.1", ["FilterSet::" + fn, "polarity"], "FilterSet::%s inserts with inclusive = %s" % (fn, cs[0].args[2].get("c", {}).get("d") if cs else "?"),
                  b.where(0), detail={"fn": fn, "inclusive": bool(want)})
        if len(cs) == 1:
            ctx.check(all(b.dominates(cs[0].bb, r) for r in b.returns), "R13.1", ["FilterSet::" + fn, "every-filter-is-stored"],
                      "FilterSet::%s can return without storing the filter it was given" % fn, cs[0].line())
    b = prog.body("config::filter::FilterSet::insert_filter", crate)
    # (the shared helper is optional: include/exclude may call SplitVec::insert themselves - checked above either way)
    if b is not None and ctx.anchor("R13.1", "FilterSet::insert_filter", 1, 1):
        cs = [c for c in b.live_calls() if c.callee == "util::split_vec::SplitVec::insert"]
        ok = len(cs) == 1 and {z.label() for z in b.prov.op_src(cs[0].args[1])} == {"param:" + b.param_name(2)} and \
            {z.label() for z in b.prov.op_src(cs[0].args[2])} == {"param:" + b.param_name(3)} and \
            {z.label() for z in b.prov.op_src(cs[0].args[0])} == {"param:self.filters"}
        ctx.check(ok, "R13.1", ["insert_filter", "forwards"], "insert_filter does not forward (filter, inclusive) to self.filters.insert", b.where(0))
        if len(cs) == 1:
            ctx.check(all(b.dominates(cs[0].bb, r) for r in b.returns), "R13.1", ["insert_filter", "every-filter-is-stored"],
                      "insert_filter can return without storing the filter it was given (a filter that is dropped no longer excludes or selects the paths it matches)", cs[0].line())
    filter_is_match_rule(ctx, "R13.1", prog, crate)
    # CLI wiring
    b = prog.body("divan::Divan::config_with_args", crate)
    if ctx.anchor("R13.1", "Divan::config_with_args", 1 if b else 0, 1):
        ctx.saw(b)
        for fn, want in (("include", "filter"), ("exclude", "skip")):
            cs = [c for c in b.live_calls() if c.callee == "config::filter::FilterSet::" + fn]
            if ctx.check(len(cs) == 1, "R13.1", ["cli", fn, "one-site"], "%s sites: %d" % (fn, len(cs)), b.where(0)):
                ids = str_consts(b.prov.op_src(cs[0].args[1])) & {"filter", "skip"}
                ctx.check(ids == {want}, "R13.1", ["cli", fn, "from-" + want], "CLI values of %s go to FilterSet::%s (expected `%s`)" % (sorted(ids), fn, want), cs[0].line(),
                          detail={"option": sorted(ids), "goes_to": fn})
                recv = {z.label() for z in b.prov.op_src(cs[0].args[0]) if z.kind == "param"}
                ctx.check(recv == {"param:self.filters"}, "R13.1", ["cli", fn, "into-self.filters"], "receiver %s" % sorted(recv), cs[0].line())
                # one Filter per command-line value: the call sits in a loop over the option's values, runs once per
                # value, and its argument is made from that value alone (values are never merged into one pattern)
                c = cs[0]
                lp = b.innermost_loop(c.bb)
                okl = lp is not None and b.once_per_iteration(c.bb, lp)
                item_ok = False
                if okl:
                    from lib.symexpr import Sym
                    e = Sym(b, site_args=True).op(c.args[1])
                    # parse_filter(<payload of this loop's next()>)
                    if e[0] == "site" and len(e) > 3 and len(e[3]) == 2:
                        a = e[3][1]
                        if a[0] == "tuple" and len(a[1]) == 1:
                            a = a[1][0]
                        item_ok = a[0] == "payload" and a[1] == "Some" and a[3][0] == "site" and a[3][1].endswith("::next") and a[3][2] in lp["body"]
                        if item_ok:
                            # ... and the loop runs over clap's values of that option themselves (no map/collect/join in between)
                            it = a[3][3][0] if a[3][3] else ("opaque", "")
                            while it[0] in ("ptr", "sptr"):
                                break
                            seen_getter = False
                            cur = it
                            for _ in range(6):
                                if cur[0] == "site" and "into_iter" in cur[1] and cur[3]:
                                    cur = cur[3][0]
                                    continue
                                if cur[0] == "payload" and cur[1] == "Some":
                                    cur = cur[3]
                                    continue
                                if cur[0] == "site" and cur[1] in ("clap::ArgMatches::remove_many", "clap::ArgMatches::get_many"):
                                    seen_getter = True
                                break
                            item_ok = seen_getter
                ctx.check(okl and item_ok, "R13.1", ["cli", fn, "one-filter-per-value"],
                          "FilterSet::%s is not called exactly once per command-line value with a filter made from that value alone" % fn, c.line())
        # parse_filter closure
        pf = [x for x in prog.children(b) if x.kind == "Closure" and any(s["k"] == "assign" and s["rv"]["k"] == "agg" and s["rv"].get("adt", "").endswith("config::filter::Filter")
                                                                         for bi, si, s in x.stmts())]
        if ctx.check(len(pf) == 1, "R13.1", ["cli", "parse_filter"], "parse_filter closures: %d" % len(pf), b.where(0)):
            x = pf[0]
            ctx.saw(x)
            # the pattern compiled / the exact text stored is the value itself
            rn = [c for c in x.live_calls() if c.callee.endswith("Regex::new")]
            if ctx.check(len(rn) == 1, "R13.1", ["cli", "parse_filter", "one-Regex::new"], "Regex::new sites: %d" % len(rn), x.where(0)):
                srcs = x.prov.op_src(rn[0].args[0])
                other = sorted({z.a for z in srcs if z.kind == "call" and not z.a.endswith(("Deref>::deref", "::as_str", "::as_ref", "::borrow"))} |
                               {z.label() for z in srcs if z.kind in ("upvar", "const", "static")})
                ctx.check({z.label() for z in srcs if z.kind == "param"} == {"param:" + x.param_name(2)} and not other, "R13.1", ["cli", "parse_filter", "pattern-is-the-value"],
                          "the compiled pattern derives from %s besides the value itself" % other, rn[0].line())
            for bi_, si_, s_ in x.stmts():
                if s_["k"] == "assign" and s_["rv"]["k"] == "agg" and s_["rv"].get("variant") == "Exact":
                    lab = {z.label() for z in x.prov.op_src(s_["rv"]["ops"][0])}
                    ctx.check(lab == {"param:" + x.param_name(2)}, "R13.1", ["cli", "parse_filter", "exact-text-is-the-value"], "Filter::Exact holds %s" % sorted(lab), x.where(bi_))
            sw = [(bi, t) for bi, t in x.switches() if any(z.kind == "upvar" for z in x.prov.op_src(t["discr"])) and not any(z.kind in ("binop", "unop", "call") for z in x.prov.op_src(t["discr"]))]
            if ctx.check(len(sw) == 1, "R13.1", ["cli", "parse_filter", "branch-on-flag"], "branches on a captured flag: %d" % len(sw), x.where(0)):
                bi, t = sw[0]
                zero = [a[1] for a in t["arms"] if a[0] == "0"][0]
                tv = {s["rv"]["variant"] for y in tables.exclusive_blocks(x, t["otherwise"], [zero]) for s in x.blocks[y]["stmts"]
                      if s["k"] == "assign" and s["rv"]["k"] == "agg" and s["rv"].get("adt", "").endswith("config::filter::Filter")}
                fv = {s["rv"]["variant"] for y in tables.exclusive_blocks(x, zero, [t["otherwise"]]) for s in x.blocks[y]["stmts"]
                      if s["k"] == "assign" and s["rv"]["k"] == "agg" and s["rv"].get("adt", "").endswith("config::filter::Filter")}
                ctx.check(tv == {"Exact"} and fv == {"Regex"}, "R13.1", ["cli", "parse_filter", "exact-iff-flag"],
                          "flag set -> %s, flag unset -> %s" % (sorted(tv), sorted(fv)), x.where(bi), detail={"flag": sorted(tv), "no-flag": sorted(fv)})
                # the flag is get_flag("exact")
                up = [z for z in x.prov.op_src(t["discr"]) if z.kind == "upvar"][0]
                cap = None
                for cn in x.captures or []:
                    if cn.lstrip("*") == up.a.lstrip("*"):
                        cap = prog.capture_operand(x, cn)
                if cap:
                    ids = str_consts(cap[0].prov.op_src(cap[1]))
                    ctx.check(ids == {"exact"}, "R13.1", ["cli", "parse_filter", "flag-is-exact"], "the flag comes from option %s" % sorted(ids), x.where(bi))
    for fn, variant in (("skip_regex", "Regex"), ("skip_exact", "Exact")):
        bs = prog.find("Divan::" + fn, crate)
        if not ctx.anchor("R13.1", "Divan::" + fn, bs, 1):
            continue
        m = bs[0]
        cs = [c.callee.rsplit("::", 1)[-1] for c in m.live_calls() if c.callee.startswith("config::filter::FilterSet::")]
        vs = {s["rv"]["variant"] for bi, si, s in m.stmts() if s["k"] == "assign" and s["rv"]["k"] == "agg" and s["rv"].get("adt", "").endswith("config::filter::Filter")}
        ctx.check(cs == ["exclude"] and vs == {variant}, "R13.1", ["builder", fn], "Divan::%s calls %s with Filter::%s" % (fn, cs, sorted(vs)), m.where(0))


def _r13_2_two_halves(ctx, prog, crate, b):
    """The same decision over the two halves: `(exclusive, inclusive) = filters.split()`; any exclusive filter matches ->
    false; otherwise true exactly when there is no inclusive filter or one of them matches. (The exclusive half comes
    first, so "the first matching filter is an exclusive one" and "some exclusive filter matches" are the same event.)"""
    from lib.patheval import PathEval
    from lib.symexpr import show
    SPLIT = "util::split_vec::SplitVec::split"
    sums = PathEval(b).run()
    if not ctx.check(bool(sums), "R13.2", ["is_match", "summarisable"], "FilterSet::is_match has a loop or too many paths", b.where(0)):
        return

    def half(e):
        """0 / 1 when e is `.iter()` of (or directly) field 0 / 1 of split(self.filters)."""
        if e[0] == "site" and e[1].rsplit("::", 1)[-1] in ("iter", "into_iter") and len(e[3]) == 1:
            e = e[3][0]
        if e[0] == "field" and e[1][0] == "site" and e[1][1] == SPLIT and e[1][3] == (("sptr", (1, ("filters",))),) and e[2] in ((0,), (1,)):
            return e[2][0]
        return None

    def any_of(e):
        if e[0] == "site" and e[1].rsplit("::", 1)[-1] == "any" and "Iterator" in e[1] and len(e[3]) == 2:
            return half(e[3][0])
        return None

    def empty_of(e):
        if e[0] == "site" and e[1].rsplit("::", 1)[-1] == "is_empty" and len(e[3]) == 1:
            return half(e[3][0])
        return None
    rows = set()
    for sm in sums:
        cond = []
        for a, pol in sm.conds:
            x = a[1] if a[0] == "bool" else None
            if x is not None and any_of(x) is not None:
                cond.append(("any%d" % any_of(x), pol))
            elif x is not None and empty_of(x) is not None:
                cond.append(("empty%d" % empty_of(x), pol))
            else:
                cond.append(("?" + show(a), pol))
        r = sm.ret
        res = {("int", 0): "false", ("int", 1): "true"}.get(r) or ("any%d" % any_of(r) if any_of(r) is not None else None) or \
            ("empty%d" % empty_of(r) if empty_of(r) is not None else "?" + show(r))
        rows.add((tuple(cond), res))
    want_a = {((("any0", True),), "false"), ((("any0", False), ("empty1", True)), "true"), ((("any0", False), ("empty1", False)), "any1")}
    want_b = {((("any0", True),), "false"), ((("any0", False), ("any1", True)), "true"), ((("any0", False), ("any1", False)), "empty1")}
    ctx.check(rows in (want_a, want_b), "R13.2", ["is_match", "two-halves-table"],
              "FilterSet::is_match decides %s; expected: any exclusive match -> false; else no inclusive filters or any inclusive match" % sorted(rows), b.where(0), detail=sorted(map(str, rows)))
    # each `any` predicate is |f| f.is_match(entry_path)
    cls = [x for x in prog.children(b) if x.kind == "Closure"]
    ctx.check(len(cls) in (1, 2), "R13.2", ["is_match", "predicate-closure"], "closures: %d" % len(cls), b.where(0))
    for x in cls:
        cs = [c for c in x.live_calls() if c.callee == "config::filter::Filter::is_match"]
        ok = len(cs) == 1 and len(x.live_calls()) == 1 and {z.label() for z in x.prov.op_src(cs[0].args[0]) if z.kind == "param"} == {"param:" + x.param_name(2)}
        if ok:
            cap = prog.capture_operand(x, x.captures[0]) if x.captures else None
            ok = cap is not None and {z.label() for z in cap[0].prov.op_src(cap[1])} == {"param:" + b.param_name(2)} and \
                any(z.kind == "upvar" for z in x.prov.op_src(cs[0].args[1])) and not any(z.kind in ("unop", "binop") for z in x.prov.local_src(0))
        ctx.check(ok, "R13.2", ["is_match", "predicate-is-filter-match-on-path"], "an `any` predicate is not |f| f.is_match(entry_path)", x.where(0))
    # split() = items.split_at(split_index): exclusive filters first
    sp = prog.body(SPLIT, crate)
    if ctx.anchor("R13.2", "SplitVec::split", 1 if sp else 0, 1):
        ctx.saw(sp)
        ss = PathEval(sp).run()
        r = ss[0].ret if ss and len(ss) == 1 else None
        ok = r is not None and r[0] == "site" and r[1] == "core::slice::split_at" and len(r[3]) == 2 and "items" in str(ss[0].calls[0][1] if ss[0].calls else "") and \
            (r[3][1] == ("arg", 1, ("split_index",)) or (r[3][1][0] == "site" and r[3][1][1] == "util::split_vec::SplitVec::split_index" and r[3][1][3] == (("sptr", (1, ())),)))
        ctx.check(ok, "R13.2", ["SplitVec::split", "split-at-stored-index"], "SplitVec::split returns %s, expected items.split_at(split_index)" % (show(r) if r else None), sp.where(0))
    for n_ in ("split_index", "set_split_index"):
        x = prog.body("util::split_vec::SplitVec::" + n_, crate)
        if x is None:
            continue
        ctx.saw(x)
        sx = PathEval(x).run()
        if n_ == "split_index":
            ctx.check(bool(sx) and all(s_.ret == ("arg", 1, ("split_index",)) for s_ in sx), "R13.2", ["SplitVec::split_index", "stored-index"], "SplitVec::split_index returns %s" % ([s_.ret for s_ in sx] if sx else None,), x.where(0))
        else:
            ctx.check(bool(sx) and len(sx) == 1 and sx[0].mem == {(1, ("split_index",)): ("arg", 2, ())}, "R13.2", ["SplitVec::set_split_index", "stores-its-argument"], "SplitVec::set_split_index writes %s" % (sx[0].mem if sx else None,), x.where(0))


def r13_2(ctx, prog, crate):
    b = prog.body("config::filter::FilterSet::is_match", crate)
    if not ctx.anchor("R13.2", "FilterSet::is_match", 1 if b else 0, 1):
        return
    ctx.saw(b)
    pos = [c for c in b.live_calls() if c.callee.endswith("::position")]
    al = [c for c in b.live_calls() if c.callee == "util::split_vec::SplitVec::all"]
    si = [c for c in b.live_calls() if c.callee == "util::split_vec::SplitVec::split_index"]
    if not pos and any(c.callee == "util::split_vec::SplitVec::split" for c in b.live_calls()):
        return _r13_2_two_halves(ctx, prog, crate, b)
    if not ctx.check(len(pos) == 1 and len(al) == 1 and len(si) == 1, "R13.2", ["is_match", "shape"], "position x%d all x%d split_index x%d" % (len(pos), len(al), len(si)), b.where(0)):
        return
    ctx.check(any(z.kind == "call" and z.b == al[0].bb for z in b.prov.op_src(pos[0].args[0])) and nophi(b.prov.op_src(pos[0].args[0])), "R13.2", ["is_match", "searches-all-filters"],
              "position() does not search filters.all()", pos[0].line())
    sw = tables.switch_on_call_result(b, pos[0])
    if sw is None and _r13_2_map_or(ctx, prog, crate, b, pos[0], al[0], si[0]):
        return _r13_2_accessors(ctx, prog, crate)
    if not ctx.check(sw is not None, "R13.2", ["is_match", "match-on-position"], "no match on the position() result", pos[0].line()):
        return
    bi, t = sw
    arms, otherwise = tables.arm_targets(t)
    some_t, none_t = arms.get(1, otherwise), arms.get(0, otherwise)
    # what is returned on the matched / unmatched paths, as canonical comparisons (any spelling: `index >= split`,
    # `split <= index`, `!(index < split)`; `len == split` with the operands in either order)
    from lib.patheval import PathEval
    from lib.symexpr import canon_cmp, show

    def cls(e):
        if e[0] == "payload" and e[3][0] == "site" and e[3][2] == pos[0].bb:
            return "index"
        if e[0] == "site" and e[2] == si[0].bb:
            return "split"
        if e[0] in ("call", "site") and e[1].rsplit("::", 1)[-1] == "len":
            a = e[2] if e[0] == "call" else e[3]
            if a and a[0][0] == "site" and a[0][2] == al[0].bb:
                return "len"
            if a and a[0][0] in ("ptr", "sptr") and isinstance(a[0][1][0], tuple) and a[0][1][0][0] == "ret" and a[0][1][0][2] == al[0].bb and not a[0][1][1]:
                return "len"
        return "?(%s)" % show(e)
    sums = PathEval(b).run()
    res = {"matched": set(), "unmatched": set()}
    if ctx.check(sums is not None and sums, "R13.2", ["is_match", "summarisable"], "FilterSet::is_match has a loop or too many paths", b.where(0)):
        for sm in sums:
            d = [a for a, p in sm.conds if a[0] == "discr" and a[1][0] == "site" and a[1][2] == pos[0].bb]
            if not d:
                res["matched"].add("returns without looking at position()")
                res["unmatched"].add("returns without looking at position()")
                continue
            row = "matched" if d[0][2] == 1 else "unmatched"
            e = sm.ret
            neg = False
            while e[0] == "un" and e[1] == "Not":
                e, neg = e[2], not neg
            atom, pol = canon_cmp(e, unsigned=False)
            if atom is None:
                res[row].add("returns %s" % show(sm.ret))
            else:
                res[row].add(("%s" if (pol != neg) else "not %s") % ("%s(%s, %s)" % (atom[0], cls(atom[1]), cls(atom[2]))))
    ctx.check(res["matched"] == {"not Lt(index, split)"}, "R13.2", ["is_match", "matched-row"],
              "when a filter matches the result is %s, expected index >= split (the inclusive half)" % sorted(res["matched"]), b.where(some_t), detail=sorted(res["matched"]))
    ctx.check(res["unmatched"] in ({"Eq(len, split)"}, {"Eq(split, len)"}), "R13.2", ["is_match", "unmatched-row"],
              "when nothing matches the result is %s, expected len == split (no inclusive filters)" % sorted(res["unmatched"]), b.where(none_t), detail=sorted(res["unmatched"]))
    # position closure: Filter::is_match(f, entry_path)
    cl = [x for x in prog.children(b) if x.kind == "Closure"]
    if ctx.check(len(cl) == 1, "R13.2", ["is_match", "predicate-closure"], "closures: %d" % len(cl), b.where(0)):
        x = cl[0]
        cs = [c for c in x.live_calls() if c.callee == "config::filter::Filter::is_match"]
        ok = len(cs) == 1 and {z.label() for z in x.prov.op_src(cs[0].args[0]) if z.kind == "param"} == {"param:" + x.param_name(2)}
        if ok:
            up = [z for z in x.prov.op_src(cs[0].args[1]) if z.kind == "upvar"]
            cap = prog.capture_operand(x, x.captures[0]) if x.captures else None
            ok = bool(up) and cap is not None and {z.label() for z in cap[0].prov.op_src(cap[1])} == {"param:" + b.param_name(2)}
            d = direct_place(x, {"k": "copy", "p": {"l": 0, "proj": [], "ty": ""}})
            ok = ok and not any(z.kind in ("unop", "binop") for z in x.prov.local_src(0))
        ctx.check(ok, "R13.2", ["is_match", "predicate-is-filter-match-on-path"], "the position predicate is not |f| f.is_match(entry_path)", x.where(0))
    _r13_2_accessors(ctx, prog, crate)


def _r13_2_map_or(ctx, prog, crate, b, pos, al, si):
    """`position(..).map_or(len == split, |index| index >= split)`: the same two rows as the match, as a combinator."""
    from lib.patheval import PathEval
    from lib.symexpr import canon_cmp
    sums = PathEval(b).run()
    if not sums or len(sums) != 1 or sums[0].conds:
        return False
    r = sums[0].ret
    if not (r[0] == "site" and r[1] == "std::option::Option::map_or" and len(r[3]) == 3):
        return False
    src, dflt, _clo = r[3]
    if not (src[0] == "site" and src[2] == pos.bb):
        return False
    split = ("site", "util::split_vec::SplitVec::split_index", si.bb, (("sptr", (1, ("filters",))),))
    atom, pol = canon_cmp(dflt, unsigned=False)
    ok_d = atom is not None and pol and atom[0] == "Eq" and split in atom[1:] and any(
        x[0] in ("call", "site") and x[1].rsplit("::", 1)[-1] == "len" and ("'ret', 'util::split_vec::SplitVec::all', %d" % al.bb) in str(x) for x in atom[1:])
    ctx.check(ok_d, "R13.2", ["is_match", "unmatched-row"], "when nothing matches the result is not len == split (no inclusive filters)", pos.line())
    # the mapping closure: index >= split, with split the captured split_index()
    mo = [c for c in b.live_calls() if c.callee == "std::option::Option::map_or"]
    clo = None
    if len(mo) == 1 and len(mo[0].args) == 3 and mo[0].args[2].get("k") in ("copy", "move"):
        for d in b.prov.defs.get(mo[0].args[2]["p"]["l"], []):
            if d[0] == "S" and d[3]["rv"]["k"] == "agg" and d[3]["rv"].get("ak") == "closure":
                clo = prog.bodies.get((b.crate, norm(d[3]["rv"]["def"]), -1))
                cap = d[3]["rv"]["ops"]
    ok_m = False
    if clo is not None:
        cs = PathEval(clo).run()
        if cs and len(cs) == 1 and not cs[0].conds:
            a2, p2 = canon_cmp(cs[0].ret, unsigned=False)
            idx, up = ("arg", 2, ()), ("upvar", 0, (0,))
            # index >= split  ==  not (index < split)
            ok_m = a2 is not None and a2 == ("Lt", idx, up) and p2 is False
            ok_m = ok_m and len(cap) == 1 and any(z.kind == "call" and z.b == si.bb for z in b.prov.op_src(cap[0]))
    ctx.check(ok_m, "R13.2", ["is_match", "matched-row"], "when a filter matches the result is not index >= split (the inclusive half)", pos.line())
    # the position predicate
    pcl = None
    if len(pos.args) == 2 and pos.args[1].get("k") in ("copy", "move"):
        for d in b.prov.defs.get(pos.args[1]["p"]["l"], []):
            if d[0] == "S" and d[3]["rv"]["k"] == "agg" and d[3]["rv"].get("ak") == "closure":
                pcl = prog.bodies.get((b.crate, norm(d[3]["rv"]["def"]), -1))
    okp = False
    if pcl is not None:
        cs = [c for c in pcl.live_calls() if c.callee == "config::filter::Filter::is_match"]
        okp = len(cs) == 1 and len(pcl.live_calls()) == 1 and {z.label() for z in pcl.prov.op_src(cs[0].args[0]) if z.kind == "param"} == {"param:" + pcl.param_name(2)}
        capo = prog.capture_operand(pcl, pcl.captures[0]) if okp and pcl.captures else None
        okp = okp and capo is not None and {z.label() for z in capo[0].prov.op_src(capo[1])} == {"param:" + b.param_name(2)}
    ctx.check(okp, "R13.2", ["is_match", "predicate-is-filter-match-on-path"], "the position predicate is not |f| f.is_match(entry_path)", pos.line())
    ctx.check(any(z.kind == "call" and z.b == al.bb for z in b.prov.op_src(pos.args[0])), "R13.2", ["is_match", "searches-all-filters"], "position() does not search filters.all()", pos.line())
    return True


def _r13_2_accessors(ctx, prog, crate):
    # the accessors is_match and insert rely on: all() is the whole items slice, split_index() the stored index, set_split_index stores its argument
    from lib.patheval import PathEval as _PE
    SV = "util::split_vec::SplitVec::"
    acc = {n_: prog.body(SV + n_, crate) for n_ in ("all", "split_index", "set_split_index")}
    if ctx.anchor("R13.2", "SplitVec accessors", sum(1 for x in acc.values() if x), 3):
        for x in acc.values():
            ctx.saw(x)
        sa = _PE(acc["all"]).run()
        ok = bool(sa) and len(sa) == 1 and sa[0].ret[0] in ("sptr", "ptr") and isinstance(sa[0].ret[1][0], tuple) and sa[0].ret[1][0][0] == "ret" and \
            sa[0].ret[1][0][1].endswith("Deref>::deref") and not sa[0].ret[1][1] and len(sa[0].calls) == 1 and sa[0].calls[0][1] == (("sptr", (1, ("items",))),)
        ok = ok or (bool(sa) and len(sa) == 1 and sa[0].ret[0] == "site" and sa[0].ret[1].endswith(("Vec::as_slice", "Deref>::deref")) and sa[0].ret[3] == (("sptr", (1, ("items",))),))
        ctx.check(ok, "R13.2", ["SplitVec::all", "whole-slice"], "SplitVec::all returns %s, expected the whole items slice (both halves: skip filters first)" % (sa[0].ret if sa else None,), acc["all"].where(0))
        si_ = _PE(acc["split_index"]).run()
        ctx.check(bool(si_) and all(s_.ret == ("arg", 1, ("split_index",)) for s_ in si_), "R13.2", ["SplitVec::split_index", "stored-index"],
                  "SplitVec::split_index returns %s" % ([s_.ret for s_ in si_] if si_ else None,), acc["split_index"].where(0))
        ss_ = _PE(acc["set_split_index"]).run()
        ctx.check(bool(ss_) and len(ss_) == 1 and ss_[0].mem == {(1, ("split_index",)): ("arg", 2, ())}, "R13.2", ["SplitVec::set_split_index", "stores-its-argument"],
                  "SplitVec::set_split_index writes %s" % (ss_[0].mem if ss_ else None,), acc["set_split_index"].where(0))
    # SplitVec::insert
    ins = prog.body("util::split_vec::SplitVec::insert", crate)
    if ctx.anchor("R13.2", "SplitVec::insert", 1 if ins else 0, 1):
        ctx.saw(ins)
        ssi = [c for c in ins.live_calls() if c.callee == "util::split_vec::SplitVec::set_split_index"]
        flag_sw = []
        for sb, tt in ins.switches():
            d = direct_place(ins, tt["discr"])
            neg = False
            if d and d[0] == "rvalue" and d[1]["k"] == "unop" and d[1]["op"] == "Not":
                d = direct_place(ins, d[1]["o"])
                neg = True
            if d and d[0] == "place" and d[1] == 3 and d[2] == ():
                zero = [a[1] for a in tt["arms"] if a[0] == "0"][0]
                # (switch bb, target when after_split, target when !after_split)
                flag_sw.append((sb, zero if neg else tt["otherwise"], tt["otherwise"] if neg else zero))
        sw2 = [x for x in flag_sw if ssi and ssi[0].bb in tables.exclusive_blocks(ins, x[2], [x[1]])]
        sel_sw = [x for x in flag_sw if x not in sw2]
        ok = len(sw2) == 1 and len(ssi) == 1
        if ok:
            sb, t_after, t_before = sw2[0]
            ok = ssi[0].bb not in ins.reach([t_after], avoid=[t_before])
            srcs = ins.prov.op_src(ssi[0].args[1])
            ok = ok and any(z.kind == "call" and z.a == "util::split_vec::SplitVec::split_index" for z in srcs) and \
                any(z.kind == "const" and z.a.startswith("1_") for z in srcs) and all(z.a in ("Add", "AddWithOverflow") for z in srcs if z.kind == "binop")
        ctx.check(ok, "R13.2", ["SplitVec::insert", "exclusive-half-grows-split"],
                  "inserting before the split does not (only) increment the split index by one", ins.where(0))
        # the slot written: select between last_ptr (after_split) and split_ptr
        wr = [c for c in ins.live_calls() if c.callee.endswith("::write")]
        sl = [c for c in ins.live_calls() if c.callee.endswith("::set_len")]
        ok = len(wr) == 1 and len(sl) == 1
        if ok:
            srcs = ins.prov.op_src(sl[0].args[1])
            ok = any(z.kind == "call" and z.a.endswith("::len") for z in srcs) and any(z.kind == "const" and z.a.startswith("1_") for z in srcs)
            ok = ok and not (set(ins.returns) & ins.reach([0], avoid=[wr[0].bb])) and not (set(ins.returns) & ins.reach([0], avoid=[sl[0].bb]))
        ctx.check(ok, "R13.2", ["SplitVec::insert", "writes-one-slot-and-grows-by-one"], "insert does not write exactly one slot and set_len(old_len + 1)", ins.where(0))
        # value slot selection: after_split -> add(old_len) ; else add(old_split)
        if ctx.check(len(sel_sw) == 1, "R13.2", ["SplitVec::insert", "slot-selection"], "slot selections on after_split: %d" % len(sel_sw), ins.where(0)):
            sb, t_after, t_before = sel_sw[0]

            def slot_src(tgt, other):
                out = set()
                for y in tables.exclusive_blocks(ins, tgt, [other]):
                    for s in ins.blocks[y]["stmts"]:
                        if s["k"] == "assign" and s["rv"]["k"] == "use" and "*mut" in s["p"]["ty"]:
                            for z in ins.prov.op_src(s["rv"]["o"]):
                                if z.kind == "call" and z.a.endswith("::len"):
                                    out.add("len")
                                if z.kind == "call" and z.a == "util::split_vec::SplitVec::split_index":
                                    out.add("split")
                return out
            ctx.check(slot_src(t_after, t_before) == {"len"} and slot_src(t_before, t_after) == {"split"}, "R13.2", ["SplitVec::insert", "inclusive-at-end-exclusive-at-split"],
                      "after_split writes at %s, !after_split at %s (expected end / split position)" % (sorted(slot_src(t_after, t_before)), sorted(slot_src(t_before, t_after))), ins.where(sb))
            # the write goes to the selected slot
            if wr:
                ws = ins.prov.op_src(wr[0].args[0])
                ctx.check(any(z.kind == "call" and z.a.endswith("::len") for z in ws) and any(z.kind == "call" and z.a == "util::split_vec::SplitVec::split_index" for z in ws),
                          "R13.2", ["SplitVec::insert", "writes-selected-slot"], "the value is not written to the selected slot", wr[0].line())
    spi = prog.body("util::split_vec::SplitVec::split_index", crate)
    if ctx.anchor("R13.2", "SplitVec::split_index", 1 if spi else 0, 1):
        r = {z.label() for z in spi.prov.local_src(0) if z.kind == "param"}
        ctx.check(r == {"param:self.split_index"}, "R13.2", ["SplitVec::split_index", "returns-field"], "split_index() returns %s" % sorted(r), spi.where(0))


def _cls(b, op, pos, si, al):
    srcs = b.prov.op_src(op)
    calls = {z.b for z in srcs if z.kind == "call"}
    names = {z.a for z in srcs if z.kind == "call"}
    if pos.bb in calls and si.bb not in calls:
        return "index"
    if si.bb in calls and pos.bb not in calls and not any(n.endswith("::len") for n in names):
        return "split"
    if any(n.endswith("::len") for n in names) and al.bb in calls and pos.bb not in calls and si.bb not in calls:
        return "len"
    return "?"


def _retain_buffer_form(ctx, prog, crate, b, kb):
    """EntryTree::retain with the path kept in ONE String threaded through the recursion (push the node's piece, look,
    truncate back) instead of a fresh `format!` per node. Decided on the path summaries of the per-node closure and of
    the per-argument closure (lib/patheval): the content of the buffer, relative to its content P on entry, at every
    point where it is looked at (filter call, recursion) is P [+ "::" exactly when P is non-empty] + display_name(node)
    [+ "::" + argument], and it is P again when the closure returns - so every sibling and every argument starts from
    the same prefix, by induction over the recursion. The node's fate is read off the same summaries."""
    from lib.patheval import PathEval
    from lib.symexpr import show
    S_ = "std::string::String::"
    BUF = ("upvar", 0, (kb,))
    par = prog.parent_body(b)
    MUT = ("clear", "push", "insert", "insert_str", "pop", "remove", "drain", "retain", "replace_range", "extend", "split_off")
    # the entry length: a capture that the enclosing function computed as len() of the buffer, which it does not modify itself
    ke = None
    for k, cn in enumerate(b.captures or []):
        cp = prog.capture_operand(b, cn)
        if cp and k != kb and any(z.kind == "call" and z.a == S_ + "len" for z in cp[0].prov.op_src(cp[1])) and "usize" in ((cp[1].get("p") or {}).get("ty") or "usize"):
            ke = k
    par_calls = par.live_calls() if par is not None else []
    par_mut = [c for c in par_calls if c.callee.startswith(S_) and c.callee.rsplit("::", 1)[-1] in MUT + ("push_str", "truncate")]
    rm_ = [c for c in par_calls if c.callee in ("std::vec::Vec::retain_mut", "std::vec::Vec::retain")]
    len_ = [c for c in par_calls if c.callee == S_ + "len"]
    # the enclosing function may do one thing to the buffer itself: cut it back to its entry length after the pass
    par_restores = len(par_mut) == 1 and par_mut[0].callee == S_ + "truncate" and len(rm_) == 1 and len(len_) == 1 and par.dominates(rm_[0].bb, par_mut[0].bb) and \
        all(par.dominates(par_mut[0].bb, r_) for r_ in par.returns) and any(z.kind == "call" and z.b == len_[0].bb for z in par.prov.op_src(par_mut[0].args[1])) and \
        par.dominates(len_[0].bb, rm_[0].bb)
    if not ctx.check(ke is not None and (not par_mut or par_restores), "R13.3", ["retain", "buffer", "entry-length-captured"],
                     "the per-node closure does not capture the buffer's length on entry (or the enclosing function modifies the buffer itself: %s)" % [c.callee for c in par_mut], b.where(0)):
        return

    def simulate(x, buf, entry_len, sums, entry_sym="P", args_leave=None):
        """Per path: (summary, reads [(kind, content, bb)], final content, snapshots{bb: content}). The buffer starts as
        [entry_sym]; truncating to the entry length gives ["P"] (P is a prefix of whatever is there: every other cut is to
        a length taken later); after the per-argument pass it holds what that pass leaves (args_leave), if not restored."""
        out = []
        lens = [c for c in x.live_calls() if c.callee == S_ + "len"]
        for sm in sums:
            order = {}
            for i_, bb in enumerate(sm.blocks):
                order.setdefault(bb, i_)
            evs = []
            for callee, args, bb in sm.calls:
                last = callee.rsplit("::", 1)[-1]
                if callee.startswith(S_) and args and args[0] == buf:
                    if last == "push_str":
                        a = args[1]
                        piece = "::" if a == ("opaque", 'const:"::"') else ("name" if a[0] in ("sptr", "ptr") and isinstance(a[1][0], tuple) and a[1][0][:2] == ("ret", "entry::tree::EntryTree::display_name") else
                                                                            ("arg" if a in (("sptr", (2, ())), ("arg", 2, ())) or (a[0] == "sptr" and a[1] == (2, ())) else "?" + show(a)))
                        evs.append((order[bb], "push", piece, bb))
                    elif last == "truncate":
                        evs.append((order[bb], "trunc", args[1], bb))
                    elif last in MUT:
                        evs.append((order[bb], "bad", last, bb))
                elif callee == "entry::tree::EntryTree::retain::retain" and buf in args:
                    evs.append((order[bb], "read", "recursion", bb))
                elif callee.startswith("std::ops::Fn") and len(args) == 2 and "Deref>::deref" in str(args[1]):
                    evs.append((order[bb], "read", "filter", bb))
                elif callee in ("std::vec::Vec::retain", "std::vec::Vec::retain_mut") and buf in (args[1][1] if len(args) > 1 and args[1][0] == "tuple" else ()):
                    evs.append((order[bb], "read", "args", bb))
            for c in lens:
                if c.bb in order and c.args and {z.label() for z in x.prov.op_src(c.args[0]) if z.kind == "upvar"}:
                    evs.append((order[c.bb], "len", None, c.bb))
            evs.sort(key=lambda e: e[0])
            content, snaps, reads = [entry_sym], {}, []
            for _o, kind, val, bb in evs:
                if kind == "push":
                    content = content + [val]
                elif kind == "len":
                    snaps[bb] = list(content)
                elif kind == "trunc":
                    if val == entry_len:
                        content = ["P"]
                    elif val[0] == "call" and val[1] == S_ + "len" and len(snaps) == 1:
                        content = list(list(snaps.values())[0])
                    else:
                        content = ["?truncate(%s)" % show(val)]
                elif kind == "bad":
                    content = ["?" + val]
                else:
                    reads.append((val, list(content), bb))
                    if val == "args" and args_leave is not None:
                        content = list(args_leave)
            out.append((sm, reads, content, snaps))
        return out
    sums = PathEval(b, max_paths=4000).run()
    if not ctx.check(bool(sums), "R13.3", ["retain", "buffer", "paths"], "cannot enumerate the paths of the per-node closure", b.where(0)):
        return
    EL = ("upvar", 0, (ke,))
    # what the per-argument pass leaves behind: the node's path when each argument restores it, anything otherwise
    acls0 = [x_ for x_ in prog.children(b) if x_.kind == "Closure"]
    args_leave = ["?left-by-the-argument-pass"]
    if len(acls0) == 1:
        x0 = acls0[0]
        kb0 = kl0 = None
        for k, cn in enumerate(x0.captures or []):
            cp = prog.capture_operand(x0, cn)
            ty = ((cp[1].get("p") or {}).get("ty") or "") if cp else ""
            if "String" in ty:
                kb0 = k
            elif cp and any(z.kind == "call" and z.a == S_ + "len" for z in cp[0].prov.op_src(cp[1])):
                kl0 = k
        if kb0 is not None and kl0 is not None:
            fin0 = [f_ for _sm, _r, f_, _s in simulate(x0, ("upvar", 0, (kb0,)), ("upvar", 0, (kl0,)), PathEval(x0).run() or [])]
            if fin0 and all(f_ == ["P"] for f_ in fin0):
                args_leave = None       # restored: the node's path again
    # discipline A: every node restores the parent's path before it returns (then it also starts from it);
    # discipline B: every node first cuts back to the parent's path, and the enclosing function cuts back once at the end
    finals_a = [f_ for _sm, _r, f_, _s in simulate(b, BUF, EL, sums, "P", args_leave)]
    disc_a = all(f_ == ["P"] for f_ in finals_a)
    entry_sym = "P" if disc_a else "?left-by-the-previous-sibling"
    ctx.check(disc_a or par_restores, "R13.3", ["retain", "buffer", "restored-for-the-next-sibling"],
              "the per-node closure returns with the path buffer holding %s and the enclosing function does not cut it back to the parent's path either" %
              sorted({str(f_) for f_ in finals_a if f_ != ["P"]}), b.where(0))
    acl_snap = None
    for sm, reads, final, snaps in simulate(b, BUF, EL, sums, entry_sym, args_leave):
        empty = None
        for a, pol in sm.conds:
            if a[0] == "Eq" and set(a[1:]) == {("int", 0), EL}:
                empty = pol
            elif a[0] == "bool" and a[1][0] == "site" and a[1][1].endswith("::is_empty") and a[1][3] and (a[1][3][0] == BUF or "String" in a[1][1]):
                empty = pol
        want = ["P", "name"] if empty else ["P", "::", "name"]
        where = b.where(sm.blocks[-1])
        ctx.check(empty is not None, "R13.3", ["retain", "buffer", "separator-iff-parent-path-non-empty"],
                  "a path of the per-node closure does not decide on the parent path being empty (conditions %s)" % [show(a) for a, p_ in sm.conds][:4], where)
        ctx.check(len(reads) == 1, "R13.3", ["retain", "buffer", "one-look-per-node"], "the buffer is looked at %d times on a path of the per-node closure" % len(reads), where)
        for kind, content, bb in reads:
            ctx.check(content == want, "R13.3", ["retain", "filter-sees-display-path"],
                      "at the %s the path buffer holds %s, expected %s (P = the parent's path)" % (kind, content, want), b.where(bb), detail={"content": content})
            r = sm.ret
            if kind == "recursion":
                okp = r[0] == "un" and r[1] == "Not" and r[2][0] == "site" and r[2][1] == "std::vec::Vec::is_empty" and r[2][3] == (("sptr", (2, ("children",))),) and \
                    sm.blocks.index(r[2][2]) > sm.blocks.index(bb)
                ctx.check(okp, "R13.3", ["retain", "parent-kept-iff-children-remain"], "a group node's fate is %s, expected !children.is_empty() after filtering its children" % show(r), where)
            elif kind == "filter":
                ctx.check(r[0] == "site" and r[2] == bb, "R13.3", ["retain", "argless-leaf-kept-iff-filter"], "an argument-less leaf's fate is %s, expected the filter's answer" % show(r), where)
            else:
                oka = r[0] == "un" and r[1] == "Not" and r[2][0] == "site" and r[2][1] == "std::vec::Vec::is_empty" and "args" in str(r[2][3]) and sm.blocks.index(r[2][2]) > sm.blocks.index(bb)
                ctx.check(oka, "R13.3", ["retain", "leaf-with-args-kept-iff-args-remain"], "a leaf with arguments has the fate %s, expected !args.is_empty() after args.retain" % show(r), where)
                acl_snap = (content, snaps)
    kinds = {k_ for sm, reads, final, snaps in simulate(b, BUF, EL, sums, entry_sym, args_leave) for k_, c_, bb_ in reads}
    ctx.check(kinds == {"recursion", "filter", "args"}, "R13.3", ["retain", "buffer", "three-node-kinds"], "node kinds handled: %s" % sorted(kinds), b.where(0))
    # the per-argument closure
    acls = [x for x in prog.children(b) if x.kind == "Closure"]
    if not ctx.check(len(acls) == 1 and acl_snap is not None, "R13.3", ["retain", "per-argument-closure"], "per-argument closures: %d" % len(acls), b.where(0)):
        return
    x = acls[0]
    ctx.saw(x)
    kb2 = kl = None
    for k, cn in enumerate(x.captures or []):
        cp = prog.capture_operand(x, cn)
        ty = ((cp[1].get("p") or {}).get("ty") or "") if cp else ""
        if "String" in ty:
            kb2 = k
        elif cp and any(z.kind == "call" and z.a == S_ + "len" for z in cp[0].prov.op_src(cp[1])):
            kl = k
    node_content, snaps = acl_snap
    ok_len = kl is not None and len(snaps) == 1 and list(snaps.values())[0] == node_content
    ctx.check(kb2 is not None and ok_len, "R13.3", ["retain", "buffer", "argument-prefix-is-the-node-path"],
              "the per-argument closure is not given the buffer and its length taken when it holds the node's own path", x.where(0))
    if kb2 is None or kl is None:
        return
    xs = PathEval(x).run()
    arg_entry = "P" if args_leave is None else "?left-by-the-previous-argument"
    for sm, reads, final, _s in simulate(x, ("upvar", 0, (kb2,)), ("upvar", 0, (kl,)), xs or [], arg_entry):
        where = x.where(sm.blocks[-1])
        ok = len(reads) == 1 and reads[0][0] == "filter" and reads[0][1] == ["P", "::", "arg"]
        ctx.check(ok, "R13.3", ["retain", "argument-path-is-leaf-path-plus-argument"], "the filter sees %s for an argument, expected the node's path + \"::\" + the argument" % [r_[1] for r_ in reads], where)
        ctx.check(bool(reads) and sm.ret[0] == "site" and sm.ret[2] == reads[0][2], "R13.3", ["retain", "filter-once-per-argument"], "an argument's fate is not the filter's answer for it", where)
        # (an argument that does not restore the node's path must start by cutting back to it: then arg_entry is not "P"
        #  and the content above is only right if that cut came first)
    ctx.check(bool(xs), "R13.3", ["retain", "buffer", "argument-paths"], "cannot enumerate the paths of the per-argument closure", x.where(0))
    if par is not None:
        rm = [c for c in par.live_calls() if c.callee in ("std::vec::Vec::retain_mut", "std::vec::Vec::retain")]
        ctx.check(len(rm) == 1, "R13.3", ["retain", "applied-to-every-node"], "retain_mut sites: %d" % len(rm), par.where(0))
    # the buffer starts empty at the root
    root = prog.body("entry::tree::EntryTree::retain", crate)
    if root is not None:
        news = [c for c in root.live_calls() if c.callee in (S_ + "new", S_ + "with_capacity")]
        muts = [c for c in root.live_calls() if c.callee.startswith(S_) and c.callee.rsplit("::", 1)[-1] in MUT + ("push_str",)]
        ctx.check(len(news) == 1 and not muts, "R13.3", ["retain", "buffer", "starts-empty"], "the root call does not start from a fresh empty String", root.where(0))


def r13_3(ctx, prog, crate):
    cands = [b for b in prog.lib_bodies(crate) if b.path.startswith("entry::tree::EntryTree::retain") and b.kind == "Closure"
             and any(c.callee == "entry::tree::EntryTree::retain::retain" for c in b.live_calls())]
    if not ctx.check(len(cands) == 1, "R13.3", ["retain", "per-node-closure"], "per-node retain closures: %d" % len(cands), None):
        return
    b = cands[0]
    ctx.saw(b)
    for k_, cn_ in enumerate(b.captures or []):
        cp_ = prog.capture_operand(b, cn_)
        if cp_ and "&mut std::string::String" in ((cp_[1].get("p") or {}).get("ty") or ""):
            return _retain_buffer_form(ctx, prog, crate, b, k_)
    from .C14 import leaf_arm
    arms = leaf_arm(prog, b, crate)
    if not ctx.check(len(arms) == 1, "R13.3", ["retain", "match-on-node-kind"], "matches on the node kind: %d" % len(arms), b.where(0)):
        return
    bi, leaf, parent = arms[0]
    leaf_blocks = tables.exclusive_blocks(b, leaf, [parent])
    parent_blocks = tables.exclusive_blocks(b, parent, [leaf])
    fcalls = [c for c in b.live_calls() if c.is_fn_trait_call and c.name.startswith(("upvar:", "param:"))]
    rec = [c for c in b.live_calls() if c.callee == "entry::tree::EntryTree::retain::retain"]
    ar = [c for c in b.live_calls() if c.callee in ("std::vec::Vec::retain", "std::vec::Vec::retain_mut") and c.bb in leaf_blocks]
    ctx.check(len(fcalls) == 1 and fcalls[0].bb in leaf_blocks, "R13.3", ["retain", "filter-called-on-leaf-arm-only"],
              "the filter callback is called at %s (expected one site, on the Leaf arm)" % [("parent" if c.bb in parent_blocks else "leaf" if c.bb in leaf_blocks else "shared") for c in fcalls], b.where(bi))
    ctx.check(len(rec) == 1 and rec[0].bb in parent_blocks, "R13.3", ["retain", "parents-recurse"], "recursion is not confined to the Parent arm", b.where(bi))
    # Parent result = !children.is_empty() after the recursion
    pres = []
    for y in sorted(parent_blocks):
        for s in b.blocks[y]["stmts"]:
            if s["k"] == "assign" and s["p"]["l"] == 0:
                pres.append((y, s))
    ok = len(pres) == 1 and pres[0][1]["rv"]["k"] == "unop" and pres[0][1]["rv"]["op"] == "Not"
    if ok:
        d = direct_place(b, pres[0][1]["rv"]["o"])
        ok = d is not None and d[0] == "call" and d[1].callee == "std::vec::Vec::is_empty" and b.dominates(rec[0].bb, d[1].bb) if rec else False
        if ok:
            o = origins(b, d[1].args[0])
            o2 = origins(b, rec[0].args[0])
            ok = any("children" in [str(f) for f in x[2]] for x in o if x[0] == "place") and any("children" in [str(f) for f in x[2]] for x in o2 if x[0] == "place")
    ctx.check(ok, "R13.3", ["retain", "parent-kept-iff-children-remain"], "a group node's fate is not !children.is_empty() after filtering its children", b.where(parent))
    # Leaf without args: result is the filter call itself; with args: !args.is_empty() after args.retain
    if fcalls:
        ctx.check(fcalls[0].dest["l"] == 0 and not fcalls[0].dest["proj"], "R13.3", ["retain", "argless-leaf-kept-iff-filter"],
                  "an argument-less leaf's fate is not the filter's answer", fcalls[0].line())
        path_arg = b.prov.op_src(fcalls[0].args[1])
        ctx.check(any(z.kind == "call" and z.a == "entry::tree::EntryTree::display_name" for z in path_arg), "R13.3", ["retain", "filter-sees-display-path"],
                  "the filter is not applied to the node's display path", fcalls[0].line())
    if ctx.check(len(ar) == 1, "R13.3", ["retain", "args-retain"], "args.retain sites on the Leaf arm: %d" % len(ar), b.where(leaf)):
        acl = None
        for d in b.prov.defs.get(ar[0].args[1]["p"]["l"], []) if ar[0].args[1]["k"] in ("copy", "move") else []:
            if d[0] == "S" and d[3]["rv"]["k"] == "agg" and d[3]["rv"]["ak"] == "closure":
                acl = prog.bodies.get((b.crate, norm(d[3]["rv"]["def"]), -1))
        if ctx.check(acl is not None, "R13.3", ["retain", "per-argument-closure"], "args.retain's predicate is not a local closure", ar[0].line()):
            ctx.saw(acl)
            fc = [c for c in acl.live_calls() if c.is_fn_trait_call and c.name.startswith(("upvar:", "param:"))]
            ok = len(fc) == 1 and fc[0].dest["l"] == 0 and acl.innermost_loop(fc[0].bb) is None and not (set(acl.returns) & acl.reach([0], avoid=[fc[0].bb]))
            ctx.check(ok, "R13.3", ["retain", "filter-once-per-argument"], "the filter is not called exactly once per argument (its answer being the argument's fate)", acl.where(0))
            if fc:
                srcs = acl.prov.op_src(fc[0].args[1])
                ctx.check(any(z.kind == "param" and z.a == acl.param_name(2) for z in srcs) and any(z.kind == "upvar" for z in srcs), "R13.3",
                          ["retain", "argument-path-is-leaf-path-plus-argument"], "the per-argument path is not built from the leaf path and the argument", fc[0].line())
        ares = [(y, s) for y in sorted(leaf_blocks) for s in b.blocks[y]["stmts"] if s["k"] == "assign" and s["p"]["l"] == 0 and b.dominates(ar[0].bb, y)]
        ok = len(ares) == 1 and ares[0][1]["rv"]["k"] == "unop" and ares[0][1]["rv"]["op"] == "Not"
        if ok:
            d = direct_place(b, ares[0][1]["rv"]["o"])
            ok = d is not None and d[0] == "call" and d[1].callee == "std::vec::Vec::is_empty"
        ctx.check(ok, "R13.3", ["retain", "leaf-with-args-kept-iff-args-remain"], "a leaf with arguments is not kept exactly when !args.is_empty()", b.where(leaf))
    # the outer retain_mut applies this closure to every node
    par = prog.parent_body(b)
    if par is not None:
        rm = [c for c in par.live_calls() if c.callee in ("std::vec::Vec::retain_mut", "std::vec::Vec::retain")]
        ctx.check(len(rm) == 1, "R13.3", ["retain", "applied-to-every-node"], "retain_mut sites: %d" % len(rm), par.where(0))


def r13_4(ctx, prog, crate):
    """Every place that builds or prints a path piece takes it from display_name()."""
    users = {
        "entry::tree::EntryTree::retain::retain::{closure#0}": ["entry::tree::EntryTree::display_name"],
        "divan::Divan::run_tree_list": ["entry::tree::EntryTree::display_name"],
        "divan::Divan::run_tree": ["entry::tree::EntryTree::display_name"],
        "divan::Divan::run_bench_entry": ["entry::AnyBenchEntry::display_name"],
    }
    for path, want in users.items():
        b = prog.body(path, crate)
        if not ctx.anchor("R13.4", path, 1 if b else 0, 1):
            continue
        names = {c.callee for c in b.live_calls()}
        ctx.check(all(w in names for w in want) and not any(n.endswith(("::raw_name", "EntryMeta::raw_name")) for n in names), "R13.4", [path, "uses-display_name"],
                  "`%s` names nodes with %s" % (path, sorted(n for n in names if n.endswith(("_name",)))), b.where(0))
    # EntryTree::display_name for a leaf delegates to AnyBenchEntry::display_name
    b = prog.body("entry::tree::EntryTree::display_name", crate)
    if ctx.anchor("R13.4", "EntryTree::display_name", 1 if b else 0, 1):
        names = {c.callee for c in b.live_calls()}
        ctx.check("entry::AnyBenchEntry::display_name" in names, "R13.4", ["EntryTree::display_name", "leaf-delegates"], "leaf display names are computed by %s" % sorted(names), b.where(0))
    # separators: both path builders use "::" (constants of the format pieces), listing and filtering alike
    for path in ("entry::tree::EntryTree::retain::retain::{closure#0}", "divan::Divan::run_tree_list"):
        b = prog.body(path, crate)
        if b is None:
            continue
        seps = set()
        for bb in [b] + [x for x in prog.children(b) if x.kind == "Closure"]:
            for (ck, pth, pr), pb in prog.bodies.items():
                if ck == crate and pth == bb.path and pr >= 0:
                    for bi, si, s in pb.stmts(live_only=False):
                        for o in (s["rv"].get("ops", []) if s["k"] == "assign" and s["rv"]["k"] == "agg" else []):
                            v = const_str(o)
                            if v is not None:
                                seps.add(v)
            for c in bb.live_calls():
                for a in c.args:
                    v = const_str(a)
                    if v is not None:
                        seps.add(v)
            for bi, si, s in bb.stmts():
                if s["k"] == "assign" and s["rv"]["k"] == "use":
                    v = const_str(s["rv"]["o"])
                    if v is not None:
                        seps.add(v)
        if seps:
            ctx.check("::" in seps or any("::" in x for x in seps), "R13.4", [path, "separator"], "path separator constants: %s" % sorted(seps), b.where(0))
        else:
            ctx.note("format pieces of %s are not exposed as string constants by this nightly's format_args! lowering: separators not compared" % path)
    # listing prints the same args vector that filtering retained: run_tree_list iterates Leaf.args
    b = prog.body("divan::Divan::run_tree_list", crate)
    if b is not None:
        ok = False
        for c in b.live_calls():
            if c.callee.endswith("::into_iter"):
                srcs = b.prov.op_src(c.args[0])
                if any("args" in [str(f) for f in (z.b or ())] for z in srcs if z.kind in ("param", "upvar")) or \
                        any(pr.get("name") == "args" for bi, si, s in b.stmts() if s["k"] == "assign" and s["rv"]["k"] in ("ref", "use")
                            for pr in (s["rv"].get("p") or s["rv"].get("o", {}).get("p") or {"proj": []})["proj"] if pr["k"] == "field"):
                    ok = True
        ctx.check(ok, "R13.4", ["run_tree_list", "lists-retained-args"], "the terse listing does not iterate the leaf's (filtered) args", b.where(0))
    b = prog.body("divan::Divan::run_tree", crate)
    if b is not None:
        ok = False
        for c in b.live_calls():
            if c.callee == "divan::Divan::run_bench_entry":
                srcs = b.prov.op_src(c.args[3])
                ok = any(z.kind == "call" and z.a.endswith("as_deref") for z in srcs) or any("args" in str(z.b) for z in srcs if z.kind in ("param", "call"))
        ctx.check(ok, "R13.4", ["run_tree", "runs-retained-args"], "run_tree does not hand the leaf's (filtered) args to run_bench_entry", b.where(0))


def retain_dominates_consumers(ctx, rule, prog, crate, why="filtered"):
    """The one EntryTree::retain pass of run_action dominates every consumer of the tree (shared by R13.5 and R12.5)."""
    b = prog.body("divan::Divan::run_action", crate)
    if not ctx.anchor(rule, "Divan::run_action", 1 if b else 0, 1):
        return None, None
    ctx.saw(b)
    rt = [c for c in b.live_calls() if c.callee == "entry::tree::EntryTree::retain"]
    if not ctx.check(len(rt) == 1, rule, ["run_action", "one-retain"], "retain sites: %d" % len(rt), b.where(0)):
        return None, None
    n = 0
    for callee in ("divan::Divan::run_tree_list", "entry::tree::EntryTree::sort_by_attr", "divan::Divan::run_tree", "entry::tree::EntryTree::max_name_span",
                   "entry::tree::EntryTree::common_column_width"):
        for c in b.live_calls():
            if c.callee == callee:
                n += 1
                ctx.check(b.dominates(rt[0].bb, c.bb), rule, ["run_action", "filter-before", callee.rsplit("::", 1)[-1]],
                          "`%s` can run before the tree is %s" % (callee, why), c.line())
    ctx.anchor(rule, "consumers of the entry tree in run_action", n, 4)
    return b, rt


def r13_5(ctx, prog, crate):
    b, rt = retain_dominates_consumers(ctx, "R13.5", prog, crate)
    if b is None:
        return
    # groups are inserted before filtering (so group display names take part)
    ig = [c for c in b.live_calls() if c.callee == "entry::tree::EntryTree::insert_group"]
    for c in ig:
        ctx.check(rt[0].bb in b.reach([c.bb]) and not b.dominates(rt[0].bb, c.bb), "R13.5", ["run_action", "groups-before-filter"], "groups are inserted after filtering", c.line())
    # the filter closure is self.filter(path) = self.filters.is_match(path)
    f = prog.body("divan::Divan::filter", crate)
    if ctx.anchor("R13.5", "Divan::filter", 1 if f else 0, 1):
        cs = [c for c in f.live_calls() if c.callee == "config::filter::FilterSet::is_match"]
        ok = len(cs) == 1 and {z.label() for z in f.prov.op_src(cs[0].args[0]) if z.kind == "param"} == {"param:self.filters"} and \
            {z.label() for z in f.prov.op_src(cs[0].args[1])} == {"param:" + f.param_name(2)} and cs[0].dest["l"] == 0
        ctx.check(ok, "R13.5", ["Divan::filter", "is-filters.is_match"], "Divan::filter is not self.filters.is_match(path)", f.where(0))
    cl = [x for x in prog.children(b) if x.kind == "Closure" and any(c.callee == "divan::Divan::filter" for c in x.live_calls())]
    ctx.check(len(cl) == 1, "R13.5", ["run_action", "retain-with-Divan::filter"], "closures calling Divan::filter: %d" % len(cl), b.where(0))
    for x in cl:
        c = [c for c in x.live_calls() if c.callee == "divan::Divan::filter"][0]
        ctx.check(c.dest["l"] == 0 and {z.label() for z in x.prov.op_src(c.args[1])} == {"param:" + x.param_name(2)}, "R13.5", ["run_action", "filter-answer-unmodified"],
                  "the retain predicate post-processes Divan::filter's answer", c.line())


# clap::Arg builder methods that leave the values of an argument exactly as typed (presentation, naming, where the value
# may also come from); everything else (value_delimiter, value_parser, num_args, default_value, value_terminator, ...)
# changes which strings reach the filter set and is reported
FILTER_ARG_NEUTRAL = {"new", "long", "value_name", "help", "long_help", "action", "env", "hide", "hide_env", "hide_env_values",
                      "display_order", "help_heading", "next_line_help", "visible_alias", "alias", "short", "id"}


def r13_6(ctx, prog, crate):
    """The filter strings reach the filter set as typed: the clap definitions of the positional `filter` and of `--skip`
    collect each occurrence as one value (ArgAction::Append) and carry no value-transforming builder call - a delimiter
    would split a filter at every comma (display paths contain commas: tuple arguments, `Map<K, V>`, `a{1,3}`), a value
    parser / default / num_args would change which strings become filters."""
    from rules.C15 import const_str, defined_candidates
    cmd = prog.body("cli::command", crate)
    if not ctx.anchor("R13.6", "cli::command", 1 if cmd else 0, 1):
        return
    ctx.saw(cmd)
    helpers = {b.path: b for b in prog.lib_bodies(crate) if b.path.startswith("cli::command::") and b.kind in ("Fn", "AssocFn")}
    seen = {"filter": [], "skip": []}
    for c in cmd.live_calls():
        if not c.callee.startswith("clap::Arg::") and not c.callee.startswith("clap::builder::Arg::"):
            continue
        n = c.callee.rsplit("::", 1)[-1]
        if n == "new":
            v = const_str(c.args[0])
            if v in seen:
                seen[v].append((n, c))
            continue
        for i in sorted(defined_candidates(cmd, c) & set(seen)):
            seen[i].append((n, c))
    for i, calls in sorted(seen.items()):
        if not ctx.check(bool(calls), "R13.6", [i, "defined-in-cli::command"], "cli::command has no builder call for `%s`" % i, cmd.where(0)):
            continue
        for n, c in calls:
            ctx.check(n in FILTER_ARG_NEUTRAL, "R13.6", [i, "values-as-typed", n],
                      "the `%s` argument is built with clap's `%s`: each filter must reach the filter set exactly as typed, one per "
                      "occurrence (no delimiter / parser / default / arity change)" % (i, n), c.line(), detail={"arg": i, "method": n})
        acts = [c for n, c in calls if n == "action"]
        if ctx.check(len(acts) == 1, "R13.6", [i, "one-action"], "`%s` sets its action %d times" % (i, len(acts)), calls[0][1].line()):
            srcs = cmd.prov.op_src(acts[0].args[1])
            kinds = {s.label() for s in srcs}
            ok = any("Append" in k for k in kinds) and len(kinds) == 1
            ctx.check(ok, "R13.6", [i, "action-is-Append"], "`%s` collects its values with %s, expected ArgAction::Append (every occurrence is a filter)" % (i, sorted(kinds)), acts[0].line())
    # the helper that builds `--skip` must itself be neutral
    for hp, hb in sorted(helpers.items()):
        if hp.rsplit("::", 1)[-1] != "option":
            continue
        ctx.saw(hb)
        for c in hb.live_calls():
            if c.callee.startswith("clap::"):
                n = c.callee.rsplit("::", 1)[-1]
                ctx.check(n in FILTER_ARG_NEUTRAL, "R13.6", ["option()", "values-as-typed", n],
                          "the option() helper every --option (and so --skip) goes through calls clap's `%s`" % n, c.line())


def run(ctx, prog, crate):
    r13_6(ctx, prog, crate)
    r13_1(ctx, prog, crate)
    r13_2(ctx, prog, crate)
    r13_3(ctx, prog, crate)
    r13_4(ctx, prog, crate)
    r13_5(ctx, prog, crate)
