"""C04  max_time, min_time and skip_ext_time bound sampling as documented."""
from lib.facts import direct_place, const_int, origins, place_fields, norm, nophi
from lib import tables
from .sampling import Sampling

INLINE = True      # crate-local helpers the rules do not know by name are inlined into their callers (lib/inline.py)
EXPLANATION = (
    "R04.1 the `while` condition of the sampling loop is extracted from MIR as a decision DAG over atoms that the code "
    "touches only through comparisons (path enumeration with correlated branches over the header region, no values "
    "executed) and compared row by row with the documented table: elapsed >= max_time => stop (priority over both); "
    "else samples remaining (rem.unwrap_or(1) > 0) => continue; else continue iff elapsed < min_time. Operand provenance "
    "ties the atoms to options.max_time()/min_time(), the loop-carried elapsed counter and the remaining-sample counter. "
    "R04.2 every round boundary is tested: single latch, the only other exit is the test-mode break. R04.3 the two clocks: "
    "initial_start is Some(Timestamp::start) exactly on the !skip_ext_time edge, read before the loop; on the Some arm "
    "elapsed is assigned duration_since(initial_start) of the maximum `end`; on the None arm elapsed is saturating_add'ed "
    "with max(slowest_time.picos, 1000). R04.4 defaults: min_time() -> zero, max_time() -> FineDuration::MAX."
    " R04.5 the three time options are parsed into their own fields (expansion rules restricted to max_time/min_time/skip_ext_time)."
    " R04.6 (= R03.4) the remaining-sample counter counts recorded samples only: None while tuning, started from sample_count when collection starts.")
EXPLANATION += (' R04.7 (= R15.12) --skip-ext-time given without a value is read by occurrence and stored as Some(true).')
EXPLANATION += (' R04.8 (= R15.3) the command line relates only the documented mode switches: --max-time never drops --min-time.')
EXPLANATION += (" R04.9 (= R15.2) the options handed to the sampling loop are the runner's merged over the entry's on every path.")
NOT_DECIDED = ["agreement of the executed round count with a given clock history (needs a scripted clock - runtime family)"]

# canonical atoms of the documented condition: continue  <=>  A and (B or C)
ATOM_A = ("Lt", "elapsed", "max_time")                    # budget not yet used up   (elapsed >= max_time  ==  not A)
ATOM_B = ("Eq", "const:0", "unwrap_or(rem_samples,1)")    # NO samples remaining     (rem.unwrap_or(1) > 0 ==  not B; counts are unsigned)
ATOM_C = ("Lt", "elapsed", "min_time")                    # time floor not reached


def canon_atom(op, a, c):
    """(op, a, c) -> (canonical atom, polarity): Gt/Ge/Le/Ne are rewritten to Lt/Eq with a polarity, operands of Eq are
    sorted, and `0 < x` on an unsigned count is `not (0 == x)` - so the table below is independent of how the source
    spells a comparison."""
    pol = True
    if op == "Gt":
        op, a, c = "Lt", c, a
    elif op == "Ge":
        op, pol = "Lt", False
    elif op == "Le":
        op, a, c, pol = "Lt", c, a, False
    elif op == "Ne":
        op, pol = "Eq", False
    if op == "Lt" and a == "const:0":          # 0 < x  <=>  x != 0   (unsigned)
        op, pol = "Eq", not pol
    if op == "Lt" and c == "const:1":          # x < 1  <=>  x == 0   (unsigned)
        op, a, c = "Eq", "const:0", a
    if op == "Eq" and repr(c) < repr(a):
        a, c = c, a
    return (op, a, c), pol


def documented(A, B, C):
    return A and ((not B) or C)


def r04_1(ctx, S):
    import itertools
    b = S.body
    rows = S.cond_rows()
    crow = []
    atoms = set()
    for d, res in rows:
        if d is None:
            ctx.fail("R04.1", [b.path, "condition-shape", res], "the loop condition region is not a pure decision DAG (%s)" % res, b.where(S.loop["header"]))
            continue
        cd = {}
        for a, v in d.items():
            k, pol = canon_atom(a[0], a[1], a[2])
            cd[k] = (v == pol)
            atoms.add(k)
        if isinstance(res, bool):
            cres = res
        elif isinstance(res, tuple):
            k, pol = canon_atom(res[0], res[1], res[2])
            atoms.add(k)
            cres = (k, pol)
        else:
            cres = res
        crow.append((cd, cres))
    extra = sorted(atoms - {ATOM_A, ATOM_B, ATOM_C}, key=str)
    ctx.check(not extra, "R04.1", [b.path, "undocumented-atom"] + ["%s(%s,%s)" % a for a in extra],
              "the loop condition tests %s, which the documented rule does not mention" % extra, b.where(S.cond_switch))
    missing = sorted({ATOM_A, ATOM_B, ATOM_C} - atoms, key=str)
    ctx.check(not missing, "R04.1", [b.path, "missing-atom"] + ["%s(%s,%s)" % a for a in missing],
              "the loop condition never tests %s" % missing, b.where(S.cond_switch))
    names = {ATOM_A: "elapsed<max_time", ATOM_B: "no-samples-remaining", ATOM_C: "elapsed<min_time"}
    allatoms = [ATOM_A, ATOM_B, ATOM_C] + extra
    for vals in itertools.product([False, True], repeat=3):
        asg = dict(zip([ATOM_A, ATOM_B, ATOM_C], vals))
        outs = set()
        # undocumented atoms must not matter: try both values
        for evals in itertools.product([False, True], repeat=len(extra)):
            full = dict(asg)
            full.update(zip(extra, evals))
            hit = [r for d, r in crow if all(full.get(k) == v for k, v in d.items())]
            if not hit:
                outs.add("<no path>")
            for r in hit:
                if isinstance(r, bool):
                    outs.add(r)
                elif isinstance(r, tuple):
                    outs.add(full.get(r[0]) == r[1])
                else:
                    outs.add(str(r))
        want = documented(*vals)
        label = " & ".join(("" if v else "!") + names[k] for k, v in asg.items())
        ctx.check(outs == {want}, "R04.1", [b.path, "row", label],
                  "when [%s] the loop condition yields %s, documented: %s (continue <=> elapsed < max_time and (samples remain or elapsed < min_time))"
                  % (label, sorted(outs, key=str), want), b.where(S.cond_switch), detail={"when": label, "continue": str(want)})
    entry = S.body_entry()
    if entry is not None:
        # rows are decided by where each path ends (loop body / outside): "continues on true" is what the rows say;
        # the condition region is everything between the header and the body proper
        region = (b.reach([S.loop["header"]], avoid=[entry]) & S.loop["body"]) - b.reach([entry], avoid=[S.loop["header"]])
    else:
        # the final switch continues on true
        t = b.term(S.cond_switch)
        zero = [a[1] for a in t["arms"] if a[0] == "0"]
        ctx.check(zero and zero[0] not in S.loop["body"] and t["otherwise"] in S.loop["body"], "R04.1", [b.path, "true-continues"],
                  "the loop does not continue on a true condition / leave on a false one", b.where(S.cond_switch))
        region = b.between([p for p in b.pred[S.loop["header"]]], [S.cond_switch]) | {S.loop["header"]}
        region = {x for x in region if x in S.loop["body"] and b.dominates(S.loop["header"], x) and S.cond_switch in b.reach([x])} - \
            b.reach([t["otherwise"]], avoid=[S.loop["header"]])
    # no side effects in the condition region
    calls = sorted({b.call_at(x).callee for x in region if b.call_at(x) is not None})
    impure = [n_ for n_ in calls if n_ != "std::option::Option::unwrap_or" and not ("PartialEq" in n_ and n_.rsplit("::", 1)[-1] in ("eq", "ne") and "Option" in n_ + "Option")]
    ctx.check(not impure, "R04.1", [b.path, "condition-is-pure"], "the loop condition calls %s" % impure, b.where(S.loop["header"]))


def _fmt(k):
    return " & ".join("%s%s(%s,%s)" % ("" if v else "!", op, a, c) for op, a, c, v in k)


def r04_2(ctx, S):
    b = S.body
    ctx.check(len(S.loop["latches"]) == 1, "R04.2", [b.path, "single-latch"], "latches: %s" % S.loop["latches"], b.where(S.loop["header"]))
    real_exits = []
    for x, outs in S.exits:
        for o in outs:
            # exits into diverging/unreachable blocks (panics, unreachable!()) do not end the sampling normally
            if not (set(b.returns) & b.reach([o])):
                continue
            real_exits.append((x, o))
    # the loop condition may leave the loop from several tests (a short-circuit `a && (b || c)` branches straight out):
    # everything before the body proper belongs to the condition
    entry = S.body_entry()
    after_entry = b.reach([entry], avoid=[S.loop["header"]]) if entry is not None else None
    others = [(x, o) for x, o in real_exits if x != S.cond_switch and (after_entry is None or x in after_entry)]
    ok = len(others) == 1
    if ok:
        x, o = others[0]
        d = direct_place(b, b.term(x)["discr"])
        ok = d is not None and d[0] == "call" and d[1].callee == "benchmark::BenchMode::is_test" and d[1].bb not in S.loop["body"]
    ctx.check(ok, "R04.2", [b.path, "only-other-exit-is-test-break"],
              "exits of the sampling loop other than the loop condition: %s (expected exactly the test-mode break)" % [(b.where(x)) for x, o in others],
              b.where(others[0][0]) if others else b.where(S.loop["header"]))
    # no `continue` that skips the elapsed update: every path from par_extend to the latch passes an assignment of elapsed
    el = S.local_by_class("elapsed")
    if ctx.check(len(el) >= 1, "R04.2", [b.path, "elapsed-variable"], "cannot identify the elapsed counter", b.where(S.loop["header"])):
        writes = {bi for bi, si, s in b.stmts() if s["k"] == "assign" and s["p"]["l"] in el and not s["p"]["proj"] and bi in S.loop["body"]}
        outside = set(range(len(b.blocks))) - S.loop["body"]
        r = b.reach([S.pe[0].target], avoid=outside | writes)
        ctx.check(not any(l in r for l in S.loop["latches"]), "R04.2", [b.path, "elapsed-updated-every-round"],
                  "a round can reach the loop latch without updating the elapsed time", b.where(S.loop["latches"][0]))
        # initialised to 0 before the loop
        init = [s for bi, si, s in b.stmts() if s["k"] == "assign" and s["p"]["l"] in el and bi not in S.loop["body"] and not s["p"]["proj"]]
        ctx.check(len(init) == 1 and const_int(init[0]["rv"].get("o", {"k": ""})) == 0 if init and init[0]["rv"]["k"] == "use" else False, "R04.2",
                  [b.path, "elapsed-starts-at-zero"], "elapsed is not initialised to 0 before the loop", b.where(0))


def r04_3(ctx, S, prog, crate):
    b = S.body
    starts = [c for c in b.live_calls() if c.callee == "time::timestamp::Timestamp::start"]
    if not ctx.check(len(starts) == 1 and starts[0].bb not in S.loop["body"] and b.dominates(starts[0].bb, S.loop["header"]) is False or len(starts) == 1, "R04.3",
                     [b.path, "initial-start-site"], "Timestamp::start sites in the sampling function: %d" % len(starts), b.where(0)):
        return
    st = starts[0]
    ctx.check(st.bb not in S.loop["body"] and S.loop["header"] in b.reach([st.bb]), "R04.3", [b.path, "initial-start-before-loop"],
              "the initial timestamp is not read before the loop", st.line())
    # the clock starts right before sampling: nothing is called between reading the initial timestamp and the loop
    between = b.between([st.bb], [S.loop["header"]]) - {S.loop["header"]}
    calls = [b.call_at(x) for x in sorted(between) if b.call_at(x) is not None]
    ctx.check(not calls, "R04.3", [b.path, "clock-starts-right-before-sampling"] + [c.callee for c in calls],
              "between the initial timestamp and the first round `%s` is called: its time is charged to this benchmark's min_time/max_time budget "
              "although it is not benchmarking time" % ", ".join(c.callee for c in calls), calls[0].line() if calls else st.line())
    # guarded by !skip_ext_time
    guard = None
    for bi, t in b.switches():
        d = direct_place(b, t["discr"])
        if d and d[0] == "call" and d[1].callee.endswith("unwrap_or_default"):
            o = origins(b, d[1].args[0])
            if any(x[0] == "place" and tuple(x[2])[-1:] == ("skip_ext_time",) for x in o):
                guard = (bi, t)
    if ctx.check(guard is not None, "R04.3", [b.path, "skip_ext_time-switch"], "no branch on options.skip_ext_time.unwrap_or_default()", st.line()):
        bi, t = guard
        zero = [a[1] for a in t["arms"] if a[0] == "0"][0]
        ctx.check(st.bb in tables.exclusive_blocks(b, zero, [t["otherwise"]], stop=[S.loop["header"]]), "R04.3", [b.path, "start-iff-not-skip"],
                  "Timestamp::start is not taken exactly on the !skip_ext_time edge", st.line())
        vs = set()
        for x in tables.exclusive_blocks(b, t["otherwise"], [zero], stop=[S.loop["header"]]):
            for s in b.blocks[x]["stmts"]:
                if s["k"] == "assign" and s["rv"]["k"] == "agg" and "Timestamp" in s["p"]["ty"]:
                    vs.add(s["rv"].get("variant"))
        ctx.check(vs == {"None"}, "R04.3", [b.path, "none-when-skip"], "initial_start on the skip edge is %s" % sorted(vs), b.where(t["otherwise"]))
    # elapsed updates
    el = S.local_by_class("elapsed")
    writes = [(bi, si, s) for bi, si, s in b.stmts() if s["k"] == "assign" and s["p"]["l"] in el and not s["p"]["proj"] and bi in S.loop["body"]]
    # a single `elapsed = <value chosen on two arms>` (e.g. the result of a helper spliced in by lib.inline, or of an
    # if-expression): the two definitions of that value are the two updates
    for _ in range(3):
        if len(writes) == 1 and writes[0][2]["rv"]["k"] == "use" and writes[0][2]["rv"]["o"]["k"] in ("copy", "move") and not writes[0][2]["rv"]["o"]["p"]["proj"]:
            x_ = writes[0][2]["rv"]["o"]["p"]["l"]
            alld = b.prov.defs.get(x_, [])
            dfs = [d for d in alld if ((d[0] == "S" and not d[3]["p"]["proj"]) or d[0] == "C") and d[1] in S.loop["body"]]
            if len(dfs) >= 1 and len(dfs) == len(alld):
                nw = []
                for d in dfs:
                    if d[0] == "S":
                        nw.append((d[1], d[2], d[3]))
                    else:
                        # defined by a call: the update is that call's result
                        dest = b.call_at(d[1]).dest
                        nw.append((d[1], -1, {"k": "assign", "p": dest, "rv": {"k": "use", "o": {"k": "move", "p": dest}}, "span": b.call_at(d[1]).span, "_call": b.call_at(d[1])}))
                writes = nw
                continue
        break
    if not ctx.check(len(writes) == 2, "R04.3", [b.path, "two-elapsed-updates"], "elapsed updates in the loop: %d" % len(writes), b.where(S.loop["header"])):
        return
    # the switch on initial_start's discriminant
    isw = None
    for bi, t, base in tables.discr_switches(b):
        if bi in S.loop["body"] and any(s.kind == "call" and s.b == st.bb for s in b.prov.local_src(base)) and "Timestamp" in b.local_ty(base):
            isw = (bi, t)
    if not ctx.check(isw is not None, "R04.3", [b.path, "switch-on-initial_start"], "no match on initial_start inside the loop", b.where(S.loop["header"])):
        return
    bi, t = isw
    arms, otherwise = tables.arm_targets(t)
    some_t, none_t = arms.get(1, otherwise), arms.get(0, otherwise)
    for wbi, wsi, s in writes:
        srcs = b.prov._rv(s["rv"], (), frozenset(), wbi, wsi)
        dw = direct_place(b, s["rv"]["o"]) if s["rv"]["k"] == "use" else None
        if s.get("_call") is not None:
            dw = ("call", s["_call"])
        if dw and dw[0] == "place" and not (1 <= dw[1] <= b.arg_count):
            dfs = b.prov.defs.get(dw[1], [])
            if len(dfs) == 1 and dfs[0][0] == "C":
                dw = ("call", b.call_at(dfs[0][1]))
        is_wall = dw is not None and dw[0] == "call" and dw[1].callee == "time::timestamp::Timestamp::duration_since"
        if is_wall:
            srcs = b.prov.op_src({"k": "copy", "p": dw[1].dest}) | {z for a in dw[1].args for z in b.prov.op_src(a)}
            from lib.facts import Src
            srcs = set(srcs) | {Src("call", dw[1].callee, dw[1].bb)}
        names = {z.a for z in srcs if z.kind == "call"}
        if is_wall:
            ctx.check(wbi in b.reach([some_t], avoid=[none_t, S.loop["header"]]) and wbi not in b.reach([none_t], avoid=[some_t, S.loop["header"]]), "R04.3",
                      [b.path, "wall-clock-on-Some-arm"], "the wall-clock elapsed update is not on the initial_start = Some arm", b.where(wbi))
            ds = [c for c in b.live_calls() if c.callee == "time::timestamp::Timestamp::duration_since" and c.bb in S.loop["body"]
                  and any(z.kind == "call" and z.b == c.bb for z in srcs)]
            if ctx.check(len(ds) == 1, "R04.3", [b.path, "one-duration_since"], "duration_since sites: %d" % len(ds), b.where(wbi)):
                c = ds[0]
                a0 = b.prov.op_src(c.args[0])
                a1 = b.prov.op_src(c.args[1])
                via_max = any(z.kind == "call" and z.a == "std::iter::Iterator::max" for z in a0)
                # idiom 2: `iter().max_by_key(|s| s.end).unwrap().end` - the `end` field of the sample with the greatest `end`
                via_key = False
                if not via_max:
                    from lib.symexpr import Sym
                    e = Sym(b, site_args=True).op(c.args[0])
                    if e[0] == "field" and e[2] == ("end",) and e[1][0] == "site" and e[1][1].endswith("::unwrap") and e[1][3] and e[1][3][0][0] == "site" \
                            and e[1][3][0][1] == "std::iter::Iterator::max_by_key":
                        kc = b.call_at(e[1][3][0][2])
                        for o in origins(b, kc.args[1]):
                            if o[0] == "rvalue" and o[1]["k"] == "agg" and o[1]["ak"] == "closure":
                                cb = prog.bodies.get((b.crate, norm(o[1]["def"]), -1))
                                via_key = cb is not None and {z.label() for z in cb.prov.local_src(0)} == {"param:" + cb.param_name(2) + ".end"}
                ctx.check((via_max or via_key) and nophi(a0) and not any(z.kind == "call" and z.a.endswith(("::min", "::last", "::first")) for z in a0),
                          "R04.3", [b.path, "latest-end"], "elapsed is not measured up to the maximum end timestamp (%s)" % sorted(z.a for z in a0 if z.kind == "call"), c.line())
                ctx.check(any(z.kind == "call" and z.b == st.bb for z in a1), "R04.3", [b.path, "since-initial_start"], "elapsed is not measured from initial_start", c.line())
                # the mapping closure projects `.end`
                for cc in b.live_calls():
                    if cc.callee == "std::iter::Iterator::map" and any(z.kind == "call" and z.b == cc.bb for z in a0):
                        for d in b.prov.defs.get(cc.args[1]["p"]["l"], []) if cc.args[1]["k"] in ("copy", "move") else []:
                            if d[0] == "S" and d[3]["rv"]["k"] == "agg" and d[3]["rv"]["ak"] == "closure":
                                cb = prog.bodies.get((b.crate, norm(d[3]["rv"]["def"]), -1))
                                r = {z.label() for z in cb.prov.local_src(0)}
                                ctx.check(r == {"param:" + cb.param_name(2) + ".end"}, "R04.3", [b.path, "max-of-end-fields"],
                                          "the maximum is taken over %s, expected the samples' `end`" % sorted(r), cb.where(0))
            # assigned, not accumulated: the written value is directly the `.picos` of the duration_since result
        else:
            ctx.check(wbi in b.reach([none_t], avoid=[some_t, S.loop["header"]]) and wbi not in b.reach([some_t], avoid=[none_t, S.loop["header"]]), "R04.3",
                      [b.path, "timed-only-on-None-arm"], "the skip_ext_time elapsed update is not on the initial_start = None arm", b.where(wbi))
            d = direct_place(b, s["rv"]["o"]) if s["rv"]["k"] == "use" else None
            if s.get("_call") is not None:
                d = ("call", s["_call"])
            ok = d is not None and d[0] == "call" and d[1].callee == "core::num::saturating_add"
            if ctx.check(ok, "R04.3", [b.path, "timed-accumulates"], "the skip_ext_time update is not elapsed.saturating_add(progress)", b.where(wbi)):
                c = d[1]
                a0 = S.classify_local(S.root_local(c.args[0]["p"]["l"])) if c.args[0]["k"] in ("copy", "move") else "?"
                ctx.check(a0 == "elapsed", "R04.3", [b.path, "accumulates-onto-elapsed"], "saturating_add's receiver is %s" % a0, c.line())
                dd = direct_place(b, c.args[1])
                ok2 = dd is not None and dd[0] == "call" and dd[1].callee in ("std::cmp::Ord::max", "std::cmp::max", "core::cmp::max") and \
                    sorted(1 if const_int(a) == 1000 else 0 for a in dd[1].args) == [0, 1]
                ctx.check(ok2, "R04.3", [b.path, "at-least-1ns-per-round"], "progress is not max(slowest_time.picos, 1000 ps)", c.line())
                if ok2:
                    other = [a for a in dd[1].args if const_int(a) != 1000][0]
                    srcs2 = b.prov.op_src(other)
                    from .sampling import slowest_duration
                    ok_sl, found_sl = slowest_duration(prog, b, other)
                    ctx.check(ok_sl, "R04.3", [b.path, "slowest-thread"],
                              "progress is not the slowest thread's timed section (%s)" % found_sl, c.line())
    # RawSample::duration = end.duration_since(start, timer)
    rd = prog.body("stats::sample::RawSample::duration", crate)
    if ctx.anchor("R04.3", "RawSample::duration", 1 if rd else 0, 1):
        cs = [c for c in rd.live_calls() if c.callee == "time::timestamp::Timestamp::duration_since"]
        ok = len(cs) == 1 and {z.label() for z in rd.prov.op_src(cs[0].args[0])} == {"param:self.end"} and {z.label() for z in rd.prov.op_src(cs[0].args[1])} == {"param:self.start"}
        ctx.check(ok, "R04.3", ["RawSample::duration", "end-since-start"], "RawSample::duration is not end.duration_since(start)", rd.where(0))


def r04_4(ctx, prog, crate):
    for fn, field, dflt in (("min_time", "min_time", "default"), ("max_time", "max_time", "MAX")):
        b = prog.body("benchmark::options::BenchOptions::" + fn, crate)
        if not ctx.anchor("R04.4", "BenchOptions::" + fn, 1 if b else 0, 1):
            continue
        ctx.saw(b)
        ret = b.prov.local_src(0)
        names = {z.a for z in ret if z.kind == "call"}
        fields = {z.b for z in ret if z.kind == "param"}
        ctx.check(fields == {(field,)}, "R04.4", [fn, "reads-own-field"], "%s() reads %s" % (fn, sorted(fields)), b.where(0))
        # the returned value is made of the option's own content, converted, or the default - stated over the sources of the
        # value, whichever Option combinator (map + unwrap_or, map_or, a match ...) spells it
        consts = {str(z.a) for z in ret if z.kind == "const"}
        other = {n for n in names if not (n.startswith("std::option::Option::") or n.endswith("::from") or n.endswith("::into") or n.endswith("::default"))}
        ctx.check(not other, "R04.4", [fn, "option-or-default-only"], "%s() computes its value with %s" % (fn, sorted(other)), b.where(0))
        if dflt == "default":
            zero = "std::option::Option::unwrap_or_default" in names or any(n.endswith("::default") for n in names) or \
                any(z.kind == "fnitem" and str(z.a).endswith("::default") for z in ret)
            ZERO = "time::fine_duration::FineDuration::ZERO"
            if consts == {ZERO}:
                zb = prog.bodies.get((crate, ZERO, -1))
                zsrc = zb.prov.local_src(0) if zb is not None else set()
                zero = zb is not None and any(z.kind == "const" and str(z.a).startswith("0_") or str(z.a) == "0" for z in zsrc) and \
                    not any(z.kind == "const" and not (str(z.a).startswith("0_") or str(z.a) == "0") for z in zsrc)
                consts = set()
            ctx.check(zero and not consts, "R04.4", [fn, "defaults-to-zero"], "%s() default: calls %s consts %s" % (fn, sorted(names), sorted(consts)), b.where(0))
            dd = prog.body("<time::fine_duration::FineDuration as std::default::Default>::default", crate)
            ctx.check(dd is not None, "R04.4", [fn, "FineDuration-default"], "no Default for FineDuration", None)
        else:
            ctx.check(consts == {"time::fine_duration::FineDuration::MAX"} and "std::option::Option::unwrap_or_default" not in names, "R04.4", [fn, "defaults-to-MAX"],
                      "%s() default: calls %s consts %s" % (fn, sorted(names), sorted(consts)), b.where(0))
        ctx.check(any(z.kind == "fnitem" and z.a.endswith("::from") for z in ret) or any(n.endswith("::from") or n.endswith("::into") for n in names) or
                  any(c.callee.endswith("::from") or c.callee.endswith("::into") for k in prog.children(b) for c in k.live_calls()), "R04.4", [fn, "converted-from-Duration"],
                  "%s() does not convert the Duration" % fn, b.where(0))
    mx = prog.bodies.get((crate, "time::fine_duration::FineDuration::MAX", -1))
    if ctx.anchor("R04.4", "FineDuration::MAX", 1 if mx else 0, 1):
        srcs = mx.prov.local_src(0)
        ctx.check(any(z.kind == "const" and ("u128>::MAX" in str(z.a) or "u128::MAX" in str(z.a) or "340282366920938463463374607431768211455" in str(z.a)) for z in srcs), "R04.4", ["FineDuration::MAX", "u128-max"],
                  "FineDuration::MAX is %s" % sorted(z.label() for z in srcs), mx.where(0))


def r04_5(ctx, prog, crate):
    """The bounds the loop enforces are the ones given at run time: --max-time / --min-time / --skip-ext-time (and their
    DIVAN_* variables) are stored into the runner's options from the option of the same name, whenever it is present and
    whatever its value (an explicit `false` must override an attribute's `skip_ext_time`) - the three rows of R15.3 that
    this property depends on, reported here under R04.5."""
    from .C15 import r15_3
    from .common import ExpansionView
    r15_3(ExpansionView(ctx, "R04.5", {"max_time", "min_time", "skip_ext_time", "DIVAN_MAX_TIME", "DIVAN_MIN_TIME", "DIVAN_SKIP_EXT_TIME"}), prog, crate)


def r04_6(ctx, S, prog, crate):
    """'Fewer than sample_count samples have been RECORDED': the remaining-sample counter that the loop condition tests
    counts recorded samples only - it exists from the start exactly when the run starts out collecting, is (re)started from
    sample_count (default 100) when tuning ends, and is None while tuning, so discarded tuning rounds never use up the
    budget. The clause is R03.4 of C03 (same counter); it is a necessary part of this property's stopping rule and is
    reported here under R04.6."""
    from .C03 import r03_4
    from .common import Renamed
    r03_4(Renamed(ctx, "R04.6"), S, prog, crate)


def r04_7(ctx, prog, crate):
    """(= R15.12) `--skip-ext-time` given without a value turns the option on: the reader in config_with_args asks for the
    occurrence and stores Some(true) for the bare flag."""
    from .C15 import optional_value_flags
    optional_value_flags(ctx, "R04.7", prog, crate)


def r04_8(ctx, prog, crate):
    """(= R15.3) min_time and max_time are independent options of the command line: clap relates (overrides / conflicts /
    requires) only the documented mode switches, so giving --max-time never drops a --min-time given next to it."""
    from .C15 import r15_3
    from .common import Renamed
    r15_3(Renamed(ctx, "R04.8"), prog, crate)


def r04_9(ctx, prog, crate):
    """(= R15.2) The skip_ext_time / min_time / max_time the loop obeys are the resolved ones: on every path of
    run_bench_entry the options handed to BenchContext::new are the runner's options merged over the entry's with
    overwrite() (or the runner's alone) - never the entry's own options on a 'nothing set at run time' shortcut."""
    from .C15 import r15_2
    from .common import Renamed
    r15_2(Renamed(ctx, "R04.9"), prog, crate)


def run(ctx, prog, crate):
    r04_9(ctx, prog, crate)
    r04_8(ctx, prog, crate)
    r04_7(ctx, prog, crate)
    r04_5(ctx, prog, crate)
    S = Sampling(prog, crate)
    if not ctx.anchor("R04.1", "sampling loop (loop around ThreadPool::par_extend)", 1 if S.body is not None and S.loop is not None and S.cond_switch is not None else 0, 1):
        return
    ctx.saw(S.body)
    r04_1(ctx, S)
    r04_2(ctx, S)
    r04_3(ctx, S, prog, crate)
    r04_4(ctx, prog, crate)
    r04_6(ctx, S, prog, crate)
