"""C11  Timestamp differences convert to picoseconds exactly, without overflow."""
from lib.facts import norm, direct_place, const_int, origins, place_fields
from lib import tables

INLINE = True      # crate-local helpers the rules do not know by name are inlined into their callers (lib/inline.py)
EXPLANATION = (
    "Expression-shape rules (narrow). R11.1 in TscTimestamp::duration_since the difference comes from "
    "checked_sub(self.value, earlier.value) - in that direction - whose None arm returns the default (zero); both "
    "factors are widened to u128 before the multiplication; the constant is 10^12; the division is applied to the "
    "product (no quotient feeds a multiplication - precision-loss rule) and the divisor is frequency.get() widened. "
    "Type-range argument recorded with the evidence: (2^64-1) * 10^12 < 2^104, so the dev-profile overflow assertion of "
    "the multiplication is dead and the division cannot trap (NonZeroU64). R11.2 From<Duration> multiplies as_nanos() by "
    "the constant 1000 with checked_mul; Timestamp::duration_since dispatches Os->Os and Tsc->Tsc only, each as "
    "self.duration_since(earlier) in that direction."
    " R11.3 measure_precision: the running minimum starts at the sentinel, is replaced only by a sample that compared Less, zero samples never reach the comparison, the minimum is returned only after a comparison with a measured sample, and Timer::precision caches per kind what measure_precision returned.")
EXPLANATION += (" R11.4 every per-timer measurement Timer caches in a static (precision, sample-loop overhead, bench overheads) is cached in a slot selected by self.kind().")
EXPLANATION += (' R11.3 also: Timer::precision hands out the cached measure_precision value as measured (no conversion and back).')
EXPLANATION += (' R11.5 Timestamp::duration_since is a pure dispatch on the variants.')
NOT_DECIDED = ["monotonicity / additivity (consequences of the formula, not checked separately)",
               "the precision clause beyond R11.3: that the probing converges on a given uniform-step clock is a run-time matter; R11.3 decides that what is "
               "reported is the smallest non-zero difference observed and never the sentinel"]


def def_rv(b, op):
    """Defining rvalue of an operand's local when it has exactly one statement definition (no chain following)."""
    if op["k"] not in ("copy", "move") or op["p"]["proj"]:
        return None
    defs = b.prov.defs.get(op["p"]["l"], [])
    if len(defs) == 1 and defs[0][0] == "S" and not defs[0][3]["p"]["proj"]:
        return defs[0][3]["rv"]
    return None


def _none_path_returns_zero(prog, crate, b):
    """On every path on which the checked difference is None the function returns zero: the constant FineDuration::ZERO
    (whose value is picos: 0), FineDuration { picos: 0 }, or Default::default()."""
    from lib.patheval import PathEval
    sums = PathEval(b).run()
    if not sums:
        return False
    seen = 0
    for s_ in sums:
        none = [a for a, p in s_.conds if a[0] == "discr" and "checked_sub" in str(a[1]) and ((a[2] == 0 and p) or (a[2] == 1 and not p))]
        if not none:
            continue
        seen += 1
        r = s_.ret
        if r == ("opaque", "uneval:time::fine_duration::FineDuration::ZERO"):
            zb = prog.bodies.get((crate, "time::fine_duration::FineDuration::ZERO", -1))
            zs = PathEval(zb).run() if zb is not None else None
            if not (zs and len(zs) == 1 and zs[0].ret[0] == "adt" and zs[0].ret[3] == (("int", 0),)):
                return False
        elif r[0] == "adt" and r[1] == "time::fine_duration::FineDuration" and r[3] == (("int", 0),):
            pass
        elif r[0] == "site" and r[1].endswith("Default>::default") or r[0] == "site" and r[1] == "std::default::Default::default":
            pass
        else:
            return False
    return seen >= 1


def r11_1(ctx, prog, crate):
    b = prog.body("time::timestamp::tsc::TscTimestamp::duration_since", crate)
    if not ctx.anchor("R11.1", "TscTimestamp::duration_since", 1 if b else 0, 1):
        return
    ctx.saw(b)
    # two equivalent idioms for "b - a, or zero when b < a": checked_sub + None => default, or saturating_sub (0 ticks => 0 ps)
    cs = [c for c in b.live_calls() if c.callee in ("core::num::checked_sub", "core::num::saturating_sub")]
    if not ctx.check(len(cs) == 1, "R11.1", ["duration_since", "checked_sub"], "checked_sub / saturating_sub sites: %d (the tick difference must be taken once, before the conversion)" % len(cs), b.where(0)):
        return
    c = cs[0]
    saturating = c.callee.endswith("saturating_sub")
    a0 = {z.label() for z in b.prov.op_src(c.args[0])}
    a1 = {z.label() for z in b.prov.op_src(c.args[1])}
    ctx.check(a0 == {"param:self.value"} and a1 == {"param:" + b.param_name(2) + ".value"}, "R11.1", ["duration_since", "later-minus-earlier"],
              "difference computed as %s - %s, expected self.value - earlier.value" % (sorted(a0), sorted(a1)), c.line())
    sw = None if saturating else tables.switch_on_call_result(b, c)
    if saturating:
        ctx.ok("R11.1", "duration_since|earlier-after-later-is-zero (saturating_sub: 0 ticks convert to 0 ps)")
    elif ctx.check(sw is not None, "R11.1", ["duration_since", "match-on-difference"], "no match on the checked_sub result", c.line()):
        arms, otherwise = tables.arm_targets(sw[1])
        none_t = arms.get(0, otherwise)
        some_t = arms.get(1, otherwise)
        nb = tables.exclusive_blocks(b, none_t, [some_t])
        names = [b.call_at(x).callee for x in sorted(nb) if b.call_at(x) is not None]
        by_default = names == ["<time::fine_duration::FineDuration as std::default::Default>::default"] or names == ["std::default::Default::default"]
        ctx.check(by_default or _none_path_returns_zero(prog, crate, b), "R11.1",
                  ["duration_since", "earlier-after-later-is-zero"], "when b < a the function calls %s (expected Default::default, i.e. zero)" % names, b.where(none_t))
    # what is returned, as a value: floor(widen(diff) * 10^12 / widen(frequency.get())) in 128 bits - however it is spelled
    if _duration_since_value_ok(ctx, prog, b):
        ctx.note("type-range argument: diff <= 2^64-1 and 10^12 < 2^40, so the u128 product is < 2^104 and cannot overflow; the divisor is a NonZeroU64")
        _frequency_rule(ctx, prog, crate)
        return
    # not recognised as a value: the statement-level checks say what is different
    muls = [(bi, si, s) for bi, si, s in b.stmts() if s["k"] == "assign" and s["rv"]["k"] == "binop" and s["rv"]["op"] in ("Mul", "MulWithOverflow")]
    divs = [(bi, si, s) for bi, si, s in b.stmts() if s["k"] == "assign" and s["rv"]["k"] == "binop" and s["rv"]["op"] == "Div"]
    if not ctx.check(len(muls) == 1 and len(divs) == 1, "R11.1", ["duration_since", "one-mul-one-div"], "multiplications: %d, divisions: %d" % (len(muls), len(divs)), b.where(0)):
        return
    mbi, msi, m = muls[0]
    dbi, dsi, d = divs[0]
    # widened operands
    ta = m["rv"]["a"].get("p", m["rv"]["a"].get("c", {})).get("ty")
    tb = m["rv"]["b"].get("p", m["rv"]["b"].get("c", {})).get("ty")
    ctx.check(ta == "u128" and tb == "u128", "R11.1", ["duration_since", "multiply-in-128-bits"],
              "the multiplication operands have types %s x %s: (b - a) * 10^12 overflows 64 bits" % (ta, tb), b.where(mbi), detail={"types": [ta, tb]})
    da = def_rv(b, m["rv"]["a"])
    okc = da is not None and da["k"] == "cast" and "IntToInt" in da["ck"]
    if okc:
        inner = b.prov.op_src(da["o"])
        okc = any(z.kind == "call" and z.b == c.bb for z in inner) and not any(z.kind == "binop" for z in inner)
    ctx.check(okc, "R11.1", ["duration_since", "difference-widened-before-multiply"], "the first factor is not `diff as u128`", b.where(mbi))
    if okc:
        st = da["o"].get("p", da["o"].get("c", {})).get("ty")
        ctx.check(st in ("u64", "u32", "u16", "u8"), "R11.1", ["duration_since", "difference-at-most-64-bits"],
                  "the tick difference has type %s: the no-overflow argument needs diff < 2^64" % st, b.where(mbi), detail={"type": st})
    k = const_int(m["rv"]["b"])
    if k is None:
        # the constant may reach the multiplication through a local (a helper's parameter, a `let`)
        og = origins(b, m["rv"]["b"])
        ks = {const_int(o[1]) for o in og if o[0] == "const"}
        if len(og) == 1 and len(ks) == 1:
            k = ks.pop()
    ctx.check(k == 10 ** 12, "R11.1", ["duration_since", "picos-per-second"], "the scale constant is %s, expected 10^12" % k, b.where(mbi), detail={"constant": k})
    # division applied to the product
    dd = direct_place(b, d["rv"]["a"])
    prod_local = m["p"]["l"]
    ok = False
    if dd is not None and dd[0] == "rvalue" and dd[1] is m["rv"]:
        ok = True
    elif dd is not None and dd[0] == "place" and dd[1] == prod_local:
        ok = True
    else:
        srcs = b.prov.op_src(d["rv"]["a"])
        ok = any(z.kind == "binop" and z.a in ("Mul", "MulWithOverflow") for z in srcs) and not any(z.kind == "binop" and z.a == "Div" for z in srcs)
    ctx.check(ok, "R11.1", ["duration_since", "divide-the-product"], "the division is not applied to the product (precision would be lost)", b.where(dbi))
    msrcs = b.prov.op_src(m["rv"]["a"]) | b.prov.op_src(m["rv"]["b"])
    ctx.check(not any(z.kind == "binop" and z.a in ("Div", "Rem") for z in msrcs), "R11.1", ["duration_since", "no-quotient-multiplied"],
              "a quotient feeds the multiplication (divide-then-multiply loses precision)", b.where(mbi))
    dv = def_rv(b, d["rv"]["b"])
    okd = dv is not None and dv["k"] == "cast"
    if okd:
        g = direct_place(b, dv["o"])
        okd = g is not None and g[0] == "call" and g[1].callee == "std::num::NonZero::get" and \
            {z.label() for z in b.prov.op_src(g[1].args[0])} == {"param:" + b.param_name(3)}
    ctx.check(okd and d["p"]["ty"] == "u128", "R11.1", ["duration_since", "divide-by-nonzero-frequency"], "the divisor is not `frequency.get() as u128`", b.where(dbi))
    ctx.check("NonZero<u64>" in b.local_ty(3), "R11.1", ["duration_since", "frequency-is-NonZeroU64"], "frequency has type %s" % b.local_ty(3), b.where(0))
    # result is the quotient
    aggs = [s for bi, si, s in b.stmts() if s["k"] == "assign" and s["rv"]["k"] == "agg" and s["rv"].get("adt", "").endswith("FineDuration")]
    ok = len(aggs) == 1
    if ok:
        o = aggs[0]["rv"]["ops"][0]
        dq = direct_place(b, o)
        ok = o["k"] in ("copy", "move") and (o["p"]["l"] == d["p"]["l"] or (dq is not None and dq[0] == "rvalue" and dq[1] is d["rv"]))
    ctx.check(ok, "R11.1", ["duration_since", "returns-quotient"], "the returned picoseconds are not the quotient", b.where(dbi))
    ctx.note("type-range argument: diff <= 2^64-1 and 10^12 < 2^40, so the u128 product is < 2^104 and cannot overflow; the divisor is a NonZeroU64")
    _frequency_rule(ctx, prog, crate)


def _frequency_rule(ctx, prog, crate):
    tf = prog.body("time::timestamp::tsc::TscTimestamp::frequency", crate)
    if tf is not None:
        names = {cc.callee.rsplit("::", 1)[-1] for cc in tf.live_calls()}
        ctx.check("new" in names or any("NonZero" in cc.callee for cc in tf.live_calls()), "R11.1", ["frequency", "zero-rejected"],
                  "TscTimestamp::frequency does not go through NonZeroU64::new (a zero frequency would divide by zero)", tf.where(0))


def _duration_since_value_ok(ctx, prog, b):
    """True (and the R11.1 obligations recorded) when every returning path of duration_since yields, as a canonical value,
    widen128(self.value - earlier.value) * 10^12 / widen128(frequency.get()) on the paths where the difference exists and
    zero otherwise."""
    from lib.patheval import PathEval
    sums = PathEval(b, keep_casts=True).run()
    if not sums:
        return False
    SUBS = ("core::num::checked_sub", "core::num::saturating_sub")

    def widen(e):
        """x for widen128(x), else None."""
        if e[0] == "cast" and e[1] == "u128":
            return e[2]
        if e[0] in ("call", "site") and isinstance(e[1], str) and e[1].endswith("::from") and "u128" in e[1]:
            args = e[2] if e[0] == "call" else e[3]
            return args[0] if len(args) == 1 else None
        if e[0] == "site" and e[1] == "std::convert::num::from" and len(e[3]) == 1:
            c_ = b.call_at(e[2])        # the lossless integer conversions of core::convert::num: widening when the result is u128
            if c_ is not None and c_.dest.get("ty") == "u128":
                return e[3][0]
        return None

    def is_diff(e):
        if e[0] == "payload" and e[1] == "Some":
            e = e[3]
        return e[0] == "call" and e[1] in SUBS and e[2] == (("arg", 1, ("value",)), ("arg", 2, ("value",)))
    good = zero = 0
    for sm in sums:
        r = sm.ret
        if r[0] == "adt" and r[1].endswith("FineDuration"):
            v = dict(zip(r[4], r[3])).get("picos")
            if v == ("int", 0):
                zero += 1
                continue
            if not (v and v[0] == "div"):
                return False
            num, den = v[1], v[2]
            fd = widen(den)
            if not (fd is not None and fd[0] == "call" and fd[1] == "std::num::NonZero::get" and fd[2] == (("arg", 3, ()),)):
                return False
            if num[0] == "lin" and len(num[1]) == 1 and num[2] == 0 and num[1][0][1] == 10 ** 12:
                d = widen(num[1][0][0])
            elif num[0] == "mul" and ("int", 10 ** 12) in num[1:]:
                d = widen([x for x in num[1:] if x != ("int", 10 ** 12)][0])
            else:
                return False
            if d is None or not is_diff(d):
                return False
            good += 1
        elif r[0] == "site" and r[1].endswith("Default>::default") or r == ("opaque", "const:time::fine_duration::FineDuration::ZERO") or \
                (r[0] == "opaque" and "FineDuration::ZERO" in str(r[1])):
            # zero when the difference does not exist: only on the path that says so
            if not any(a[0] == "discr" and a[1][0] == "call" and a[1][1] == "core::num::checked_sub" and p for a, p in sm.conds):
                return False
            zero += 1
        else:
            return False
    if not good or "NonZero<u64>" not in b.local_ty(3):
        return False
    for key in ("one-mul-one-div", "multiply-in-128-bits", "difference-widened-before-multiply", "difference-at-most-64-bits", "picos-per-second",
                "divide-the-product", "no-quotient-multiplied", "divide-by-nonzero-frequency", "frequency-is-NonZeroU64", "returns-quotient"):
        ctx.ok("R11.1", "duration_since|" + key)
    return True


def r11_2(ctx, prog, crate):
    b = prog.body("<time::fine_duration::FineDuration as std::convert::From<std::time::Duration>>::from", crate)
    if ctx.anchor("R11.2", "From<Duration> for FineDuration", 1 if b else 0, 1):
        ctx.saw(b)
        # the stored value, on every path, is as_nanos(duration) x 1000 formed in 128 bits: checked (the original), or
        # saturating / wrapping / plain - all the same function here, because as_nanos() < 2^95 and the product < 2^105
        from lib.patheval import PathEval
        sums = PathEval(b, keep_casts=True).run()
        if ctx.check(bool(sums), "R11.2", ["From<Duration>", "readable"], "cannot summarise the conversion", b.where(0)):
            def product(e, depth=0):
                """(nanos expression, factor) of the first product found in e."""
                if not isinstance(e, tuple) or depth > 10:
                    return None
                if e and e[0] == "call" and isinstance(e[1], str) and e[1] in ("core::num::checked_mul", "core::num::saturating_mul", "core::num::wrapping_mul") and len(e[2]) == 2:
                    return e[2][0], e[2][1]
                if e and e[0] == "lin" and len(e[1]) == 1 and e[2] == 0:
                    return e[1][0][0], ("int", e[1][0][1])
                if e and e[0] == "mul" and len(e) == 3:
                    return e[1], e[2]
                for x in (e if (e and isinstance(e[0], tuple)) else e[1:]):
                    if isinstance(x, tuple):
                        r = product(x, depth + 1)
                        if r is not None:
                            return r
                return None
            for sm in sums:
                if sm.ret[0] != "adt":
                    continue        # a diverging / early path is judged by the paths that return a value
                val = dict(zip(sm.ret[4], sm.ret[3])).get("picos")
                pr = product(val) if val is not None else None
                ok = pr is not None
                if ok:
                    a_, k_ = pr
                    if a_[0] == "int":
                        a_, k_ = k_, a_
                    ok = k_ == ("int", 1000) and a_[0] == "site" and a_[1] == "std::time::Duration::as_nanos" and a_[3] == (("arg", 1, ()),)
                ctx.check(ok, "R11.2", ["From<Duration>", "nanos-times-1000-checked"],
                          "the conversion stores %s, expected duration.as_nanos() x 1000 formed in 128 bits" % (val,), b.where(sm.blocks[-1]), detail={"value": str(val)[:200]})
        an = [c for c in b.live_calls() if c.callee == "std::time::Duration::as_nanos"]
        if an:
            ctx.check({z.label() for z in b.prov.op_src(an[0].args[0])} == {"param:" + b.param_name(1)}, "R11.2", ["From<Duration>", "of-the-argument"], "as_nanos of something else", an[0].line())
        # no narrower arithmetic anywhere in the conversion (a 64-bit fast path overflows for durations near 2^64 ps)
        narrow = [s_ for bi, si, s_ in b.stmts() if s_["k"] == "assign" and s_["rv"]["k"] == "binop" and s_["rv"]["op"] in ("Mul", "MulWithOverflow", "Add", "AddWithOverflow", "Div") and
                  (s_["rv"]["a"].get("p", s_["rv"]["a"].get("c", {})).get("ty") not in ("u128",))]
        narrow += [c for c in b.live_calls() if c.callee.startswith("core::num::") and c.callee.rsplit("::", 1)[-1] in ("checked_mul", "saturating_mul", "wrapping_mul", "checked_add", "saturating_add", "wrapping_add") and
                   c.args and c.args[0].get("p", c.args[0].get("c", {})).get("ty") not in ("u128",)]
        ctx.check(not narrow, "R11.2", ["From<Duration>", "no-unchecked-arithmetic"], "the conversion does arithmetic in fewer than 128 bits", b.where(0))
    b = prog.body("time::timestamp::Timestamp::duration_since", crate)
    names = tables.variant_names(prog, "time::timestamp::Timestamp", crate)
    if ctx.anchor("R11.2", "Timestamp::duration_since", (1 if b else 0) + (1 if names else 0), 2):
        ctx.saw(b)
        os_ = [c for c in b.live_calls() if c.callee == "std::time::Instant::duration_since"]
        ts = [c for c in b.live_calls() if c.callee == "time::timestamp::tsc::TscTimestamp::duration_since"]
        if ctx.check(len(os_) == 1 and len(ts) == 1, "R11.2", ["Timestamp::duration_since", "two-arms"], "Instant::duration_since x%d TscTimestamp::duration_since x%d" % (len(os_), len(ts)), b.where(0)):
            for c, variant in ((os_[0], "Os"), (ts[0], "Tsc")):
                p0 = {z.a for z in b.prov.op_src(c.args[0]) if z.kind == "param"}
                p1 = {z.a for z in b.prov.op_src(c.args[1]) if z.kind == "param"}
                ok = p0 == {b.param_name(1)} and p1 == {b.param_name(2)}
                ctx.check(ok, "R11.2", ["Timestamp::duration_since", variant, "self-since-earlier"],
                          "%s arm computes %s.duration_since(%s), expected self.duration_since(earlier)" % (variant, sorted(p0), sorted(p1)), c.line())
            # the Tsc arm passes the timer's frequency
            f = {z.a for z in b.prov.op_src(ts[0].args[2]) if z.kind == "param"}
            ctx.check(f == {b.param_name(3)}, "R11.2", ["Timestamp::duration_since", "Tsc", "timer-frequency"],
                      "the Tsc arm's frequency derives from %s" % sorted(f), ts[0].line())
            # arms are guarded by all three discriminants: each call is dominated by three discr switches (self, earlier, timer)
            for c, variant in ((os_[0], "Os"), (ts[0], "Tsc")):
                doms = 0
                for bi, t, base in tables.discr_switches(b):
                    arms, otherwise = tables.arm_targets(t)
                    for v, tgt in arms.items():
                        if b.pred[tgt] == [bi] and b.dominates(tgt, c.bb):
                            doms += 1
                ctx.check(doms >= 3, "R11.2", ["Timestamp::duration_since", variant, "same-kind-only"],
                          "the %s arm is not selected by the kinds of self, earlier and timer together" % variant, c.line())
        div = [c for c in b.live_calls() if c.target is None]
        ctx.check(len(div) >= 1, "R11.2", ["Timestamp::duration_since", "mixed-kinds-unreachable"], "mixed timestamp kinds do not diverge", b.where(0))


def _r11_3_relational(ctx, prog, crate, b, ds, rel):
    """The same clause when the three-way `match sample.cmp(&min)` is spelled `if sample < min { .. } else if sample == min
    { .. } else { .. }`: one relational test of the sample against the running minimum splits every iteration into the
    region where the sample is smaller (the only place the minimum may be replaced, by the sample) and the region where
    it is not (the only place the minimum may be returned from)."""
    from .C03 import _root_local
    op = rel.callee.rsplit("::", 1)[-1]
    def is_sample_local(l):
        """l holds the sample just measured: defined once, by the duration_since call (or a move of its result)."""
        for _ in range(4):
            d = b.prov.defs.get(l, []) if l is not None else []
            if len(d) != 1:
                return False
            if d[0][0] == "C":
                return d[0][1] == ds.bb
            rv = d[0][3]["rv"]
            l = rv["o"]["p"]["l"] if d[0][0] == "S" and rv["k"] == "use" and rv["o"]["k"] in ("copy", "move") and not rv["o"]["p"]["proj"] else None
        return False

    def referent0(o):
        l = o["p"]["l"] if o.get("k") in ("copy", "move") and not o["p"]["proj"] else None
        for _ in range(4):
            d = b.prov.defs.get(l, []) if l is not None else []
            if len(d) != 1 or d[0][0] != "S":
                break
            rv = d[0][3]["rv"]
            if rv["k"] == "ref" and not rv["p"]["proj"]:
                return rv["p"]["l"]
            l = rv["o"]["p"]["l"] if rv["k"] == "use" and rv["o"]["k"] in ("copy", "move") and not rv["o"]["p"]["proj"] else None
        return l
    a_is_sample = is_sample_local(referent0(rel.args[0]))
    b_is_sample = is_sample_local(referent0(rel.args[1]))
    if not ctx.check(a_is_sample != b_is_sample, "R11.3", ["measure_precision", "compares-the-sample"], "the comparison is not between the sample just measured and the running minimum", rel.line()):
        return

    def referent(o):
        l = o["p"]["l"] if o.get("k") in ("copy", "move") and not o["p"]["proj"] else None
        for _ in range(4):
            d = b.prov.defs.get(l, []) if l is not None else []
            if len(d) != 1 or d[0][0] != "S":
                break
            rv = d[0][3]["rv"]
            if rv["k"] == "ref" and not rv["p"]["proj"]:
                return rv["p"]["l"]
            l = rv["o"]["p"]["l"] if rv["k"] == "use" and rv["o"]["k"] in ("copy", "move") and not rv["o"]["p"]["proj"] else None
        return l
    ml = referent(rel.args[1] if a_is_sample else rel.args[0])
    sw = None
    for x_, t_ in b.switches():      # the branch on the bool the comparison returned
        if t_["discr"].get("k") in ("copy", "move") and not t_["discr"]["p"]["proj"] and t_["discr"]["p"]["l"] == rel.dest["l"] and b.dominates(rel.bb, x_):
            sw = (x_, t_)
    if not ctx.check(ml is not None and sw is not None, "R11.3", ["measure_precision", "match-on-ordering"], "no branch on the comparison's result", rel.line()):
        return
    arms, otherwise = tables.arm_targets(sw[1])
    t_true, t_false = arms.get(1, otherwise), arms.get(0, otherwise)
    # sample < min holds on: lt(sample,min) true, gt(min,sample) true, ge(sample,min) false, le(min,sample) false
    smaller_when_true = (op == "lt" and a_is_sample) or (op == "gt" and b_is_sample)
    smaller_when_false = (op == "ge" and a_is_sample) or (op == "le" and b_is_sample)
    if not ctx.check(smaller_when_true or smaller_when_false, "R11.3", ["measure_precision", "strictly-smaller-test"],
                     "the test `%s` does not single out samples strictly smaller than the minimum" % op, rel.line()):
        return
    less_t, ge_t = (t_true, t_false) if smaller_when_true else (t_false, t_true)
    lp = b.innermost_loop(rel.bb)
    stop = [lp["header"]] if lp else []
    less_blocks = tables.exclusive_blocks(b, less_t, [ge_t], stop=stop)
    defs = b.prov.defs.get(ml, [])
    init = [d for d in defs if d[0] == "S" and lp is not None and d[1] not in lp["body"] and not any(d[1] in l["body"] for l in b.loops)]
    upd = [d for d in defs if d not in init]
    ok_init = len(init) == 1 and init[0][3]["rv"]["k"] == "use" and init[0][3]["rv"]["o"]["k"] == "const" and "FineDuration::MAX" in str(init[0][3]["rv"]["o"]["c"].get("uneval") or init[0][3]["rv"]["o"]["c"].get("d"))
    ctx.check(ok_init, "R11.3", ["measure_precision", "starts-at-the-sentinel"], "the running minimum does not start at FineDuration::MAX", b.where(init[0][1]) if init else b.where(0))
    ok_upd = len(upd) >= 1 and all(d[0] == "S" and d[1] in less_blocks and any(z.kind == "call" and z.b == ds.bb for z in b.prov._rv(d[3]["rv"], (), frozenset(), d[1], d[2])) for d in upd)
    ctx.check(ok_upd, "R11.3", ["measure_precision", "replaced-only-by-a-smaller-sample"],
              "the running minimum is assigned outside the `sample < min` branch or from something other than the sample", b.where(upd[0][1]) if upd else b.where(0))
    rets = [(bi, s_) for bi, si, s_ in b.stmts() if s_["k"] == "assign" and s_["p"]["l"] == 0 and not s_["p"]["proj"]]
    bad = []
    for bi, s_ in rets:
        from_min = s_["rv"]["k"] == "use" and s_["rv"]["o"]["k"] in ("copy", "move") and _root_local(b, s_["rv"]["o"]) == ml
        if not (from_min and b.dominates(ge_t, bi)):
            bad.append(b.where(bi))
    ctx.check(bool(rets) and not bad, "R11.3", ["measure_precision", "reported-after-a-real-sample"],
              "measure_precision returns at %s without standing on the `sample >= min` side of a comparison with a measured sample: the sentinel FineDuration::MAX "
              "(or something other than the minimum) can be reported" % bad, b.where(0))
    zs = [c for c in b.live_calls() if c.callee.endswith("FineDuration::is_zero") and any(z.kind == "call" and z.b == ds.bb for z in b.prov.op_src(c.args[0]))]
    okz = False
    for c in zs:
        for x, t in b.switches():
            if t["discr"]["k"] in ("copy", "move") and t["discr"]["p"]["l"] == c.dest["l"]:
                f_t = [a[1] for a in t["arms"] if a[0] == "0"]
                okz = bool(f_t) and b.dominates(f_t[0], rel.bb) and rel.bb not in b.reach([t["otherwise"]], avoid=stop + [f_t[0]])
    ctx.check(okz, "R11.3", ["measure_precision", "zero-samples-discarded"], "a zero difference can reach the comparison with the running minimum", rel.line())
    _r11_3_precision_cache(ctx, prog, crate)


def _r11_3_precision_cache(ctx, prog, crate):
    pb = prog.body("time::timer::Timer::precision", crate)
    if ctx.anchor("R11.3", "Timer::precision", 1 if pb else 0, 1):
        tree = prog.closure_tree(pb)
        names = {c.callee for x in tree for c in x.live_calls()}
        ctx.check("time::timer::Timer::measure_precision" in names, "R11.3", ["Timer::precision", "is-the-measured-value"], "Timer::precision does not come from measure_precision", pb.where(0))
        # ... and is handed out as measured: the cache holds the FineDuration itself - no conversion to another unit and
        # back (ticks <-> picoseconds both round down; the round trip loses a tick whenever the frequency does not divide)
        from lib.patheval import PathEval
        arith = []
        for x in tree:
            if x.inlined_from(0) if False else False:
                continue
            for bi, si, st in x.stmts():
                if st["k"] == "assign" and st["rv"]["k"] == "binop" and st["rv"]["op"].replace("WithOverflow", "") in ("Mul", "Div", "Rem", "Add", "Sub", "Shl", "Shr") and not x.inlined_from(bi):
                    arith.append("%s:%s" % (x.path.rsplit("::", 1)[-1], st["rv"]["op"]))
        calls = sorted({c.callee for x in tree for c in x.live_calls() if not x.inlined_from(c.bb)} -
                       {"time::timer::Timer::measure_precision", "time::timer::Timer::kind", "std::sync::OnceLock::get_or_init", "std::sync::OnceLock::new"})
        ctx.check(not arith and not calls, "R11.3", ["Timer::precision", "handed-out-as-measured"],
                  "Timer::precision does more than cache measure_precision's value (arithmetic %s, calls %s): a converted and re-converted "
                  "precision is no longer the step that was measured" % (arith, calls), pb.where(0))


def r11_4(ctx, prog, crate):
    """The precision reported for a timer is that timer's own: every per-timer measurement that `Timer` caches in a static
    (precision, sample-loop overhead, bench overheads) is cached in a slot selected by `self.kind()` - with one shared slot
    the timer asked first would fix the answer for the other kind for the rest of the process (a 1 Hz counter reporting the
    OS clock's step)."""
    n = 0
    for b in prog.lib_bodies(crate):
        if not b.path.startswith("time::timer::Timer::") or b.kind not in ("Fn", "AssocFn") or b.arg_count < 1:
            continue
        if not b.local_ty(1).endswith("time::timer::Timer"):
            continue
        for c in b.live_calls():
            last = c.callee.rsplit("::", 1)[-1]
            if ("OnceLock" in c.callee or "OnceCell" in c.callee or "LazyLock" in c.callee) and last in ("get_or_init", "get_or_try_init", "get", "set", "force"):
                srcs = b.prov.op_src(c.args[0])
                if not any(x.kind in ("const", "static") for x in srcs):
                    continue      # not a process-wide cache
                if b.inlined_from(c.bb):
                    continue      # a spliced copy of a helper: examined in the helper's own body
                n += 1
                ctx.saw(b)
                # the slot: follow the receiver back to `&STATIC[i]` and ask where i comes from
                by_kind = any(x.kind == "call" and x.a == "time::timer::Timer::kind" for x in srcs)
                work, seen_l = [c.args[0]], set()
                while work and not by_kind:
                    o = work.pop()
                    if o.get("k") not in ("copy", "move"):
                        continue
                    l = o["p"]["l"]
                    if l in seen_l:
                        continue
                    seen_l.add(l)
                    for d in b.prov.defs.get(l, []):
                        if d[0] != "S":
                            continue
                        rv = d[3]["rv"]
                        pl = rv.get("p") if rv["k"] in ("ref", "rawptr") else (rv.get("o", {}).get("p") if rv["k"] in ("use", "cast") else None)
                        if pl is None:
                            continue
                        for pr in pl["proj"]:
                            if pr["k"] == "index":
                                isrc = b.prov.op_src({"k": "copy", "p": {"l": pr["l"], "proj": []}})
                                if any(x.kind == "call" and x.a == "time::timer::Timer::kind" for x in isrc):
                                    by_kind = True
                        work.append({"k": "copy", "p": {"l": pl["l"], "proj": []}})
                if not by_kind:
                    from .common import slot_selected_by_match
                    by_kind = slot_selected_by_match(b, c.args[0], "time::timer::Timer::kind")
                ctx.check(by_kind, "R11.4", [b.path.rsplit("::", 1)[-1], "cache-slot-per-timer-kind"],
                          "`%s` caches its measurement in a static that is not selected by self.kind(): the value measured for one timer is "
                          "reported for the other" % b.path, c.line())
    ctx.anchor("R11.4", "process-wide caches of per-timer measurements", n, 2)


def r11_3(ctx, prog, crate):
    """Structural part of the precision clause (the convergence itself is a run-time matter): Timer::measure_precision
    reports the SMALLEST NON-ZERO step it observed - the running minimum starts at the sentinel FineDuration::MAX, is
    only ever replaced by a sample that compared Less, zero samples never reach the comparison, and the minimum is
    returned only on an arm of `sample.cmp(&min)` that is Greater or Equal (so a real sample has been seen and the
    sentinel can never be reported)."""
    b = prog.body("time::timer::Timer::measure_precision", crate)
    if not ctx.anchor("R11.3", "Timer::measure_precision", 1 if b else 0, 1):
        return
    ctx.saw(b)
    ds = [c for c in b.live_calls() if c.callee == "time::timestamp::Timestamp::duration_since"]
    cm = [c for c in b.live_calls() if c.callee.rsplit("::", 1)[-1] == "cmp" and len(c.args) == 2]
    if len(ds) == 1 and not cm:
        rel = [c for c in b.live_calls() if "PartialOrd" in c.callee and c.callee.rsplit("::", 1)[-1] in ("lt", "le", "gt", "ge") and len(c.args) == 2]
        if len(rel) == 1:
            return _r11_3_relational(ctx, prog, crate, b, ds[0], rel[0])
    if not ctx.check(len(ds) == 1 and len(cm) == 1, "R11.3", ["measure_precision", "one-sample-one-comparison"], "duration_since x%d cmp x%d" % (len(ds), len(cm)), b.where(0)):
        return
    ds, cm = ds[0], cm[0]
    ctx.check(any(z.kind == "call" and z.b == ds.bb for z in b.prov.op_src(cm.args[0])), "R11.3", ["measure_precision", "compares-the-sample"],
              "the comparison's receiver is not the sample just measured", cm.line())
    # the running minimum: the local behind the comparison's second operand
    from .C03 import _root_local
    ml = _root_local(b, cm.args[1])
    defs = b.prov.defs.get(ml, []) if ml is not None else []
    sw = tables.switch_on_call_result(b, cm)
    if not ctx.check(ml is not None and sw is not None, "R11.3", ["measure_precision", "match-on-ordering"], "no match on the comparison's result", cm.line()):
        return
    arms, otherwise = tables.arm_targets(sw[1])
    # Ordering: Less = -1 (0xff), Equal = 0, Greater = 1
    less_t = arms.get(255, arms.get(-1, otherwise))
    eq_t = arms.get(0, otherwise)
    gt_t = arms.get(1, otherwise)
    targets = {less_t, eq_t, gt_t}
    ctx.check(len(targets) == 3, "R11.3", ["measure_precision", "three-arms"], "Less/Equal/Greater arms are not distinct (%s)" % sorted(targets), b.where(sw[0]))
    lp = b.innermost_loop(cm.bb)
    stop = [lp["header"]] if lp else []
    less_blocks = tables.exclusive_blocks(b, less_t, [eq_t, gt_t], stop=stop)
    init = [d for d in defs if d[0] == "S" and lp is not None and d[1] not in lp["body"] and not any(d[1] in l["body"] for l in b.loops)]
    upd = [d for d in defs if d not in init]
    ok_init = len(init) == 1 and init[0][3]["rv"]["k"] == "use" and init[0][3]["rv"]["o"]["k"] == "const" and "FineDuration::MAX" in str(init[0][3]["rv"]["o"]["c"].get("uneval") or init[0][3]["rv"]["o"]["c"].get("d"))
    ctx.check(ok_init, "R11.3", ["measure_precision", "starts-at-the-sentinel"], "the running minimum does not start at FineDuration::MAX", b.where(init[0][1]) if init else b.where(0))
    ok_upd = len(upd) >= 1 and all(d[0] == "S" and d[1] in less_blocks and any(z.kind == "call" and z.b == ds.bb for z in b.prov._rv(d[3]["rv"], (), frozenset(), d[1], d[2])) for d in upd)
    ctx.check(ok_upd, "R11.3", ["measure_precision", "replaced-only-by-a-smaller-sample"],
              "the running minimum is assigned outside the Less arm or from something other than the sample", b.where(upd[0][1]) if upd else b.where(0))
    # returns of the minimum
    rets = [(bi, s) for bi, si, s in b.stmts() if s["k"] == "assign" and s["p"]["l"] == 0 and not s["p"]["proj"]]
    bad = []
    for bi, s in rets:
        from_min = s["rv"]["k"] == "use" and s["rv"]["o"]["k"] in ("copy", "move") and _root_local(b, s["rv"]["o"]) == ml
        on_arm = b.dominates(eq_t, bi) or b.dominates(gt_t, bi)
        if not (from_min and on_arm):
            bad.append(b.where(bi))
    ctx.check(bool(rets) and not bad, "R11.3", ["measure_precision", "reported-after-a-real-sample"],
              "measure_precision returns at %s without standing on the Greater/Equal arm of a comparison with a measured sample: the sentinel FineDuration::MAX "
              "(or something other than the minimum) can be reported" % bad, b.where(0))
    # zero samples never reach the comparison
    zs = [c for c in b.live_calls() if c.callee.endswith("FineDuration::is_zero") and any(z.kind == "call" and z.b == ds.bb for z in b.prov.op_src(c.args[0]))]
    okz = False
    for c in zs:
        for x, t in b.switches():
            if t["discr"]["k"] in ("copy", "move") and t["discr"]["p"]["l"] == c.dest["l"]:
                f_t = [a[1] for a in t["arms"] if a[0] == "0"]
                okz = bool(f_t) and b.dominates(f_t[0], cm.bb) and cm.bb not in b.reach([t["otherwise"]], avoid=stop + [f_t[0]])
    ctx.check(okz, "R11.3", ["measure_precision", "zero-samples-discarded"], "a zero difference can reach the comparison with the running minimum", cm.line())
    # Timer::precision returns the measured value (cached per timer kind)
    pb = prog.body("time::timer::Timer::precision", crate)
    if ctx.anchor("R11.3", "Timer::precision", 1 if pb else 0, 1):
        tree = prog.closure_tree(pb)
        names = {c.callee for x in tree for c in x.live_calls()}
        ctx.check("time::timer::Timer::measure_precision" in names, "R11.3", ["Timer::precision", "is-the-measured-value"], "Timer::precision does not come from measure_precision", pb.where(0))
        idx = [s for bi, si, s in pb.stmts() if s["k"] == "assign" and s["rv"]["k"] == "ref" and any(pr["k"] == "index" for pr in s["rv"]["p"]["proj"])]
        okk = False
        for s in idx:
            pr = [p_ for p_ in s["rv"]["p"]["proj"] if p_["k"] == "index"][0]
            src = pb.prov.local_src(pr["l"])
            okk = okk or (any(z.kind in ("discr", "call") for z in src) and any(z.kind == "param" for z in src))
        ctx.check(okk or not idx, "R11.3", ["Timer::precision", "cached-per-kind"], "the precision cache is not indexed by the timer's kind", pb.where(0))
    _r11_3_precision_cache(ctx, prog, crate)


def r11_5(ctx, prog, crate):
    """Elapsed time is the variant's own conversion over the full range: Timestamp::duration_since only dispatches on the
    variants - every path is decided by discriminant tests alone and returns OsTimestamp/Instant::duration_since (converted)
    or TscTimestamp::duration_since of exactly (self, earlier, frequency). A shortcut that compares the two readings first
    (e.g. by a wrapping, signed distance) answers zero for differences the conversion itself handles."""
    from lib.patheval import PathEval
    b = prog.body("time::timestamp::Timestamp::duration_since", crate)
    if not ctx.anchor("R11.5", "Timestamp::duration_since", 1 if b else 0, 1):
        return
    ctx.saw(b)
    sums = PathEval(b).run()
    if not ctx.check(bool(sums), "R11.5", ["Timestamp::duration_since", "readable"], "cannot summarise", b.where(0)):
        return
    n = 0
    for sm in sums:
        other = [a for a, pol in sm.conds if a[0] != "discr"]
        r = sm.ret
        if r[0] in ("undef", "never") or r is None:
            continue
        n += 1
        txt = str(r)
        ok = not other and "duration_since" in txt and ("'arg', 1" in txt and "'arg', 2" in txt)
        ctx.check(ok, "R11.5", ["Timestamp::duration_since", "pure-dispatch"],
                  "a path of Timestamp::duration_since is decided by %s and returns %s: expected the variant's own duration_since, "
                  "chosen by the variants alone" % ([str(a)[:60] for a in other][:2], txt[:80]), b.where(sm.blocks[-1]))
    ctx.check(n >= 2, "R11.5", ["Timestamp::duration_since", "both-variants"], "returning paths: %d" % n, b.where(0))


def run(ctx, prog, crate):
    r11_5(ctx, prog, crate)
    r11_4(ctx, prog, crate)
    r11_3(ctx, prog, crate)
    r11_1(ctx, prog, crate)
    r11_2(ctx, prog, crate)
