"""C14  Listing runs nothing and agrees exactly with what a run would execute."""
from lib.facts import norm, origins, place_root_fields
from lib import tables

INLINE = True      # crate-local helpers the rules do not know by name are inlined into their callers (lib/inline.py)
EXPLANATION = (
    "R14.1: each public entry point passes the action it documents to run_action (list_benches an action accepted by "
    "Action::is_list/is_list_terse, tables read from the matches! bodies). R14.2: in run_bench_entry every call that "
    "can reach user code (the run_bench closure, fn-pointer/dyn calls, Bencher/BenchContext construction) is dominated "
    "by the is_list() test and unreachable from its true edge; in run_action the terse-list branch returns before "
    "run_tree and the callee closure of run_tree_list contains no user-reaching callee. R14.3: every should_ignore(x) "
    "site: x derives from the runner's bench_options.ignore merged over the inherited entry options, runner first, "
    "and is evaluated for leaves only. R14.4: run_tree_list prints exactly one line per argument-less leaf, one per "
    "element of the leaf's args, and only recurses for parents. Decides these clauses exactly; not the printed text."
    ' R14.4 also: the argument lines are printed from the args of the Leaf being visited (the list the filters already pruned), identified as a canonical value expression, whether by a for loop or by for_each. R14.5 the Exact arm of Filter::is_match is whole-string equality of filter text and candidate path (round trip of listed paths). R14.6 the listed path is parent::name: on every path through one iteration of run_tree_list\'s loop the content of the reused path buffer at its first read is [parent, \'::\', display_name] when the parent is non-empty and [display_name] at the root, independent of what the previous sibling left (content tracked through clear/push_str/truncate). R14.7 the action the command line asks for: on every path of config_with_args from the --list test to the store into self.action the stored variant is the documented function of the flags (--list gives List, ListTerse exactly with --format terse; otherwise --test or no --bench gives Test; otherwise Bench). R14.8 (= R15.4) every listed case is one a run executes: the per-thread-count loop of run_bench_entry is never empty (an empty thread list becomes [1]).')
EXPLANATION += (' R14.9 (= R13.6) a listed path given back as a filter reaches the filter set exactly as typed (no delimiter / parser / default on the clap definitions of filter and --skip).')
EXPLANATION += (' R14.10 AnyBenchEntry::arg_names is Some(runner.arg_names()) exactly for an Args runner (an empty list is still Some).')
NOT_DECIDED = ["textual equality of printed lines with cargo-nextest's expectations", "uniqueness of display paths"]

USER_REACHING = ("benchmark::Bencher::new", "benchmark::BenchContext::new", "benchmark::BenchContext::compute_stats")


def action_predicate_table(prog, crate, fn):
    """{variant name: bool} for Action::is_xxx(&self) implemented by matches!."""
    b = prog.body("config::Action::" + fn, crate)
    names = tables.variant_names(prog, "config::Action", crate)
    if b is None or names is None:
        return None
    sws = tables.discr_switches(b)
    if len(sws) != 1:
        return None
    bi, t, _ = sws[0]
    vals = tables.return_values_per_arm(b, bi, t)
    out = {n: None for n in names}
    default = None
    if "otherwise" in vals and len(vals["otherwise"]) == 1:
        default = list(vals["otherwise"])[0]
    for i, n in enumerate(names):
        v = vals.get(i)
        lab = list(v)[0] if v and len(v) == 1 else default
        if lab and lab[0] == "const":
            out[n] = bool(lab[1])
    return out


def action_arg(b, c, idx=1):
    srcs = b.prov.op_src(c.args[idx])
    vs = {s.a.rsplit("::", 1)[-1] for s in srcs if s.kind == "variant" and s.a.startswith("config::Action::")}
    others = {s.label() for s in srcs if s.kind not in ("variant",)}
    return vs, others


def r14_1(ctx, prog, crate):
    is_list = action_predicate_table(prog, crate, "is_list")
    is_terse = action_predicate_table(prog, crate, "is_list_terse")
    is_test = action_predicate_table(prog, crate, "is_test")
    is_bench = action_predicate_table(prog, crate, "is_bench")
    if not ctx.anchor("R14.1", "Action::is_* predicate tables", sum(1 for x in (is_list, is_terse, is_test, is_bench) if x), 4):
        return None
    for nm, tab, want in (("is_list", is_list, {"List"}), ("is_list_terse", is_terse, {"ListTerse"}),
                          ("is_test", is_test, {"Test"}), ("is_bench", is_bench, {"Bench"})):
        got = {k for k, v in tab.items() if v}
        ctx.check(got == want and None not in tab.values(), "R14.1", ["Action::" + nm, "table"],
                  "Action::%s is true for %s, expected %s" % (nm, sorted(got), sorted(want)), None, detail=tab)
    listing = {k for k in is_list if is_list[k] or is_terse[k]}
    spec = {"run_benches": {"Bench"}, "test_benches": {"Test"}, "list_benches": listing}
    for fn, accepted in spec.items():
        b = prog.body("divan::Divan::" + fn, crate)
        if not ctx.anchor("R14.1", "Divan::" + fn, 1 if b else 0, 1):
            continue
        ctx.saw(b)
        cs = [c for c in b.live_calls() if c.callee == "divan::Divan::run_action"]
        if not ctx.check(len(cs) == 1, "R14.1", [fn, "calls-run_action-once"], "run_action call sites: %d" % len(cs), b.where(0)):
            continue
        vs, others = action_arg(b, cs[0])
        ctx.check(len(vs) == 1 and vs <= accepted and not others, "R14.1", [fn, "action"],
                  "`Divan::%s` runs action %s, expected one of %s" % (fn, sorted(vs) + sorted(others), sorted(accepted)),
                  cs[0].line(), detail={"entry": fn, "action": sorted(vs)})
    # main(): forwards self.action
    b = prog.body("divan::Divan::main", crate)
    if ctx.anchor("R14.1", "Divan::main", 1 if b else 0, 1):
        cs = [c for c in b.live_calls() if c.callee == "divan::Divan::run_action"]
        ok = len(cs) == 1 and {s.label() for s in b.prov.op_src(cs[0].args[1])} == {"param:self.action"}
        ctx.check(ok, "R14.1", ["main", "configured-action"], "Divan::main does not run self.action", b.where(0))
    return listing


def user_reaching(prog, b, c):
    if c.callee in USER_REACHING:
        return c.callee
    if c.decl is None:
        return "indirect:" + c.name
    if c.is_fn_trait_call:
        res = norm(c.resolved) if c.resolved else None
        if res and "{closure#" in res:
            cb = prog.bodies.get((b.crate, res, -1))
            if cb is not None:
                bodies, ext, ind = prog.callee_closure([cb], crate=b.crate)
                if ind or any(n in USER_REACHING for n in ext) or any(x.path in USER_REACHING for x in bodies):
                    return "closure:" + res
            return None
        return "fn-value:" + c.name
    if c.callee.endswith("BenchArgsRunner::bench") or c.callee.endswith("::bench_runner"):
        return c.callee if c.callee.endswith("BenchArgsRunner::bench") else None
    return None


def r14_2(ctx, prog, crate):
    b = prog.body("divan::Divan::run_bench_entry", crate)
    if not ctx.anchor("R14.2", "Divan::run_bench_entry", 1 if b else 0, 1):
        return
    ctx.saw(b)
    tests = [c for c in b.live_calls() if c.callee == "config::Action::is_list"]
    if not ctx.check(len(tests) == 1, "R14.2", ["run_bench_entry", "is_list-test"], "is_list() tests: %d" % len(tests), b.where(0)):
        return
    t = tests[0]
    recv = {s.label() for s in b.prov.op_src(t.args[0])}
    ctx.check(recv == {"param:" + b.param_name(2)}, "R14.2", ["run_bench_entry", "is_list-of-action-param"],
              "is_list() is applied to %s, expected the `action` parameter" % sorted(recv), t.line())
    # the switch on its result
    sw = None
    for bi, term in b.switches():
        if any(s.kind == "call" and s.b == t.bb for s in b.prov.op_src(term["discr"])) and \
                not any(s.kind in ("binop", "unop") for s in b.prov.op_src(term["discr"])):
            sw = (bi, term)
    if not ctx.check(sw is not None, "R14.2", ["run_bench_entry", "branch-on-is_list"], "no branch on is_list()", t.line()):
        return
    bi, term = sw
    true_tgt = term["otherwise"]
    false_tgt = [a[1] for a in term["arms"] if a[0] == "0"][0]
    n = 0
    for c in b.live_calls():
        why = user_reaching(prog, b, c)
        if why is None:
            continue
        n += 1
        ctx.calls_examined += 1
        dom = b.dominates(t.bb, c.bb)
        from_true = c.bb in b.reach([true_tgt])
        ctx.check(dom and not from_true, "R14.2", ["run_bench_entry", "after-list-short-circuit", why],
                  "`%s` can run although the action is a listing (not guarded by the is_list() short-circuit)" % why, c.line())
    ctx.anchor("R14.2", "user-reaching call sites in run_bench_entry", n, 2)
    # the true edge returns after painting an empty leaf only
    names = sorted({c.callee.rsplit("::", 1)[-1] for c in b.live_calls() if c.bb in b.reach([true_tgt]) and "TreePainter::" in c.callee})
    ctx.check(names == ["finish_empty_leaf", "start_leaf"], "R14.2", ["run_bench_entry", "listing-paints-empty-leaf"],
              "on the listing edge the painter calls are %s" % names, b.where(true_tgt))
    # who constructs a Bencher / BenchContext
    for c in prog.callers_of("benchmark::Bencher::new", "benchmark::BenchContext::new", crates=[crate]):
        if c.body.path.startswith("benchmark::tests::"):
            continue
        from .common import hosted_in
        ctx.check(c.body.path != "divan::Divan::run_bench_entry" and c.body.kind == "Closure" and hosted_in(prog, c.body, "divan::Divan::run_bench_entry"), "R14.2", ["constructor", c.callee, c.body.path],
                  "`%s` is called from `%s` (only the run_bench closure of run_bench_entry may)" % (c.callee, c.body.path), c.line())
    # run_action: terse listing returns before run_tree
    ra = prog.body("divan::Divan::run_action", crate)
    if not ctx.anchor("R14.2", "Divan::run_action", 1 if ra else 0, 1):
        return
    ctx.saw(ra)
    tt = [c for c in ra.live_calls() if c.callee == "config::Action::is_list_terse"]
    rt = [c for c in ra.live_calls() if c.callee == "divan::Divan::run_tree"]
    rl = [c for c in ra.live_calls() if c.callee == "divan::Divan::run_tree_list"]
    if ctx.check(len(tt) == 1 and len(rt) == 1 and len(rl) == 1, "R14.2", ["run_action", "shape"],
                 "run_action: is_list_terse x%d run_tree x%d run_tree_list x%d" % (len(tt), len(rt), len(rl)), ra.where(0)):
        recv = {s.label() for s in ra.prov.op_src(tt[0].args[0])}
        ctx.check(recv == {"param:" + ra.param_name(2)}, "R14.2", ["run_action", "terse-test-of-action-param"],
                  "is_list_terse applied to %s" % sorted(recv), tt[0].line())
        ctx.check(rt[0].bb not in ra.reach([rl[0].bb]), "R14.2", ["run_action", "terse-list-returns-before-run_tree"],
                  "run_tree is reachable after run_tree_list", rl[0].line())
        ctx.check(ra.dominates(tt[0].bb, rt[0].bb) and ra.dominates(tt[0].bb, rl[0].bb), "R14.2", ["run_action", "terse-test-dominates"],
                  "the terse test does not dominate both walks", tt[0].line())
        # run_tree_list only on the true edge
        for bi2, term2 in ra.switches():
            if any(s.kind == "call" and s.b == tt[0].bb for s in ra.prov.op_src(term2["discr"])):
                zero = [a[1] for a in term2["arms"] if a[0] == "0"]
                ctx.check(zero and rl[0].bb not in ra.reach(zero) and rt[0].bb not in ra.reach([term2["otherwise"]]), "R14.2",
                          ["run_action", "terse-edge-polarity"], "terse listing is not confined to the is_list_terse() edge", tt[0].line())
        # the action handed to run_tree is the parameter
        a = {s.label() for s in ra.prov.op_src(rt[0].args[1])}
        ctx.check(a == {"param:" + ra.param_name(2)}, "R14.2", ["run_action", "run_tree-gets-action"], "run_tree gets %s" % sorted(a), rt[0].line())
    requested_action_governs(ctx, "R14.2", prog, crate)
    tl = prog.body("divan::Divan::run_tree_list", crate)
    if ctx.anchor("R14.2", "Divan::run_tree_list", 1 if tl else 0, 1):
        bodies, ext, ind = prog.callee_closure([tl], crate=crate)
        bad = [x.path for x in bodies if x.path.startswith(("divan::Divan::run_bench_entry", "divan::Divan::run_tree::", "benchmark::"))
               and not x.path.startswith("benchmark::options::")]
        bad += [n for n in ext if n in USER_REACHING]
        # exceptions (named): the macro-generated naming callbacks of generic entries (type_name / ToString of a
        # const), reached through display_name(); they are not benchmarked functions nor Bencher closures
        naming = ("entry::generic::EntryConst::name", "entry::generic::EntryType::raw_name", "entry::generic::EntryType::display_name")
        ind = [c for c in ind if not c.body.path.startswith(naming)]
        ctx.check(not bad and not ind, "R14.2", ["run_tree_list", "runs-nothing"],
                  "the terse listing can reach %s %s" % (bad, [(c.body.path, c.name) for c in ind]), tl.where(0))
        for x in bodies:
            ctx.saw(x)


def leaf_arm(prog, b, crate):
    """(switch bb, leaf target, parent target) of the match on an EntryTree value in b."""
    names = tables.variant_names(prog, "entry::tree::EntryTree", crate)
    out = []
    for bi, t, base in tables.discr_switches(b):
        # discriminant((*_x)) where _x : &EntryTree
        defs = [d for d in b.prov.defs.get(t["discr"]["p"]["l"], []) if d[0] == "S" and d[3]["rv"]["k"] == "discr"]
        if not defs:
            continue
        pty = defs[0][3]["rv"]["p"]["ty"]
        if not pty.startswith("entry::tree::EntryTree"):
            continue
        arms, otherwise = tables.arm_targets(t)
        leaf = arms.get(names.index("Leaf"))
        parent = arms.get(names.index("Parent"))
        if leaf is None and parent is not None:
            leaf = otherwise
        if parent is None and leaf is not None:
            parent = otherwise
        out.append((bi, leaf, parent))
    return out


def requested_action_governs(ctx, rule, prog, crate):
    """The action an entry point asks for (run_benches -> Bench, test_benches -> Test, list_benches -> List, main -> the
    configured one) is THE action of the run: inside run_action the configured `self.action` is never consulted, and the
    SharedContext every benchmark reads its mode from (initial_mode: is_test, stats: is_bench) is built with the
    parameter.  Shared by R14.2 and R03.7."""
    ra = prog.body("divan::Divan::run_action", crate)
    if not ctx.anchor(rule, "Divan::run_action", 1 if ra else 0, 1):
        return
    aggs = [(bi, s) for bi, si, s in ra.stmts() if s["k"] == "assign" and s["rv"]["k"] == "agg" and s["rv"]["ak"] == "adt" and norm(s["rv"]["adt"]).endswith("SharedContext")]
    if ctx.check(len(aggs) == 1 and "action" in aggs[0][1]["rv"].get("fields", []), rule, ["run_action", "one-SharedContext"],
                 "SharedContext aggregates in run_action: %d" % len(aggs), ra.where(0)):
        bi, s = aggs[0]
        o = s["rv"]["ops"][s["rv"]["fields"].index("action")]
        srcs = ra.prov.op_src(o)
        lab = {z.label() for z in srcs if z.kind in ("param", "const", "variant", "call")}
        ctx.check(lab == {"param:" + ra.param_name(2)} and not any(z.kind == "phi" for z in srcs), rule, ["run_action", "shared-context-gets-requested-action"],
                  "SharedContext.action is %s, expected the `action` parameter of run_action (the mode every benchmark runs in)" % sorted(lab), ra.where(bi))
    reads = []
    for x in prog.closure_tree(ra):
        for bi, si, s in x.stmts():
            if s["k"] != "assign":
                continue
            rv = s["rv"]
            pl = rv.get("p") if rv["k"] in ("ref", "discr") else (rv["o"].get("p") if rv["k"] in ("use", "cast") and rv.get("o", {}).get("k") in ("copy", "move") else None)
            if pl is not None and pl["l"] == 1 and x is ra and place_fields_(pl)[:1] == ("action",):
                reads.append(x.where(bi))
    ctx.check(not reads, rule, ["run_action", "configured-action-not-consulted"],
              "run_action reads self.action (%s): the action requested by the entry point can be overridden by the configured one" % reads, ra.where(0))


def place_fields_(p):
    from lib.facts import place_fields
    return place_fields(p)


def r14_3(ctx, prog, crate):
    sites = [c for c in prog.callers_of("divan::Divan::should_ignore", crates=[crate])]
    ctx.anchor("R14.3", "should_ignore call sites", sites, 2)
    for c in sites:
        b = c.body
        ctx.saw(b)
        srcs = b.prov.op_src(c.args[1])
        runner = any(s.kind == "param" and s.a == "self" and s.b[:1] == ("bench_options",) for s in srcs)
        entry = any((s.kind == "param" and "BenchOptions" in (b.local_ty_of_param(s.a) or "") and s.a != "self") or
                    (s.kind == "call" and s.a in ("entry::tree::EntryTree::bench_options", "benchmark::options::BenchOptions::overwrite"))
                    for s in srcs)
        ctx.check(runner, "R14.3", [b.path, "runner-override-participates"],
                  "the ignore decision does not take the runner's bench_options.ignore into account (derives from %s)"
                  % sorted(s.label() for s in srcs if s.kind in ("param", "call")), c.line())
        ctx.check(entry, "R14.3", [b.path, "inherited-options-participate"],
                  "the ignore decision does not take the (inherited) entry options into account", c.line())
        # `ignore` is the field consulted
        fields = set()
        for s in srcs:
            if s.kind == "param" and s.b:
                fields.add(s.b[-1])
        # runner first
        for s in srcs:
            if s.kind == "call" and s.a == "std::option::Option::or":
                oc = b.call_at(s.b)
                if "Option<bool>" not in oc.dest["ty"]:
                    continue    # an `or` between option *sets* (e.g. child_options.or(parent_options)), not the ignore decision
                a0 = {x.label() for x in b.prov.op_src(oc.args[0])}
                ctx.check(a0 == {"param:self.bench_options.ignore"}, "R14.3", [b.path, "runner-has-priority"],
                          "Option::or receiver is %s, expected self.bench_options.ignore (run time overrides attributes)" % sorted(a0), oc.line())
                # the other side reads `.ignore` of the inherited options
                a1 = b.prov.op_src(oc.args[1])
                ok1 = any(x.kind == "call" and x.a == "std::option::Option::and_then" for x in a1)
                if ok1:
                    for x in a1:
                        if x.kind == "call" and x.a == "std::option::Option::and_then":
                            ac = b.call_at(x.b)
                            cl = [y for y in b.prov.op_src(ac.args[1]) if y.kind == "variant"]
                            cbs = [s2 for bi2, si2, s2 in b.stmts() if s2["k"] == "assign" and s2["rv"]["k"] == "agg" and s2["rv"]["ak"] == "closure"
                                   and s2["p"]["l"] == ac.args[1]["p"]["l"]]
                            for s2 in cbs:
                                cb = prog.bodies.get((b.crate, norm(s2["rv"]["def"]), -1))
                                r = {y.label() for y in cb.prov.local_src(0)}
                                ctx.check(r == {"param:" + cb.param_name(2) + ".ignore"}, "R14.3", [b.path, "inherited-ignore-field"],
                                          "inherited option read is %s, expected `.ignore`" % sorted(r), cb.where(0))
            if s.kind == "call" and s.a == "benchmark::options::BenchOptions::overwrite":
                oc = b.call_at(s.b)
                a0 = {x.label() for x in b.prov.op_src(oc.args[0])}
                if "param:self.bench_options" in a0 or any(l.startswith("param:self") for l in a0):
                    ctx.check(a0 == {"param:self.bench_options"}, "R14.3", [b.path, "runner-has-priority"],
                              "overwrite receiver is %s, expected self.bench_options" % sorted(a0), oc.line())
        if not any(s.kind == "call" and s.a == "std::option::Option::or" and "Option<bool>" in b.call_at(s.b).dest["ty"] for s in srcs):
            ctx.check("ignore" in fields or any(s.kind == "call" and s.a == "benchmark::options::BenchOptions::overwrite" for s in srcs),
                      "R14.3", [b.path, "ignore-field"], "the decision is not read from an `ignore` field", c.line())
            # direct field read of the merged options
            from lib.facts import direct_place
            d = direct_place(b, c.args[1])
            if d and d[0] == "call" and d[1].callee.endswith("unwrap_or_default"):
                d2 = direct_place(b, d[1].args[0])
                ctx.check(d2 and d2[0] == "place" and d2[2][-1:] == ("ignore",), "R14.3", [b.path, "ignore-field-read"],
                          "should_ignore's argument is not `<options>.ignore.unwrap_or_default()` (%s)" % (d2,), c.line())
        # leaves only
        leaf_only = False
        if any("AnyBenchEntry" in b.local_ty(l) for l in range(1, b.arg_count + 1)):
            leaf_only = True  # per-leaf function; its callers are checked below
        else:
            for bi, leaf, parent in leaf_arm(prog, b, crate):
                if leaf is not None and b.dominates(leaf, c.bb) and b.pred[leaf] == [bi] and leaf != parent:
                    leaf_only = True
        ctx.check(leaf_only, "R14.3", [b.path, "leaves-only"],
                  "the ignore decision is applied to group/module nodes as well (not confined to the Leaf arm)", c.line())
    # run_bench_entry is only called on the Leaf arm of run_tree
    for c in prog.callers_of("divan::Divan::run_bench_entry", crates=[crate]):
        b = c.body
        ok = False
        for bi, leaf, parent in leaf_arm(prog, b, crate):
            if leaf is not None and b.dominates(leaf, c.bb) and b.pred[leaf] == [bi]:
                ok = True
        ctx.check(ok, "R14.3", [b.path, "run_bench_entry-on-leaf-arm"], "run_bench_entry is called outside a Leaf arm", c.line())
    # inherited options in run_tree_list are merged exactly like run_tree: recursion gets overwrite(child, parent)
    for fn in ("divan::Divan::run_tree_list", "divan::Divan::run_tree"):
        b = prog.body(fn, crate)
        if b is None:
            continue
        recs = [c for c in b.live_calls() if c.callee == fn]
        if not ctx.check(len(recs) == 1, "R14.3", [fn, "one-recursive-call"], "recursive calls: %d" % len(recs), b.where(0)):
            continue
        c = recs[0]
        opt_args = [a for a in c.args if a["k"] in ("copy", "move") and "BenchOptions" in a["p"]["ty"]]
        if not ctx.check(len(opt_args) == 1, "R14.3", [fn, "recursion-carries-options"],
                         "the recursive call does not carry inherited options", c.line()):
            continue
        srcs = b.prov.op_src(opt_args[0])
        ow = [s for s in srcs if s.kind == "call" and s.a == "benchmark::options::BenchOptions::overwrite"]
        ctx.check(len(ow) == 1, "R14.3", [fn, "recursion-options-merged"], "inherited options are not merged with overwrite()", c.line())
        for s in ow:
            oc = b.call_at(s.b)
            s0 = b.prov.op_src(oc.args[0])
            s1 = b.prov.op_src(oc.args[1])
            opt_param = [b.param_name(l) for l in range(1, b.arg_count + 1) if "BenchOptions" in b.local_ty(l)]
            child0 = any(x.kind == "call" and x.a == "entry::tree::EntryTree::bench_options" for x in s0)
            parent0 = any(x.kind == "param" and x.a in opt_param for x in s0)
            child1 = any(x.kind == "call" and x.a == "entry::tree::EntryTree::bench_options" for x in s1)
            parent1 = any(x.kind == "param" and x.a in opt_param for x in s1)
            ctx.check(child0 and not parent0 and parent1 and not child1, "R14.3", [fn, "child-over-parent"],
                      "overwrite(receiver from %s, argument from %s): expected child.bench_options().overwrite(parent_options)"
                      % ("child" if child0 else "parent" if parent0 else "?", "parent" if parent1 else "child" if child1 else "?"), oc.line())


def r14_4(ctx, prog, crate):
    b = prog.body("divan::Divan::run_tree_list", crate)
    if b is None:
        return
    prints = [c for c in b.live_calls() if c.callee == "std::io::_print"]
    recs = [c for c in b.live_calls() if c.callee == b.path]
    # idiom 2: the per-argument line is printed by a closure handed to Iterator::for_each over the arguments
    fe_site = None
    if len(prints) == 1 and len(recs) == 1:
        for x in prog.children(b):
            if x.kind != "Closure":
                continue
            xp = [c for c in x.live_calls() if c.callee == "std::io::_print"]
            if len(xp) != 1:
                continue
            for c in b.live_calls():
                if c.callee.endswith("::for_each") and len(c.args) == 2:
                    og = origins(b, c.args[1])
                    if any(o[0] == "rvalue" and o[1]["k"] == "agg" and o[1]["ak"] == "closure" and norm(o[1]["def"]) == x.path for o in og):
                        fe_site = (c, x, xp[0])
    if fe_site is not None:
        return _r14_4_for_each(ctx, prog, crate, b, prints[0], recs[0], fe_site)
    if not ctx.check(len(prints) == 2 and len(recs) == 1, "R14.4", ["run_tree_list", "two-print-sites-one-recursion"],
                     "print sites: %d, recursive calls: %d" % (len(prints), len(recs)), b.where(0)):
        return
    outer = [l for l in b.loops if all(p.bb in l["body"] for p in prints) and recs[0].bb in l["body"]]
    if not ctx.check(len(outer) >= 1, "R14.4", ["run_tree_list", "per-child-loop"], "prints/recursion are not inside the per-child loop", b.where(0)):
        return
    outer = max(outer, key=lambda l: len(l["body"]))
    inner = [l for l in b.loops if l["header"] != outer["header"] and l["body"] <= outer["body"]]
    in_inner = [p for p in prints if any(p.bb in l["body"] for l in inner)]
    plain = [p for p in prints if p not in in_inner]
    if not ctx.check(len(in_inner) == 1 and len(plain) == 1, "R14.4", ["run_tree_list", "one-plain-one-per-argument"],
                     "expected one print outside and one inside the argument loop", b.where(0)):
        return
    il = [l for l in inner if in_inner[0].bb in l["body"]][0]
    ctx.check(b.once_per_iteration(in_inner[0].bb, il), "R14.4", ["run_tree_list", "one-line-per-argument"],
              "the per-argument line is not printed exactly once per argument", in_inner[0].line())
    # the argument loop iterates the leaf's args vector
    nxt = [c for c in b.live_calls() if c.bb in il["body"] and c.callee.endswith("::next")]
    ok = False
    for c in nxt:
        srcs = b.prov.op_src(c.args[0])
        ok = ok or any(s.kind == "call" and "into_iter" in s.a for s in srcs)
    ctx.check(ok, "R14.4", ["run_tree_list", "argument-loop-over-args"], "the inner loop does not iterate an args collection", b.where(il["header"]))
    its = [c for c in b.live_calls() if "into_iter" in c.callee and any(s.kind == "call" and s.b == c.bb for n_ in nxt for s in b.prov.op_src(n_.args[0]))]
    okl, shown = (False, "?")
    for c in its:
        okl, shown = _leaf_args_of_loop_item(b, c.args[0])
        if okl:
            break
    ctx.check(okl, "R14.4", ["run_tree_list", "arguments-are-the-leafs-filtered-list"],
              "the argument lines are printed from %s, expected the `args` of the Leaf being visited (already pruned by the filters)" % shown, b.where(il["header"]))
    # exclusivity: plain print, argument loop and recursion are on three different arms
    arms = leaf_arm(prog, b, crate)
    if ctx.check(len(arms) >= 1, "R14.4", ["run_tree_list", "match-on-node-kind"], "no match on the node kind", b.where(0)):
        bi, leaf, parent = arms[0]
        ctx.check(b.dominates(parent, recs[0].bb) and not b.dominates(parent, plain[0].bb) and not b.dominates(parent, in_inner[0].bb)
                  and b.dominates(leaf, plain[0].bb) and b.dominates(leaf, in_inner[0].bb) and not b.dominates(leaf, recs[0].bb),
                  "R14.4", ["run_tree_list", "parents-recurse-leaves-print"],
                  "printing/recursion are not split between the Leaf and Parent arms", b.where(bi))
        # after the recursion the Parent arm prints nothing: no print reachable from the recursion within this iteration
        within = b.reach([recs[0].target], avoid=[outer["header"]]) if recs[0].target is not None else set()
        ctx.check(not any(p.bb in within for p in prints), "R14.4", ["run_tree_list", "parent-prints-nothing"],
                  "a group node prints a line of its own", recs[0].line())
    # plain print and per-arg loop are exclusive: different arms of the Option discriminant on args
    excl = plain[0].bb not in b.reach([il["header"]], avoid=[outer["header"]]) and il["header"] not in b.reach([plain[0].bb], avoid=[outer["header"]])
    ctx.check(excl, "R14.4", ["run_tree_list", "plain-xor-arguments"], "a leaf can print both its own line and per-argument lines", plain[0].line())
    # at most one of them per iteration and no path through the Leaf arm that passes the ignore test prints nothing:
    ctx.check(b.innermost_loop(plain[0].bb)["header"] == outer["header"], "R14.4", ["run_tree_list", "plain-once"],
              "plain line is printed inside a nested loop", plain[0].line())


def _leaf_args_of_loop_item(b, operand):
    """The collection whose elements are printed is the `args` field of the Leaf that the per-child loop is visiting
    (the list the filters have already pruned), not a list fetched again from the entry."""
    from lib.symexpr import Sym, show
    e = Sym(b, site_args=True).op(operand)
    text = repr(e)
    found = []

    def walk(x):
        if isinstance(x, tuple):
            if len(x) == 4 and x[0] == "payload" and x[1] == "Leaf" and x[2] == "args":
                found.append(x[3])
            for y in x:
                walk(y)
    walk(e)
    item_ok = any(f[0] == "payload" and f[1] == "Some" and f[3][0] == "site" and f[3][1].endswith("::next") for f in found)
    return item_ok and "arg_names" not in text, show(e)


def _r14_4_for_each(ctx, prog, crate, b, plain, rec, fe_site):
    """R14.4 when the argument lines come from `args.iter().for_each(|arg| println!(..))`."""
    fe, x, xp = fe_site
    ctx.saw(x)
    ctx.ok("R14.4", "run_tree_list|two-print-sites-one-recursion")
    outer = [l for l in b.loops if plain.bb in l["body"] and rec.bb in l["body"] and fe.bb in l["body"]]
    if not ctx.check(len(outer) >= 1, "R14.4", ["run_tree_list", "per-child-loop"], "prints/recursion are not inside the per-child loop", b.where(0)):
        return
    outer = max(outer, key=lambda l: len(l["body"]))
    ctx.ok("R14.4", "run_tree_list|one-plain-one-per-argument")
    # the closure prints exactly once per call (= per argument)
    once = x.innermost_loop(xp.bb) is None and not (set(x.returns) & x.reach([0], avoid=[xp.bb]))
    ctx.check(once and b.innermost_loop(fe.bb)["header"] == outer["header"], "R14.4", ["run_tree_list", "one-line-per-argument"],
              "the per-argument line is not printed exactly once per argument", xp.line())
    srcs = b.prov.op_src(fe.args[0])
    ctx.check(any(s.kind == "call" and ("into_iter" in s.a or s.a.endswith("::iter")) for s in srcs), "R14.4", ["run_tree_list", "argument-loop-over-args"],
              "for_each does not iterate an args collection", fe.line())
    okl, shown = _leaf_args_of_loop_item(b, fe.args[0])
    ctx.check(okl, "R14.4", ["run_tree_list", "arguments-are-the-leafs-filtered-list"],
              "the argument lines are printed from %s, expected the `args` of the Leaf being visited (already pruned by the filters)" % shown, fe.line())
    arms = leaf_arm(prog, b, crate)
    if ctx.check(len(arms) >= 1, "R14.4", ["run_tree_list", "match-on-node-kind"], "no match on the node kind", b.where(0)):
        bi, leaf, parent = arms[0]
        ctx.check(b.dominates(parent, rec.bb) and not b.dominates(parent, plain.bb) and not b.dominates(parent, fe.bb)
                  and b.dominates(leaf, plain.bb) and b.dominates(leaf, fe.bb) and not b.dominates(leaf, rec.bb),
                  "R14.4", ["run_tree_list", "parents-recurse-leaves-print"], "printing/recursion are not split between the Leaf and Parent arms", b.where(bi))
        within = b.reach([rec.target], avoid=[outer["header"]]) if rec.target is not None else set()
        ctx.check(plain.bb not in within and fe.bb not in within, "R14.4", ["run_tree_list", "parent-prints-nothing"], "a group node prints a line of its own", rec.line())
    excl = plain.bb not in b.reach([fe.bb], avoid=[outer["header"]]) and fe.bb not in b.reach([plain.bb], avoid=[outer["header"]])
    ctx.check(excl, "R14.4", ["run_tree_list", "plain-xor-arguments"], "a leaf can print both its own line and per-argument lines", plain.line())
    ctx.check(b.innermost_loop(plain.bb)["header"] == outer["header"], "R14.4", ["run_tree_list", "plain-once"], "plain line is printed inside a nested loop", plain.line())


def r14_5(ctx, prog, crate):
    """A listed path fed back with --exact selects that case and no other: rests on the Exact arm of Filter::is_match being
    whole-string equality with the candidate path (a prefix/suffix/substring test would also select other cases whose
    path extends the listed one), and on the filter being applied to every leaf/argument path (R13.3, shared code)."""
    from .C13 import filter_is_match_rule
    filter_is_match_rule(ctx, "R14.5", prog, crate)


def _r14_6_param_buffer(ctx, prog, crate, b, kp):
    """run_tree_list with the path in ONE `&mut String` handed down the recursion. With P the buffer's content on entry
    (its length is taken before the loop, before anything modifies it): on every path of one iteration of the loop, from
    the loop header to the first point where the buffer is looked at (the recursive call, or taking its `&str` for the
    leaf's lines), the content is P [+ "::" exactly when P is non-empty] + display_name(child) - whatever the previous
    sibling left, because the iteration first cuts back to P (or every iteration restores P before it ends); nothing
    modifies the buffer between that point and the end of the iteration other than a cut back to P; and the function
    returns with the buffer cut back to P, which is what the caller's iteration assumes of its recursive call."""
    from lib.patheval import PathEval
    S_ = "std::string::String::"
    pname = "param:" + b.param_name(kp)
    MUT = ("clear", "push", "insert", "insert_str", "pop", "remove", "drain", "retain", "replace_range", "extend", "split_off", "push_str", "truncate")

    def on_buf(c, k=0):
        return len(c.args) > k and {z.label() for z in b.prov.op_src(c.args[k]) if z.kind in ("param", "call")} == {pname}
    lens = [c for c in b.live_calls() if c.callee == S_ + "len" and on_buf(c)]
    muts = [c for c in b.live_calls() if c.callee.startswith(S_) and c.callee.rsplit("::", 1)[-1] in MUT and on_buf(c)]
    lps = [l for l in b.loops if any(m.bb in l["body"] for m in muts)]
    if not ctx.check(len(lens) == 1 and bool(lps) and not any(b.innermost_loop(lens[0].bb) for _ in (0,)) and all(b.dominates(lens[0].bb, m.bb) for m in muts), "R14.6",
                     ["run_tree_list", "entry-length"], "the buffer's length on entry is not taken once, before the loop and before any modification (len sites: %d)" % len(lens), b.where(0)):
        return
    lp = max(lps, key=lambda l: len(l["body"]))
    Lp = lens[0].dest["l"]

    def is_entry_len(op):
        l = op["p"]["l"] if op.get("k") in ("copy", "move") and not op["p"]["proj"] else None
        for _ in range(4):
            if l == Lp:
                return True
            d = b.prov.defs.get(l, []) if l is not None else []
            if len(d) != 1 or d[0][0] != "S":
                return False
            rv = d[0][3]["rv"]
            l = rv["o"]["p"]["l"] if rv["k"] == "use" and rv["o"]["k"] in ("copy", "move") and not rv["o"]["p"]["proj"] else None
        return False
    reads = [c for c in b.live_calls() if c.bb in lp["body"] and ((c.callee == b.path and any(on_buf(c, k) for k in range(len(c.args)))) or
                                                                  (c.callee.endswith("Deref>::deref") and "String" in c.callee and on_buf(c)))]
    if not ctx.anchor("R14.6", "reads of the path buffer in the loop", len(reads), 2):
        return
    rec = [c for c in reads if c.callee == b.path]
    ctx.check(len(rec) == 1, "R14.6", ["run_tree_list", "recursion-gets-the-buffer"], "recursive calls that are handed the buffer: %d" % len(rec), b.where(lp["header"]))
    sums = PathEval(b, max_paths=8000).run(start=lp["header"], stop_at={r.bb for r in reads} | set(lp["latches"]))
    if not ctx.check(bool(sums), "R14.6", ["run_tree_list", "paths"], "cannot enumerate the paths of one iteration of run_tree_list's loop", b.where(lp["header"])):
        return
    # discipline: does every iteration cut back to P before its first push (B), or is P restored after the read (A)?
    n_reads = 0
    for sm in sums:
        end = sm.blocks[-1]
        if end not in {r.bb for r in reads}:
            continue
        n_reads += 1
        content = ["?left-by-the-previous-sibling"]
        empty = None
        for a, pol in sm.conds:
            if a[0] == "Eq" and ("int", 0) in a[1:] and any(x != ("int", 0) and ("undef", Lp) == x for x in a[1:]):
                empty = pol
        for callee, args, bb in sm.calls:
            c = b.call_at(bb)
            if c is None or c not in muts:
                continue
            last = callee.rsplit("::", 1)[-1]
            if last == "truncate" and is_entry_len(c.args[1]):
                content = ["P"]
            elif last == "push_str":
                v = const_str(c.args[1]) if "const_str" in globals() else None
                srcs = b.prov.op_src(c.args[1])
                if any(z.kind == "const" and str(z.a) == '"::"' for z in srcs) and not any(z.kind == "call" for z in srcs):
                    content = content + ["::"]
                elif any(z.kind == "call" and z.a == "entry::tree::EntryTree::display_name" for z in srcs):
                    content = content + ["name"]
                else:
                    content = content + ["?" + ",".join(sorted(z.label() for z in srcs))[:60]]
            else:
                content = ["?" + last]
        want = ["P", "name"] if empty else ["P", "::", "name"]
        ctx.check(empty is not None, "R14.6", ["run_tree_list", "separator-iff-parent-path-non-empty"],
                  "a path of the loop does not decide on the entry length being zero before the buffer is looked at", b.where(end))
        ctx.check(content == want, "R14.6", ["run_tree_list", "content-at-first-read"],
                  "when the buffer is looked at (at %s) it holds %s, expected %s (P = the content on entry)" % (b.where(end), content, want), b.where(end), detail={"content": content})
    ctx.check(n_reads >= 2, "R14.6", ["run_tree_list", "paths-reach-a-read"], "paths of an iteration that reach a look at the buffer: %d" % n_reads, b.where(lp["header"]))
    # after the look: nothing but a cut back to P within the iteration
    for r in reads:
        after = b.reach(b.succ[r.bb], avoid=[lp["header"]])
        late = [m for m in muts if m.bb in after and m.bb in lp["body"] and not (m.callee == S_ + "truncate" and is_entry_len(m.args[1]))]
        ctx.check(not late, "R14.6", ["run_tree_list", "built-before-read"], "the path buffer is modified (%s) after it was looked at within one iteration" % [m.callee for m in late], r.line())
    # the function hands the buffer back as it got it
    fin = [m for m in muts if m.bb not in lp["body"] and m.callee == S_ + "truncate" and is_entry_len(m.args[1]) and all(b.dominates(m.bb, x) for x in b.returns)]
    restored_in_loop = all(any(m.callee == S_ + "truncate" and is_entry_len(m.args[1]) and m.bb in b.reach(b.succ[r.bb], avoid=[lp["header"]]) and
                               all(lt not in b.reach(b.succ[r.bb], avoid=[m.bb, lp["header"]]) for lt in lp["latches"]) for m in muts) for r in reads)
    ctx.check(bool(fin) or restored_in_loop, "R14.6", ["run_tree_list", "restored-for-the-caller"],
              "run_tree_list can return with the buffer holding more than the path it was given (the caller's next sibling would inherit it)", b.where(0))
    # the root call starts from an empty buffer
    callers = [c for c in prog.callers_of(b.path, crates=[crate]) if c.body.path != b.path and "::tests::" not in c.body.path]
    for c in callers:
        news = [x for x in c.body.live_calls() if x.callee in (S_ + "new", S_ + "with_capacity")]
        ctx.check(len(news) >= 1, "R14.6", ["run_tree_list", "starts-empty", c.body.path], "the listing is not started from a fresh empty String", c.line())


def r14_6(ctx, prog, crate):
    """The listed path is `parent::name` (just `name` at the root) for every node: on every path through one iteration
    of run_tree_list's loop, the content of the reused path buffer when it is first read (recursion, println!) is
    exactly [parent_path, "::", display_name(child)] when parent_path is non-empty and [display_name(child)] when it
    is empty - whatever the buffer held after the previous sibling. Content is tracked through String::clear /
    push_str / truncate(0) / truncate(<the buffer's own length captured before the loop>)."""
    from lib.patheval import PathEval
    from lib.symexpr import PURE
    b = prog.body("divan::Divan::run_tree_list", crate)
    if not ctx.anchor("R14.6", "Divan::run_tree_list", 1 if b else 0, 1):
        return
    ctx.saw(b)
    S_ = "std::string::String::"
    mk = [c for c in b.live_calls() if c.callee in (S_ + "with_capacity", S_ + "new")]
    bufp = [l for l in range(1, b.arg_count + 1) if (b.local_ty(l) or "").replace(" ", "") in ("&mutstd::string::String",)]
    if not mk and len(bufp) == 1:
        return _r14_6_param_buffer(ctx, prog, crate, b, bufp[0])
    if not mk:
        # no reused buffer: a fresh string per node (format!-style, as EntryTree::retain does). Nothing can be left over from
        # the previous sibling; what remains checkable is that the pieces are the parent path and this node's display name.
        fm = [c for c in b.live_calls() if c.callee in ("std::fmt::Arguments::new", "core::fmt::Arguments::new", "std::fmt::format", "alloc::fmt::format")]
        ok = False
        for c in fm:
            lab = {z.label() for a in c.args for z in b.prov.op_src(a)}
            if any(x.startswith("param:") and b.local_ty_of_param(x[6:].split(".")[0]) == "&str" for x in lab) and any("EntryTree::display_name" in x for x in lab):
                ok = True
        ctx.check(ok, "R14.6", ["run_tree_list", "fresh-string-from-parent-and-name"], "run_tree_list neither reuses a path buffer nor formats the parent path with the node's display name", b.where(0))
        ctx.note("run_tree_list builds a fresh string per node: the buffer-content rule does not apply; only the provenance of the formatted pieces was checked")
        return
    if not ctx.check(len(mk) == 1, "R14.6", ["run_tree_list", "one-path-buffer"], "String buffers created in run_tree_list: %d (the rule follows a single reused buffer)" % len(mk), b.where(0)):
        return
    mk = mk[0]
    L = mk.dest["l"]

    def on_buf(c):
        return any(z.kind == "call" and z.b == mk.bb for a in c.args for z in b.prov.op_src(a))
    MUT = ("clear", "push_str", "push", "truncate", "insert", "insert_str", "pop", "remove", "drain", "retain", "replace_range", "extend", "as_mut_str", "as_mut_vec", "split_off")
    touch = [c for c in b.live_calls() if c.bb != mk.bb and on_buf(c)]
    muts = [c for c in touch if c.callee.startswith(S_) and c.callee.rsplit("::", 1)[-1] in MUT] + \
        [c for c in touch if not c.callee.startswith(S_) and c.args and c.args[0]["k"] in ("move", "copy") and (b.local_ty(c.args[0]["p"]["l"]) or "").startswith("&mut ") and
         any(z.kind == "call" and z.b == mk.bb for z in b.prov.op_src(c.args[0]))]
    lps = [l for l in b.loops if any(m.bb in l["body"] for m in muts)]
    if not ctx.check(bool(lps), "R14.6", ["run_tree_list", "loop"], "the path buffer is not built inside a loop over the nodes", b.where(0)):
        return
    lp = max(lps, key=lambda l: len(l["body"]))
    readers = [c for c in touch if c not in muts and c.bb in lp["body"] and not (c.callee.startswith(S_) and c.callee.rsplit("::", 1)[-1] in ("len", "capacity", "is_empty", "reserve"))]
    if not ctx.anchor("R14.6", "reads of the path buffer in the loop", len(readers), 3):
        return
    # no mutation after a read within the same iteration
    for r in readers:
        after = b.reach(b.succ[r.bb], avoid=[lp["header"]])
        late = [m for m in muts if m.bb in after and m.bb in lp["body"]]
        ctx.check(not late, "R14.6", ["run_tree_list", "built-before-read"], "the path buffer is modified (%s) after it was read at %s within one iteration" % ([m.callee for m in late], r.line()), r.line())
    pure = tuple(x for x in PURE if x != S_ + "len") + ("core::str::is_empty",)
    isbuf = lambda e: e == ("undef", L) or e == ("ptr", (L, ())) or e == ("sptr", (L, ())) or (e[0] == "site" and e[2] == mk.bb)

    def ops_of(s, upto_bb=None):
        out = []
        for callee, args, bb in s.calls:
            if upto_bb is not None and bb == upto_bb:
                break
            if callee.startswith(S_) and args and isbuf(args[0]) and callee.rsplit("::", 1)[-1] in MUT:
                out.append((callee.rsplit("::", 1)[-1], args[1:], bb))
        return out
    # pre-loop content (only needed for the truncate-to-prefix idiom)
    pre = PathEval(b, pure=pure, max_paths=4000).run(start=0, stop_at={lp["header"]})
    sums = PathEval(b, pure=pure, max_paths=8000).run(start=lp["header"], stop_at={r.bb for r in readers} | set(lp["latches"]))
    if not ctx.check(bool(sums) and pre is not None, "R14.6", ["run_tree_list", "paths"], "cannot enumerate the paths of one iteration of run_tree_list's loop", b.where(lp["header"])):
        return
    in_loop_kinds = {m.callee.rsplit("::", 1)[-1] for m in muts if m.bb in lp["body"]}

    def content(s):
        """list of (pieces, extra conds) alternatives, or None when the content depends on the previous iteration."""
        alts = [(None, ())]     # None = whatever the previous sibling left
        for kind, args, bb in ops_of(s):
            if kind == "clear" or (kind == "truncate" and args and args[0] == ("int", 0)):
                alts = [([], ())]
            elif kind in ("push_str", "push") and args:
                alts = [((p + [args[0]]) if p is not None else None, c) for p, c in alts]
            elif kind == "truncate" and args and in_loop_kinds <= {"truncate", "push_str", "push"}:
                # the buffer's own length, captured before the loop after its last pre-loop modification: the prefix built there
                new = []
                for ps in pre:
                    nexp = args[0]
                    if nexp[0] == "undef" and hasattr(ps, "env"):
                        nexp = ps.env.get(nexp[1], nexp)
                    if not (nexp[0] == "site" and nexp[1] == S_ + "len" and nexp[2] not in lp["body"] and nexp[3] and isbuf(nexp[3][0])):
                        return None
                    lb = nexp[2]
                    allops = ops_of(ps)
                    upto = ops_of(ps, upto_bb=lb)
                    if lb not in ps.blocks or len(allops) != len(upto):
                        return None
                    p = []
                    for k2, a2, _ in upto:
                        if k2 in ("push_str", "push") and a2:
                            p.append(a2[0])
                        elif k2 == "clear":
                            p = []
                        else:
                            return None
                    new.append((p, tuple(ps.conds)))
                alts = new
            else:
                return None
        return alts
    n = 0
    keys = set()
    for s in sums:
        stop = s.blocks[-1]
        if stop not in {r.bb for r in readers}:
            continue
        alts = content(s)
        if alts is None or any(p is None for p, _ in alts):
            ctx.fail("R14.6", ["run_tree_list", "content-independent-of-the-previous-sibling"],
                     "on a path to the read at %s the path buffer still depends on what the previous sibling left in it (no clear / truncate to the prefix before the pieces are pushed)" % b.where(stop), b.where(stop))
            return
        for pieces, extra in alts:
            conds = list(s.conds) + list(extra)
            emp = {p for a, p in conds if a[0] == "bool" and a[1][0] == "call" and a[1][1] == "core::str::is_empty"}
            subj = {a[1][2][0] for a, p in conds if a[0] == "bool" and a[1][0] == "call" and a[1][1] == "core::str::is_empty"}
            if len(emp) == 2:
                continue        # contradictory combination of a pre-loop and an in-loop path
            names = [p for p in pieces if p[0] == "sptr" and isinstance(p[1][0], tuple) and p[1][0][0] == "ret" and p[1][0][1] == "entry::tree::EntryTree::display_name" and p[1][0][2] in lp["body"]]
            seps = [p for p in pieces if p == ("opaque", 'const:"::"')]
            parents = [p for p in pieces if p[0] == "sptr" and isinstance(p[1][0], int) and 1 <= p[1][0] <= b.arg_count and (b.local_ty(p[1][0]) or "") == "&str"]
            shape = ["name" if p in names else "sep" if p in seps else "parent" if p in parents else "?" for p in pieces]
            key = (tuple(sorted(emp)), tuple(shape))
            if key in keys:
                continue
            keys.add(key)
            n += 1
            if emp == {True}:
                ok = shape == ["name"]
            elif emp == {False}:
                ok = shape == ["parent", "sep", "name"] and set(parents) == subj
            else:
                ok = shape == ["name"] and not parents   # no test at all: only right if nothing depends on the parent
                ok = False
            ctx.check(ok, "R14.6", ["run_tree_list", "parent-empty" if emp == {True} else "parent-non-empty" if emp == {False} else "parent-untested", "path-is-parent::name"],
                      "when parent_path %s the listed path is built from [%s]; expected %s" % ("is empty" if emp == {True} else "is not empty" if emp == {False} else "is not tested", ", ".join(shape),
                                                                                                "[name]" if emp == {True} else "[parent, sep, name]"), b.where(stop))
    ctx.anchor("R14.6", "distinct (parent emptiness, content) cases at the reads", n, 2)


def cli_action_table(ctx, rule, prog, crate):
    """The action the command line asks for: on every path of config_with_args from the `--list` test to the store into
    self.action, the stored variant is the documented function of the flags: --list gives List (ListTerse exactly when
    `--format terse` was given), otherwise --test or the absence of --bench gives Test, otherwise Bench."""
    from lib.facts import place_fields
    from lib.patheval import PathEval
    import itertools
    b = prog.body("divan::Divan::config_with_args", crate)
    if not ctx.anchor(rule, "Divan::config_with_args", 1 if b else 0, 1):
        return
    ctx.saw(b)
    asg = [(bi, s) for bi, si, s in b.stmts() if s["k"] == "assign" and s["p"]["proj"] and place_root_fields(b, s["p"]) == (1, ("action",))]
    if not ctx.check(len(asg) == 1 and asg[0][1]["rv"]["k"] == "use" and asg[0][1]["rv"]["o"]["k"] in ("move", "copy"), rule, ["cli-action", "one-store"],
                     "stores into self.action in config_with_args: %d" % len(asg), b.where(0)):
        return
    T = asg[0][1]["rv"]["o"]["p"]["l"]
    defs = [bi for bi, si, s in b.stmts() if s["k"] == "assign" and s["p"]["l"] == T and not s["p"]["proj"]]
    gf = [c for c in b.live_calls() if c.callee == "clap::ArgMatches::get_flag" and all(b.dominates(c.bb, bi) for bi in defs)]
    if not ctx.check(bool(gf) and bool(defs), rule, ["cli-action", "decided-by-flags"], "no flag test dominates the choice of the action", b.where(asg[0][0])):
        return
    # the earliest flag test from which the whole decision is visible: the outermost one that every def is control-dependent on
    cands = sorted(gf, key=lambda c: sum(1 for z in range(len(b.blocks)) if b.dominates(z, c.bb)))
    sums = None
    for start in reversed(cands):
        sums = PathEval(b, max_paths=4000).run(start=start.bb, stop_at={asg[0][0]})
        if sums and any(a[0] == "bool" and a[1][0] == "site" and a[1][1] == "clap::ArgMatches::get_flag" and a[1][3][1] == ("opaque", 'const:"list"') for s in sums for a, p in s.conds):
            break
    if not ctx.check(bool(sums), rule, ["cli-action", "paths"], "cannot enumerate the paths that choose the action", b.where(asg[0][0])):
        return

    def doc(v):
        if v["list"]:
            return "ListTerse" if v["terse"] else "List"
        return "Test" if (v["test"] or not v["bench"]) else "Bench"
    n = 0
    for s in sums:
        val = {}
        unknown = []
        for a, p in s.conds:
            if a[0] == "bool" and a[1][0] == "site" and a[1][1] == "clap::ArgMatches::get_flag":
                nm = a[1][3][1][1] if a[1][3][1][0] == "opaque" else "?"
                nm = nm[len('const:"'):-1] if nm.startswith('const:"') else nm
                if nm in ("list", "test", "bench"):
                    val[nm] = p
                else:
                    unknown.append(nm)
            elif a[0] == "bool" and a[1][0] == "site" and any(c[0] == "clap::ArgMatches::try_get_one" and c[1][1] == ("opaque", 'const:"format"') for c in s.calls):
                val["terse"] = p
            else:
                unknown.append(str(a)[:60])
        got = s.env.get(T) if hasattr(s, "env") else None
        gv = got[2] if got and got[0] == "adt" else None
        n += 1
        free = [k for k in ("list", "test", "bench", "terse") if k not in val]
        bad = []
        for combo in itertools.product([False, True], repeat=len(free)):
            v = dict(val, **dict(zip(free, combo)))
            if not v["list"] and "terse" in free and v["terse"]:
                continue        # --format requires --list (clap), and the terse flag is only read under --list
            if doc(v) != gv:
                bad.append((v, doc(v)))
        key = ",".join("%s=%s" % (k, "1" if val[k] else "0") for k in sorted(val))
        ctx.check(not unknown and not bad and gv is not None, rule, ["cli-action", key or "unconditional", "documented-action"],
                  "with %s config_with_args stores Action::%s%s%s" % (key or "no flag tested", gv, "; documented: %s for %s" % (bad[0][1], bad[0][0]) if bad else "",
                                                                       "; the choice also depends on %s" % unknown if unknown else ""), b.where(s.blocks[-2] if len(s.blocks) > 1 else s.blocks[-1]))
    ctx.anchor(rule, "paths choosing the CLI action", n, 4)
    # the terse test compares the `format` value with "terse"
    cl = [x for x in prog.children(b) if x.kind == "Closure" and any(c.callee.rsplit("::", 1)[-1] in ("eq", "ne") for c in x.live_calls())]
    terse = [x for x in cl for bi, si, s in x.stmts(live_only=False) if s["k"] == "assign" and s["rv"]["k"] == "use" and s["rv"]["o"]["k"] == "const" and "\"terse\"" in str(s["rv"]["o"]["c"].get("d", ""))] + \
        [x for x in cl for (ck, pth, pr), pb in prog.bodies.items() if ck == crate and pth == x.path and pr >= 0 for bi, si, s in pb.stmts(live_only=False)
         if s["k"] == "assign" and "terse" in str(s["rv"])]
    ctx.check(bool(terse), rule, ["cli-action", "terse-means-format-terse"], "no closure of config_with_args compares the format value with \"terse\"", b.where(0))


def r14_8(ctx, prog, crate):
    """Every listed case is one a run executes: in run_bench_entry the per-thread-count loop that runs the benchmark is
    never empty - an empty thread list is replaced by [1] before the loop (C15's thread-count pipeline R15.4, reported
    here under this property because a case with no thread count is listed but runs nothing)."""
    from rules import C15
    from rules.common import Renamed
    C15.r15_4(Renamed(ctx, "R14.8"), prog, crate)


def r14_7(ctx, prog, crate):
    cli_action_table(ctx, "R14.7", prog, crate)


def r14_9(ctx, prog, crate):
    """(= R13.6) Round trip of a listed path: a path given back as the only --exact filter reaches the filter set exactly as
    typed - the clap definitions of `filter` / `--skip` do not split (display paths contain commas), parse or default it."""
    from .C13 import r13_6
    from .common import Renamed
    r13_6(Renamed(ctx, "R14.9"), prog, crate)


def r14_10(ctx, prog, crate):
    """What is listed is what runs: a leaf carries an argument list exactly when its runner takes arguments -
    AnyBenchEntry::arg_names answers Some(the runner's names) for every Args runner, whatever the list holds, and None
    otherwise. retain() prunes a leaf with an empty list; were an empty list reported as None, the leaf would be kept and
    listed as a plain benchmark although the Args runner executes nothing for it."""
    from lib.patheval import PathEval
    b = prog.body("entry::AnyBenchEntry::arg_names", crate)
    if not ctx.anchor("R14.10", "AnyBenchEntry::arg_names", 1 if b else 0, 1):
        return
    ctx.saw(b)
    sums = PathEval(b).run()
    if not ctx.check(bool(sums), "R14.10", ["arg_names", "readable"], "cannot summarise AnyBenchEntry::arg_names", b.where(0)):
        return
    some = [s_ for s_ in sums if s_.ret[0] == "adt" and s_.ret[2] == "Some"]
    none = [s_ for s_ in sums if s_.ret[0] == "adt" and s_.ret[2] == "None"]
    only_runner = all(len(s_.conds) == 1 and s_.conds[0][0][0] == "discr" and "bench_runner" in str(s_.conds[0][0][1]) for s_ in sums)
    from_runner = all("BenchArgsRunner::arg_names" in str(s_.ret[3]) for s_ in some)
    ctx.check(len(some) >= 1 and len(none) >= 1 and len(some) + len(none) == len(sums) and only_runner and from_runner, "R14.10",
              ["arg_names", "Some-iff-Args-runner"],
              "AnyBenchEntry::arg_names is not `Some(runner.arg_names())` exactly for an Args runner: %d paths, conditions %s"
              % (len(sums), sorted({str(c[0][:1]) + str(len(s_.conds)) for s_ in sums for c in s_.conds})), b.where(0))


def run(ctx, prog, crate):
    r14_10(ctx, prog, crate)
    r14_9(ctx, prog, crate)
    r14_7(ctx, prog, crate)
    r14_8(ctx, prog, crate)
    r14_6(ctx, prog, crate)
    r14_5(ctx, prog, crate)
    r14_1(ctx, prog, crate)
    r14_2(ctx, prog, crate)
    r14_3(ctx, prog, crate)
    r14_4(ctx, prog, crate)
