"""C16  Output order is the documented total order for each --sort attribute."""
from lib.facts import norm, place_fields
from lib import tables

INLINE = True      # crate-local helpers the rules do not know by name are inlined into their callers (lib/inline.py)
EXPLANATION = (
    "R16.1 symmetric-comparator taint: in every function of the crate that returns Ordering and has two parameters of "
    "one type (a, b), every comparison site (cmp/partial_cmp/natural_cmp/local comparator/fn-pointer call/binary "
    "comparison) whose operands derive from the parameters has its first operand deriving only from a and its second "
    "only from b, through the same accessors. R16.2 the tie-breaker table: with_tie_breakers(v)[0] == v and the row is "
    "a permutation of all attributes; both comparators iterate that table. R16.3 every sort comparator in sort_by_attr "
    "goes through apply_reverse, which reverses iff the flag; the recursion forwards attr/reverse unchanged. R16.4 "
    "sort_by_attr calls no Vec/slice mutator other than the two sorts. R16.5 kind(): Leaf<Parent; EntryLocation derives "
    "Ord over (file, line, col) in that order. Decides the wiring of the comparators, not the string arithmetic."
    " R16.6 argument ordering anchors. R16.7 path summaries of the Name arm of cmp_bench_arg_names, decided against a four-class operand model (unsigned integer, negative integer, other number, not a number): every class pair gets the answer a total value order needs - integers exactly, numbers by f64 value, a number against a non-number ranked by class one fixed way round, an integer against a non-integer of equal f64 value ranked one fixed way round, natural order only for two non-numbers; all 16 class pairs are covered. R16.5 also: the location of a node without its own position is computed from location() of each child, recursively (earliest-descendant). R16.8 digit runs compare by numeric value only: on the path where both tokens are digit runs Token::cmp returns exactly cmp_int(self.text, other.text) - no further tie-break inside the token - and the plain string comparison otherwise.")
EXPLANATION += (" R16.9 natural_cmp is, on its only path, Iterator::cmp of a tokenizer over exactly `a` with a tokenizer over exactly `b` (no prefix skipping or slicing before tokenising).")
EXPLANATION += (" R16.10 the command line declares --sort / --sortr as one setting (overrides_with), which the reader's sortr-first lookup relies on.")
EXPLANATION += (' R16.11 (expansions) the instantiations of a types-only benchmark are elements of one array literal (address order = declaration order).')
NOT_DECIDED = ["transitivity of natural_cmp itself (tokenisation) and of the tree comparator beyond the key structure R16.1-R16.5 decide; the argument comparator is decided against a four-class operand model (R16.7), trusting that every integer string parses as f64",
               "digit-run arithmetic in cmp_int and tokenisation", "panic-freedom of sort_by under an inconsistent order"]

EXPECTED_COMPARATORS = [
    "config::SortingAttr::cmp_bench_arg_names", "entry::tree::EntryTree::cmp_by_attr",
    "entry::tree::EntryTree::cmp_display_name", "entry::generic::EntryConst::cmp_name",
    "util::sort::natural_cmp", "util::sort::cmp_int", "<util::sort::Token as std::cmp::Ord>::cmp",
]
CMP_LAST = {"cmp", "partial_cmp", "natural_cmp", "cmp_int", "cmp_name", "cmp_display_name", "cmp_by_attr",
            "cmp_bench_arg_names", "eq", "ne", "lt", "le", "gt", "ge", "max", "min"}
CMP_BINOPS = {"Eq", "Ne", "Lt", "Le", "Gt", "Ge", "Cmp"}


def comparator_params(b):
    """The two parameters (local indices) being compared: first pair of parameters with identical types."""
    tys = [(l, b.local_ty(l)) for l in range(1, b.arg_count + 1)]
    for i in range(len(tys)):
        for j in range(i + 1, len(tys)):
            if tys[i][1] == tys[j][1]:
                return tys[i][0], tys[j][0]
    return None


def is_comparator(b):
    if b.promoted >= 0 or b.kind not in ("Fn", "AssocFn"):
        return False
    rt = b.local_ty(0)
    if rt not in ("std::cmp::Ordering", "std::option::Option<std::cmp::Ordering>"):
        return False
    return comparator_params(b) is not None


def side(b, srcs, pa, pb):
    names = {b.param_name(pa): "a", b.param_name(pb): "b"}
    return {names[s.a] for s in srcs if s.kind == "param" and s.a in names}


def shape(srcs, b, pa, pb):
    names = {b.param_name(pa), b.param_name(pb)}
    out = set()
    for s in srcs:
        if s.kind == "param" and s.a in names:
            out.add(("param-path", s.b))
        elif s.kind == "call":
            out.add(("call", s.a))
        elif s.kind == "const":
            out.add(("const", s.a))
    return out


def r16_1(ctx, prog, crate):
    comps = [b for b in prog.lib_bodies(crate) if is_comparator(b) and not b.path.startswith(("alloc::tests", "util::sort::tests"))]
    found = {b.path for b in comps}
    for want in EXPECTED_COMPARATORS:
        ctx.check(want in found, "R16.1/ANCHOR", [want], "comparator `%s` not found (returns Ordering, two same-typed params)" % want, None)
    sites = 0
    for b in comps:
        derived = any(i.get("derived") for i in prog.impls(crate)
                      if b.path.startswith("<") and norm(i["self"]).split("<")[0] in b.path and i["trait"].split("::")[-1] in b.path)
        ctx.saw(b)
        pa, pb = comparator_params(b)
        for c in b.live_calls():
            last = c.callee.rsplit("::", 1)[-1]
            indirect = c.decl is None
            is_cmp = (last in CMP_LAST or indirect or c.callee in found) and len(c.args) == 2
            if c.is_fn_trait_call:
                is_cmp = False
            if not is_cmp:
                continue
            s0 = b.prov.op_src(c.args[0])
            s1 = b.prov.op_src(c.args[1])
            _site(ctx, b, pa, pb, s0, s1, c.callee if not indirect else "fn-pointer:" + "|".join(sorted(
                s.label() for s in b.prov.op_src(c.func) if s.kind == "param")), c.line())
            sites += 1
        for bi, si, s in b.stmts():
            if s["k"] == "assign" and s["rv"]["k"] == "binop" and s["rv"]["op"] in CMP_BINOPS:
                s0 = b.prov.op_src(s["rv"]["a"])
                s1 = b.prov.op_src(s["rv"]["b"])
                if side(b, s0, pa, pb) and side(b, s1, pa, pb):
                    _site(ctx, b, pa, pb, s0, s1, "binop:" + s["rv"]["op"], b.where(bi))
                    sites += 1
    ctx.anchor("R16.1", "comparison sites in comparators", sites, 8)
    return found


def _site(ctx, b, pa, pb, s0, s1, what, where):
    d0 = side(b, s0, pa, pb)
    d1 = side(b, s1, pa, pb)
    if not d0 or not d1:
        return
    key = [b.path, what]
    if len(d0) == 1 and len(d1) == 1:
        if d0 == d1:
            ctx.fail("R16.1", key + ["same-side-twice"],
                     "both operands of `%s` derive from parameter `%s` only - the other value never takes part in the "
                     "comparison" % (what, b.param_name(pa if d0 == {"a"} else pb)), where)
            return
        if d0 == {"b"}:
            ctx.fail("R16.1", key + ["reversed"], "operands of `%s` are (b, a): the order is inverted" % what, where)
            return
        sh0 = shape(s0, b, pa, pb)
        sh1 = shape(s1, b, pa, pb)
        ctx.check(sh0 == sh1, "R16.1", key + ["same-accessors"],
                  "the two sides of `%s` are computed differently: %s vs %s" % (what, sorted(sh0 - sh1), sorted(sh1 - sh0)), where)
    else:
        ctx.ok("R16.1", "|".join(key + ["mixed-operands"]))


def r16_2(ctx, prog, crate):
    b = prog.body("config::SortingAttr::with_tie_breakers", crate)
    names = tables.variant_names(prog, "config::SortingAttr", crate)
    if not ctx.anchor("R16.2", "SortingAttr::with_tie_breakers + ADT", (1 if b else 0) + (1 if names else 0), 2):
        return
    ctx.saw(b)
    sws = tables.discr_switches(b, 1)
    if not ctx.check(len(sws) == 1, "R16.2", ["with_tie_breakers", "single-match-on-self"], "expected one match on self", b.where(0)):
        return
    bi, t, _ = sws[0]
    arms, otherwise = tables.arm_targets(t)
    rows = {}
    for val, tgt in arms.items():
        blocks = tables.exclusive_blocks(b, tgt, list(arms.values()) + [otherwise])
        agg = {}
        row = None
        for x in sorted(blocks):
            for s in b.blocks[x]["stmts"]:
                if s["k"] != "assign":
                    continue
                rv = s["rv"]
                if rv["k"] == "agg" and rv["ak"] == "adt":
                    agg[s["p"]["l"]] = rv["variant"]
                elif rv["k"] == "use" and rv["o"]["k"] in ("copy", "move") and rv["o"]["p"]["l"] == 1:
                    agg[s["p"]["l"]] = "self"
                elif rv["k"] == "agg" and rv["ak"] == "array" and s["p"]["l"] == 0:
                    row = [agg.get(o["p"]["l"]) if o["k"] in ("copy", "move") else None for o in rv["ops"]]
        rows[names[val] if val < len(names) else val] = row
    ctx.check(set(rows) == set(names), "R16.2", ["with_tie_breakers", "all-variants"],
              "rows for %s, variants %s" % (sorted(map(str, rows)), names), b.where(0))
    for v, row in sorted(rows.items(), key=lambda kv: str(kv[0])):
        res = [v if x == "self" else x for x in (row or [])]
        ctx.check(row is not None and res[:1] == [v], "R16.2", ["with_tie_breakers", v, "primary-first"],
                  "with_tie_breakers(%s) = %s does not start with %s itself" % (v, res, v), b.where(0), detail={"row": res})
        ctx.check(row is not None and sorted(res) == sorted(names), "R16.2", ["with_tie_breakers", v, "permutation"],
                  "with_tie_breakers(%s) = %s is not a permutation of %s" % (v, res, names), b.where(0))
    # both comparators iterate the table of *their* attr parameter and switch on the loop item
    for path in ("config::SortingAttr::cmp_bench_arg_names", "entry::tree::EntryTree::cmp_by_attr"):
        c = prog.body(path, crate)
        if not ctx.anchor("R16.2", path, 1 if c else 0, 1):
            continue
        ctx.saw(c)
        wt = [x for x in c.live_calls() if x.callee == "config::SortingAttr::with_tie_breakers"]
        if not ctx.check(len(wt) == 1, "R16.2", [path, "iterates-tie-breakers"], "does not call with_tie_breakers once", c.where(0)):
            continue
        attr_param = [l for l in range(1, c.arg_count + 1) if c.local_ty(l) == "config::SortingAttr"]
        a = c.prov.op_src(wt[0].args[0])
        ctx.check(attr_param and {s.label() for s in a} == {"param:" + c.param_name(attr_param[0])}, "R16.2",
                  [path, "table-of-requested-attr"], "with_tie_breakers is applied to %s" % sorted(s.label() for s in a), wt[0].line())
        # the attribute dispatch switches on the iterator item
        ok = False
        for bi, t, base in tables.discr_switches(c):
            if c.local_ty(base) != "config::SortingAttr":
                continue
            srcs = c.prov.local_src(base)
            if any(s.kind == "call" and s.a.endswith("::next") for s in srcs) and \
                    any(s.kind == "call" and s.a == "config::SortingAttr::with_tie_breakers" for s in srcs):
                lp = c.innermost_loop(bi)
                ok = lp is not None
                # early return inside the loop only on a non-equal ordering; after the loop: Equal
                if ok:
                    _first_non_equal(ctx, c, lp, path)
        if not ok:
            ok = _first_non_equal_chain(prog, c, wt[0])
        ctx.check(ok, "R16.2", [path, "dispatch-on-table-item"],
                  "the per-attribute dispatch is not a loop over the tie-breaker table items", c.where(0))


def _first_non_equal_chain(prog, c, wt):
    """The same as an iterator chain: with_tie_breakers(attr).into_iter().map(|a| <dispatch on a>).find(|o| o.is_ne())
    .unwrap_or(Equal) - the first attribute that tells the two apart decides, Equal when none does."""
    def closure_arg(call, k):
        a = call.args[k] if len(call.args) > k else None
        if a is not None and a.get("k") in ("copy", "move") and not a["p"]["proj"]:
            for d in c.prov.defs.get(a["p"]["l"], []):
                if d[0] == "S" and d[3]["rv"]["k"] == "agg" and d[3]["rv"].get("ak") == "closure":
                    return prog.bodies.get((c.crate, norm(d[3]["rv"]["def"]), -1))
        return None

    def one(suffix):
        r = [x for x in c.live_calls() if "Iterator" in x.callee.rsplit("::", 1)[0] and x.callee.rsplit("::", 1)[-1] == suffix]
        return r[0] if len(r) == 1 else None
    mp, fd = one("map"), one("find")
    uo = [x for x in c.live_calls() if x.callee == "std::option::Option::unwrap_or"]
    if mp is None or fd is None or len(uo) != 1 or c.loops:
        return False
    uo = uo[0]

    def feeds(a, b_):   # call a's result flows into call b_'s first argument
        return any(z.kind == "call" and z.b == a.bb for z in c.prov.op_src(b_.args[0]))
    if not (feeds(wt, mp) and feeds(mp, fd) and feeds(fd, uo)):
        return False
    d0 = c.prov.defs.get(0, [])
    # the function's result is that call's - or Equal, returned early before the chain (the same entry compared with itself)
    chain_defs = [d for d in d0 if d[0] == "C" and d[1] == uo.bb]
    early = [d for d in d0 if d[0] == "S" and d[3]["rv"]["k"] == "agg" and d[3]["rv"].get("variant") == "Equal" and wt.bb not in c.reach([d[1]])]
    if len(chain_defs) != 1 or len(chain_defs) + len(early) != len(d0):
        return False
    dflt = {z.a for z in c.prov.op_src(uo.args[1]) if z.kind == "variant"}
    if dflt != {"std::cmp::Ordering::Equal"}:
        return False
    m, f = closure_arg(mp, 1), closure_arg(fd, 1)
    if m is None or f is None or [q.callee for q in f.live_calls()] != ["std::cmp::Ordering::is_ne"]:
        return False
    # the mapping closure dispatches on its own parameter
    for bi, t, base in tables.discr_switches(m):
        if m.local_ty(base) == "config::SortingAttr" and {z.label() for z in m.prov.local_src(base)} == {"param:" + m.param_name(2)}:
            return True
    return False


def _first_non_equal(ctx, c, lp, path):
    # values assigned to _0 inside the loop vs after it
    in_loop = []
    after = []
    # normal loop exit: the edge(s) leaving the loop from the block that tests `next()` for None
    exits = set()
    for x in lp["body"]:
        cc = c.call_at(x)
        if cc is not None and cc.callee.endswith("::next") and cc.target is not None:
            # the switch on the Option discriminant follows; its out-of-loop successors are the normal exit
            for y in c.reach([cc.target], avoid=set(range(len(c.blocks))) - lp["body"]):
                if c.term(y)["k"] == "switch" and any(z.kind == "call" and z.b == x for z in c.prov.op_src(c.term(y)["discr"])):
                    exits |= {z for z in c.succ[y] if z not in lp["body"]}
    after_blocks = c.reach(list(exits)) if exits else set()
    for bi, si, s in c.stmts():
        if s["k"] == "assign" and s["p"]["l"] == 0 and not s["p"]["proj"]:
            (after if bi in after_blocks else in_loop).append((bi, s))
    eq_after = [s for bi, s in after if s["rv"]["k"] == "agg" and s["rv"].get("variant") == "Equal"]
    ctx.check(len(eq_after) >= 1, "R16.2", [path, "equal-after-all-tie-breakers"],
              "the comparator does not return Equal after exhausting the tie-breakers", c.where(0))


def _only_from_loop(c, bi, lp):
    # block reachable only through the loop body (early-return block)
    return bi not in c.reach([0], avoid=lp["body"])


def r16_3(ctx, prog, crate):
    b = prog.body("entry::tree::EntryTree::sort_by_attr", crate)
    if not ctx.anchor("R16.3", "EntryTree::sort_by_attr", 1 if b else 0, 1):
        return
    ctx.saw(b)
    tree = prog.closure_tree(b)
    # apply_reverse: the closure whose upvar is a bool and which calls Ordering::reverse
    rev = [x for x in tree if x.kind == "Closure" and any(c.callee == "std::cmp::Ordering::reverse" for c in x.live_calls())]
    if not ctx.check(len(rev) == 1, "R16.3", ["apply_reverse", "exists"], "no unique reversing closure", b.where(0)):
        return
    r = rev[0]
    ctx.saw(r)
    # shape: switch on upvar; true arm -> reverse(param), false arm -> param
    sw = [(bi, t) for bi, t in r.switches() if any(s.kind == "upvar" for s in r.prov.op_src(t["discr"]))]
    ok = False
    if len(sw) == 1:
        bi, t = sw[0]
        zero = [a[1] for a in t["arms"] if a[0] == "0"]
        rc = [c for c in r.live_calls() if c.callee == "std::cmp::Ordering::reverse"][0]
        ok = bool(zero) and rc.bb not in r.reach(zero) and rc.bb in r.reach([t["otherwise"]]) and \
            {s.label() for s in r.prov.op_src(rc.args[0])} == {"param:" + r.param_name(2)}
        # false arm returns the parameter unchanged
        if ok:
            vals = set()
            for x in tables.exclusive_blocks(r, zero[0], [t["otherwise"]]):
                for s in r.blocks[x]["stmts"]:
                    if s["k"] == "assign" and s["p"]["l"] == 0:
                        vals |= {z.label() for z in r.prov._rv(s["rv"], (), frozenset(), x, 0)}
            ok = vals == {"param:" + r.param_name(2)}
    ctx.check(ok, "R16.3", ["apply_reverse", "reverses-iff-flag"],
              "apply_reverse is not `if reverse { o.reverse() } else { o }`", r.where(0))
    # the flag captured is the function's `reverse` parameter
    cap = prog.capture_operand(r, r.captures[0]) if r.captures else None
    if cap:
        par, op, _ = cap
        ctx.check({s.label() for s in par.prov.op_src(op)} == {"param:" + b.param_name(3)}, "R16.3", ["apply_reverse", "flag-is-reverse-param"],
                  "apply_reverse tests something other than the `reverse` parameter", r.where(0))
    # every sort call's comparator closure returns apply_reverse(cmp(..))
    sorts = []
    for x in tree:
        for c in x.live_calls():
            if c.callee.rsplit("::", 1)[-1] in ("sort_unstable_by", "sort_by", "sort_by_key", "sort_unstable_by_key", "sort",
                                                 "sort_unstable", "sort_by_cached_key"):
                sorts.append((x, c))
    ctx.anchor("R16.3", "sort calls in sort_by_attr", sorts, 2)
    for x, c in sorts:
        last = c.callee.rsplit("::", 1)[-1]
        if not ctx.check(last in ("sort_unstable_by", "sort_by"), "R16.3", [x.path, last, "comparator-based-sort"],
                         "`%s` sorts without the reversible comparator" % last, c.line()):
            continue
        clos = [s for s in x.prov.op_src(c.args[1]) if s.kind == "variant"]
        cl_paths = set()
        for bi, si, s in x.stmts():
            if s["k"] == "assign" and s["rv"]["k"] == "agg" and s["rv"]["ak"] == "closure":
                if any(o["k"] in ("copy", "move") for o in [c.args[1]]) and s["p"]["l"] == c.args[1]["p"]["l"]:
                    cl_paths.add(norm(s["rv"]["def"]))
        if not ctx.check(len(cl_paths) == 1, "R16.3", [x.path, last, "comparator-closure"], "comparator is not a local closure", c.line()):
            continue
        cb = prog.bodies.get((x.crate, cl_paths.pop(), -1))
        ctx.saw(cb)
        ret = cb.prov.local_src(0)
        through_rev = any(s.kind == "call" and s.a == r.path for s in ret)
        direct = [d for d in cb.prov.defs.get(0, [])]
        only_rev = len(direct) == 1 and direct[0][0] == "C" and cb.call_at(direct[0][1]).callee == r.path
        ctx.check(through_rev and only_rev, "R16.3", [cb.path, "through-apply_reverse"],
                  "the comparator given to `%s` does not return apply_reverse(..)" % last, cb.where(0))
        if only_rev:
            rc = cb.call_at(direct[0][1])
            inner = cb.prov.op_src(rc.args[1])
            want = "entry::tree::EntryTree::cmp_by_attr" if "EntryTree" in c.gargs[0] or last == "sort_unstable_by" else \
                "config::SortingAttr::cmp_bench_arg_names"
            names = {s.a for s in inner if s.kind == "call"}
            ctx.check(names & {"entry::tree::EntryTree::cmp_by_attr", "config::SortingAttr::cmp_bench_arg_names"}, "R16.3",
                      [cb.path, "documented-comparator"], "comparator computes its ordering with %s" % sorted(names), rc.line())
            # attr forwarded from the parameter
            for ic in cb.live_calls():
                if ic.callee in ("entry::tree::EntryTree::cmp_by_attr", "config::SortingAttr::cmp_bench_arg_names"):
                    attr_args = [a for a in ic.args if a["k"] in ("copy", "move") and "SortingAttr" in a["p"]["ty"]]
                    for a in attr_args:
                        chain = _upvar_to_param(prog, cb, a)
                        ctx.check(chain == "param:" + b.param_name(2), "R16.3", [cb.path, "attr-forwarded"],
                                  "the comparator uses attribute %s, expected the `attr` parameter" % chain, ic.line())
    # recursion forwards attr and reverse unchanged
    recs = [(x, c) for x in tree for c in x.live_calls() if c.callee == b.path]
    ctx.anchor("R16.3", "recursive sort_by_attr call", recs, 1)
    for x, c in recs:
        a2 = _upvar_to_param(prog, x, c.args[1])
        a3 = _upvar_to_param(prog, x, c.args[2])
        ctx.check(a2 == "param:" + b.param_name(2) and a3 == "param:" + b.param_name(3), "R16.3", ["recursion", "forwards-attr-and-reverse"],
                  "recursive call passes (%s, %s)" % (a2, a3), c.line())


def _upvar_to_param(prog, body, operand):
    """Resolve an operand through closure captures up to the enclosing fn's parameter: label or None."""
    srcs = body.prov.op_src(operand)
    labels = set()
    for s in srcs:
        if s.kind == "upvar":
            cap = prog.capture_operand(body, s.a) or prog.capture_operand(body, "*" + s.a)
            if cap is None and body.captures:
                for cname in body.captures:
                    if cname.lstrip("*") == s.a.lstrip("*"):
                        cap = prog.capture_operand(body, cname)
            if cap:
                par, op, _ = cap
                r = _upvar_to_param(prog, par, op)
                labels.add(r)
            else:
                labels.add(s.label())
        elif s.kind in ("param", "const", "call", "variant"):
            labels.add(s.label())
    if len(labels) == 1:
        return labels.pop()
    return "|".join(sorted(str(x) for x in labels))


FORBIDDEN_MUTATORS = {"push", "pop", "remove", "swap_remove", "retain", "retain_mut", "dedup", "dedup_by", "dedup_by_key",
                      "truncate", "clear", "drain", "insert", "extend", "append", "split_off", "resize", "take", "replace",
                      "swap", "reverse", "rotate_left", "rotate_right", "fill", "copy_from_slice", "clone_from_slice"}


def r16_4(ctx, prog, crate):
    b = prog.body("entry::tree::EntryTree::sort_by_attr", crate)
    if b is None:
        return
    for x in prog.closure_tree(b):
        for c in x.live_calls():
            last = c.callee.rsplit("::", 1)[-1]
            ctx.calls_examined += 1
            if c.callee == "std::cmp::Ordering::reverse":
                continue
            ctx.check(last not in FORBIDDEN_MUTATORS, "R16.4", [x.path, "mutator", c.callee],
                      "sorting calls `%s`, which can lose/duplicate/move entries" % c.callee, c.line())
        # no direct writes into the tree other than through the sort calls
        for bi, si, s in x.stmts():
            if s["k"] == "assign" and s["p"]["proj"] and any(pr["k"] == "deref" for pr in s["p"]["proj"]):
                base_ty = x.local_ty(s["p"]["l"])
                if "EntryTree" in base_ty or "Vec<" in base_ty:
                    ctx.fail("R16.4", [x.path, "direct-write"], "direct write into the tree while sorting", x.where(bi))


def r16_5(ctx, prog, crate):
    b = prog.body("entry::tree::EntryTree::kind", crate)
    names = tables.variant_names(prog, "entry::tree::EntryTree", crate)
    if ctx.anchor("R16.5", "EntryTree::kind + ADT", (1 if b else 0) + (1 if names else 0), 2):
        ctx.saw(b)
        sws = tables.discr_switches(b, 1)
        if ctx.check(len(sws) == 1, "R16.5", ["kind", "match-on-self"], "kind() is not a match on self", b.where(0)):
            bi, t, _ = sws[0]
            vals = tables.return_values_per_arm(b, bi, t)
            tab = {}
            for v, labels in vals.items():
                if isinstance(v, int) and v < len(names) and len(labels) == 1:
                    l = list(labels)[0]
                    if l[0] == "const":
                        tab[names[v]] = l[1]
            ctx.check(set(tab) == {"Leaf", "Parent"} and tab["Leaf"] < tab["Parent"], "R16.5", ["kind", "leaf-before-parent"],
                      "kind() maps %s; benchmarks (Leaf) must order before groups (Parent)" % tab, b.where(0), detail=tab)
    adt = prog.adt("entry::meta::EntryLocation", crate)
    if ctx.anchor("R16.5", "EntryLocation ADT", 1 if adt else 0, 1):
        fields = [f["name"] for f in adt["variants"][0]["fields"]]
        ctx.check(fields == ["file", "line", "col"], "R16.5", ["EntryLocation", "field-order"],
                  "EntryLocation fields are declared %s; derived Ord compares in declaration order, expected file, line, col" % fields,
                  "src/entry/meta.rs")
        der = {i["trait"].rsplit("::", 1)[-1] for i in prog.impls(crate) if norm(i["self"]) == "entry::meta::EntryLocation" and i["derived"]}
        ctx.check({"Ord", "PartialOrd"} <= der, "R16.5", ["EntryLocation", "derived-Ord"],
                  "EntryLocation's Ord/PartialOrd are not derived (%s)" % sorted(der), "src/entry/meta.rs")
    # location(): own meta location, else minimum over children
    b = prog.body("entry::tree::EntryTree::location", crate)
    if ctx.anchor("R16.5", "EntryTree::location", 1 if b else 0, 1):
        ctx.saw(b)
        names_ = [c.callee for c in b.live_calls()]
        ctx.check(any(n.endswith("::min") for n in names_) and not any(n.endswith("::max") for n in names_), "R16.5",
                  ["location", "earliest-child"], "a group's location is not the minimum of its children's (%s)" % names_, b.where(0))
        # ... of its children's *location()*, recursively: a plain module two levels above its benchmarks still has a position
        rec = any(a["k"] == "const" and norm(a["c"].get("fn") or a["c"]["d"]).endswith("EntryTree::location") for c in b.live_calls() for a in c.args) or \
            any(c.callee == "entry::tree::EntryTree::location" for x in prog.children(b) if x.kind == "Closure" for c in x.live_calls()) or \
            any(c.callee == "entry::tree::EntryTree::location" for c in b.live_calls())
        kids = any(c.callee == "entry::tree::EntryTree::children" for c in b.live_calls())
        ctx.check(rec and kids, "R16.5", ["location", "earliest-descendant"],
                  "the location of a node without its own position is not computed from the location() of each of its children (a module that only contains modules would have none and sort before everything)", b.where(0))


PANIC_EXCEPTIONS = {
    ("entry::generic::GenericBenchEntry::raw_name", "diverge:core::panicking::panic"):
        "unreachable!() for (ty: None, const_value: None): the macro always emits a type or a const for a generic entry",
    ("entry::generic::GenericBenchEntry::display_name", "diverge:core::panicking::panic"):
        "same unreachable!() arm",
    ("<util::sort::Tokenizer as std::iter::Iterator>::next", "assert:Overflow"):
        "dev-profile overflow check of `kind_len += 1`; kind_len <= input.len() <= isize::MAX",
}
PANICKY_LAST = {"index", "index_mut", "unwrap", "expect", "unwrap_err", "expect_err", "split_at", "split_at_mut", "copy_from_slice",
                "slice_error_fail", "unwrap_failed", "expect_failed", "panic_fmt", "begin_panic", "assert_failed", "swap", "split_off",
                "remove", "insert", "truncate", "drain", "from_utf8", "to_owned_panic", "unreachable_unchecked"}


def r16_6(ctx, prog, crate):
    """'Sorting never panics' - conservative structural part: divan's own code reachable from sort_by_attr (including the
    trait impls of local types handed to generic std code, e.g. Tokenizer/Token) contains no panic edge - no Assert
    terminator, no diverging call, no call of a panicking std accessor (indexing/slicing, unwrap/expect, ...) - other than
    the enumerated exceptions. User-provided PartialOrd/ToString callbacks are outside the claim."""
    b = prog.body("entry::tree::EntryTree::sort_by_attr", crate)
    if b is None:
        return
    bodies, ext, ind = prog.callee_closure([b], crate=crate, follow_generic_impls=True)
    n = 0
    for x in sorted(bodies, key=lambda y: y.path):
        ctx.saw(x)
        for i in sorted(x.live):
            t = x.term(i)
            n += 1
            kind = None
            if x.inlined_from(i):
                continue    # a copy of a helper's block: examined in the helper's own body
            if t["k"] == "assert":
                kind = "assert:" + t["kind"]
            elif t["k"] == "call":
                c = x.call_at(i)
                if t["t"] is None:
                    kind = "diverge:" + c.callee
                elif c.callee.rsplit("::", 1)[-1] in PANICKY_LAST and not c.callee.startswith(("std::option::Option::unwrap_or", "std::result::Result::unwrap_or")):
                    kind = "panicking-call:" + c.callee
            if kind is None:
                continue
            ctx.check((x.path, kind) in PANIC_EXCEPTIONS, "R16.6", [x.path, kind],
                      "`%s` (reachable while sorting) has a panic edge: %s" % (x.path, kind), x.where(i))
    ctx.anchor("R16.6", "terminators examined in code reachable from sort_by_attr", n, 80)
    found = {x.path for x in bodies}
    for want in ("util::sort::natural_cmp", "util::sort::cmp_int", "<util::sort::Tokenizer as std::iter::Iterator>::next",
                 "<util::sort::Token as std::cmp::Ord>::cmp", "config::SortingAttr::cmp_bench_arg_names"):
        ctx.check(want in found, "R16.6/ANCHOR", [want], "`%s` is not in the analysed closure" % want, None)


def r16_7(ctx, prog, crate):
    """Numeric runtime arguments compare by value: the Name arm of cmp_bench_arg_names, path by path (lib/patheval.py).
    Every way of arriving at an ordering is checked against the staging the value order needs - integers first (both
    unsigned: compare as u128; one unsigned and the other a (negative) i128: fixed answer; both negative: compare as i128),
    floats only when NO integer row applies, natural order only when neither applies - and each later stage may only be
    reached on paths whose decisions rule out every earlier row (so two integers are never compared as f64)."""
    from lib.patheval import PathEval
    from lib.symexpr import show
    b = prog.body("config::SortingAttr::cmp_bench_arg_names", crate)
    names = tables.variant_names(prog, "config::SortingAttr", crate)
    if not ctx.anchor("R16.7", "SortingAttr::cmp_bench_arg_names + ADT", (1 if b else 0) + (1 if names else 0), 2):
        return
    ctx.saw(b)
    sws = [x for x in tables.discr_switches(b) if b.local_ty(x[2]).endswith("config::SortingAttr")]
    if not ctx.check(len(sws) == 1, "R16.7", ["cmp_bench_arg_names", "match-on-attr"], "matches on the attribute: %d" % len(sws), b.where(0)):
        return
    bi, t, _ = sws[0]
    arms, otherwise = tables.arm_targets(t)
    name_t = arms.get(names.index("Name"), otherwise)
    kind_t = arms.get(names.index("Kind"), otherwise)
    # the `ordering` variable: what the Kind arm sets to Equal; the join = where it is first read
    ordl = None
    for s in b.blocks[kind_t]["stmts"]:
        if s["k"] == "assign" and s["rv"]["k"] == "agg" and s["rv"].get("variant") == "Equal" and not s["p"]["proj"]:
            ordl = s["p"]["l"]
    if not ctx.check(ordl is not None, "R16.7", ["cmp_bench_arg_names", "ordering-variable"], "cannot find the per-attribute ordering variable", b.where(kind_t)):
        return
    readers = set()
    for y, si, s in b.stmts():
        if s["k"] == "assign":
            rv = s["rv"]
            pl = rv.get("p") if rv["k"] in ("ref", "discr") else (rv.get("o", {}).get("p") if rv["k"] == "use" else None)
            if pl is not None and pl["l"] == ordl:
                readers.add(y)
    sums = PathEval(b, max_paths=5000).run(start=name_t, stop_at=readers)
    if not ctx.check(sums is not None and sums, "R16.7", ["cmp_bench_arg_names", "summarisable"], "the Name arm has a loop or too many paths", b.where(name_t)):
        return

    def who(e):
        for k_, nm in ((2, "a"), (3, "b")):
            if e in (("sptr", (k_, ())), ("ptr", (k_, ())), ("arg", k_, ())):
                return nm
        return None

    def parse_site(e):
        """(type, 'a'|'b', bb) of a `x.parse::<T>()` site expression"""
        if e[0] == "site" and e[1].endswith("str::parse") and len(e) > 3 and e[3]:
            c = b.call_at(e[2])
            ty = (c.gargs or ["?"])[0] if c is not None else "?"
            x = e[3][0]
            # `a` is `&&str`: one more deref may show as a cell / field-less projection
            w = who(x)
            if w is None and x[0] in ("arg",) and x[2] == ():
                w = {2: "a", 3: "b"}.get(x[1])
            return ty, w, e[2]
        return None
    def num_side(e):
        """'a'|'b' when `e` is x.parse::<f64>() possibly wrapped in ok()/filter()/payload - the crate's "is a number" test."""
        while True:
            if e[0] == "payload":
                e = e[3]
                continue
            if e[0] == "adt" and e[2] in ("Some", "Ok") and len(e[3]) == 1:
                e = e[3][0]
                continue
            if e[0] == "site" and e[1].rsplit("::", 1)[-1] in ("ok", "filter", "ok_or", "as_ref", "copied") and len(e) > 3 and e[3]:
                e = e[3][0]
                continue
            break
        ps = parse_site(e)
        if ps and ps[0] == "f64" and ps[1]:
            return ps[1], e[1] if e[0] == "site" else None
        if e[0] == "site" and len(e) > 3 and len(e[3]) == 1:
            # a crate-local "is a number" helper: one argument, parses it as f64
            hb = prog.body(e[1], crate)
            w = who(e[3][0])
            if w is None and e[3][0][0] == "arg" and e[3][0][2] == ():
                w = {2: "a", 3: "b"}.get(e[3][0][1])
            if hb is not None and w and any(c.callee.endswith("str::parse") and (c.gargs or ["?"])[0] == "f64" for c in hb.live_calls()):
                return w, "helper:" + hb.local_ty(0)
        return None

    def inner_f64(e, depth=0):
        """side of the one f64 parse an expression is computed from"""
        if depth > 8 or not isinstance(e, tuple):
            return None
        ns = num_side(e)
        if ns:
            return ns[0]
        for x_ in e[1:]:
            if isinstance(x_, tuple):
                r_ = inner_f64(x_, depth + 1)
                if r_:
                    return r_
        return None

    MIRROR = {"lt": "gt", "gt": "lt", "eq": "eq"}
    RELS = {("Lt", True): {"lt"}, ("Lt", False): {"eq", "gt"}, ("Le", True): {"lt", "eq"}, ("Le", False): {"gt"},
            ("Gt", True): {"gt"}, ("Gt", False): {"lt", "eq"}, ("Ge", True): {"gt", "eq"}, ("Ge", False): {"lt"},
            ("Eq", True): {"eq"}, ("Eq", False): {"lt", "gt"}, ("Ne", True): {"lt", "gt"}, ("Ne", False): {"eq"}}
    REV = {"Less": "Greater", "Greater": "Less", "Equal": "Equal"}
    INT = ("U", "N")
    bad = []
    stages = set()
    covered = set()
    mixed_dir = set()     # the direction a number takes against a non-number, normalised to (number, non-number)
    tie_dir = set()       # the direction an integer takes against a non-integer of the same f64 value
    for sm in sums:
        fact = {}
        feasible = True
        rel = {"lt", "eq", "gt"}

        def learn(k_, v):
            nonlocal feasible
            if v is None:
                return
            if fact.get(k_, v) != v:
                feasible = False
            fact[k_] = v
        for a, pol in sm.conds:
            if a[0] == "discr":
                ps = parse_site(a[1])
                ns = num_side(a[1])
                if ps and ps[1] and ps[0] != "f64":
                    learn((ps[0], ps[1]), (a[2] == 0) if pol else (None if a[2] == 0 else None))
                    if not pol and a[2] == 0:
                        learn((ps[0], ps[1]), False)
                elif a[1][0] == "site" and a[1][1].rsplit("::", 1)[-1] in ("partial_cmp",) and len(a[1][3]) == 2 and \
                        num_side(a[1][3][0]) and num_side(a[1][3][1]):
                    if not (a[2] == 1 and pol):
                        feasible = False      # incomparable numbers (NaN): not decided, the path is left out
                elif a[1][0] == "payload" and a[1][3][0] == "site" and a[1][3][1].rsplit("::", 1)[-1] == "partial_cmp" and \
                        len(a[1][3][3]) == 2 and num_side(a[1][3][3][0]) and num_side(a[1][3][3][1]):
                    sa, sb = num_side(a[1][3][3][0]), num_side(a[1][3][3][1])
                    code = {255: "lt", -1: "lt", 0: "eq", 1: "gt"}
                    if a[2] in code:
                        r_ = {code[a[2]]}
                    elif isinstance(a[2], str) and a[2].startswith("other:"):
                        r_ = {"lt", "eq", "gt"} - {code.get(int(x_)) for x_ in a[2][6:].split(",")}
                    else:
                        r_ = {"lt", "eq", "gt"}
                    if not pol:
                        r_ = {"lt", "eq", "gt"} - r_
                    if (sa[0], sb[0]) == ("b", "a"):
                        r_ = {MIRROR[x_] for x_ in r_}
                    if {sa[0], sb[0]} == {"a", "b"}:
                        rel &= r_
                elif ns:
                    # Result: Ok = 0; Option: Some = 1
                    is_opt = (a[1][0] == "site" and a[1][1].rsplit("::", 1)[-1] in ("ok", "filter")) or \
                        (ns[1] or "").startswith("helper:std::option::Option")
                    yes = 1 if is_opt else 0
                    key = "num" if is_opt else "f64ok"     # Option forms come out of a NaN filter / helper; a bare Result does not
                    if a[2] in (0, 1):
                        learn((key, ns[0]), (a[2] == yes) == bool(pol))
                    elif isinstance(a[2], str) and a[2].startswith("other:"):
                        v0 = int(a[2].split(":")[1])
                        learn((key, ns[0]), (v0 != yes) == bool(pol))
            elif a[0] == "bool" and a[1][0] == "site" and a[1][1].endswith(("Result::is_ok", "Result::is_err", "Option::is_some", "Option::is_none")) and a[1][3]:
                x = a[1][3][0]
                ps = None
                if x[0] == "site":
                    ps = parse_site(x)
                elif x[0] in ("sptr", "ptr") and isinstance(x[1][0], tuple) and x[1][0][0] == "ret":
                    c = b.call_at(x[1][0][2])
                    if c is not None and c.callee.endswith("str::parse"):
                        # recover the argument from the recorded calls of this path
                        for callee, args, bb in sm.calls:
                            if bb == c.bb:
                                ps = ((c.gargs or ["?"])[0], who(args[0]), bb)
                v = pol if a[1][1].endswith(("is_ok", "is_some")) else (not pol)
                if ps and ps[1]:
                    learn(("num" if ps[0] == "f64" else ps[0], ps[1]), v)
                elif x[0] == "site" and num_side(x):
                    learn(("num", num_side(x)[0]), v)
            elif a[0] == "bool" and a[1][0] == "site" and a[1][1].rsplit("::", 1)[-1] == "is_nan" and a[1][3]:
                sd = inner_f64(a[1][3][0])
                if sd:
                    learn(("nan", sd), bool(pol))
            elif a[0] in ("Lt", "Le", "Gt", "Ge", "Eq", "Ne") and len(a) == 3:
                sa, sb = num_side(a[1]), num_side(a[2])
                if sa and sb and {sa[0], sb[0]} == {"a", "b"}:
                    r_ = RELS[(a[0], bool(pol))]
                    if sa[0] == "b":
                        r_ = {MIRROR[x_] for x_ in r_}
                    rel &= r_

        def classes(sd):
            cs = {"U", "N", "F", "S"}
            u, i_, n = fact.get(("u128", sd)), fact.get(("i128", sd)), fact.get(("num", sd))
            if n is None:
                fo, nan = fact.get(("f64ok", sd)), fact.get(("nan", sd))
                if nan is True or fo is False:
                    n = False
                elif fo is True:
                    n = True       # NaN not excluded on this path: whether NaN is ranked as a non-number is not decided here
            if u is True:
                cs &= {"U"}
            if u is False:
                cs -= {"U"}
            if i_ is True:
                cs &= {"U", "N"}
            if i_ is False:
                cs -= {"N"}
                if u is not True:
                    cs -= {"U"} if u is False else set()
            if n is True:
                cs -= {"S"}
            if n is False:
                cs &= {"S"}
            return cs
        ca_, cb_ = classes("a"), classes("b")
        if not feasible or not ca_ or not cb_ or not rel:
            continue
        r = sm.env.get(ordl, ("undef", ordl))
        kind = None
        if r[0] == "site" and r[1].rsplit("::", 1)[-1] == "cmp" and len(r[3]) == 2:
            ops = [parse_site(o[3]) if (o[0] == "payload" and o[1] == "Ok") else None for o in r[3]]
            if len(ops) == 2 and all(ops) and ops[0][0] == ops[1][0] and (ops[0][1], ops[1][1]) == ("a", "b"):
                kind = "cmp-" + ops[0][0]
            else:
                kind = "cmp-?"
        elif r[0] == "adt" and r[1].endswith("cmp::Ordering"):
            kind = r[2]
        elif r[0] == "payload" and r[1] == "Some" and r[3][0] == "site" and r[3][1].rsplit("::", 1)[-1] == "partial_cmp":
            ops = [num_side(o) for o in r[3][3]]
            kind = "float" if len(ops) == 2 and all(ops) and (ops[0][0], ops[1][0]) == ("a", "b") else "float-?"
        elif r[0] == "site" and r[1].endswith("natural_cmp"):
            kind = "natural"
        stages.add(kind)
        why = None
        for ca in sorted(ca_):
            for cb in sorted(cb_):
                covered.add((ca, cb))
                if (ca, cb) == ("U", "U"):
                    want = {"cmp-u128"}
                elif (ca, cb) == ("N", "N"):
                    want = {"cmp-i128"}
                elif (ca, cb) == ("U", "N"):
                    want = {"Greater"}
                elif (ca, cb) == ("N", "U"):
                    want = {"Less"}
                elif (ca, cb) == ("S", "S"):
                    want = {"natural"}
                elif cb == "S":
                    want = {"Less", "Greater"}
                    if kind in want:
                        mixed_dir.add(kind)
                elif ca == "S":
                    want = {"Less", "Greater"}
                    if kind in want:
                        mixed_dir.add(REV[kind])
                else:
                    # two numbers, not both integers: by f64 value; on a tie an integer and a non-integer are kept apart
                    want = set()
                    for x_ in rel:
                        if x_ == "lt":
                            want.add("Less")
                        elif x_ == "gt":
                            want.add("Greater")
                        elif (ca, cb) == ("F", "F"):
                            want.add("Equal")
                        else:
                            want |= {"Less", "Greater"}
                            if rel == {"eq"} and kind in ("Less", "Greater"):
                                tie_dir.add(kind if ca in INT else REV[kind])
                    if kind == "float" and (ca, cb) == ("F", "F"):
                        want = {"float"}
                    if len(rel) > 1 and kind in ("Less", "Greater", "Equal") and len(want) > 1:
                        want = set()     # a constant answer although the float order is still open
                if kind not in want and why is None:
                    why = "%s for (%s, %s)%s" % (kind or show(r), ca, cb, "" if len(rel) == 3 else " with float order %s" % "/".join(sorted(rel)))
        if why:
            bad.append("%s when %s" % (why, {"%s(%s)" % k_: v for k_, v in sorted(fact.items())}))
    ctx.check(not bad, "R16.7", ["cmp_bench_arg_names", "numeric-staging"],
              "paths of the Name arm that do not give the total value order (classes: U unsigned integer, N negative integer, "
              "F other number, S not a number): %s" % bad[:4], b.where(name_t), detail=bad[:8])
    ctx.check(len(mixed_dir) == 1, "R16.7", ["cmp_bench_arg_names", "number-vs-non-number-ranked"],
              "a number and a non-number must be ranked by class, one fixed way round (else float, natural and natural "
              "comparisons disagree cyclically, e.g. 1e3 / 200 / 5x): directions seen %s" % sorted(mixed_dir), b.where(name_t))
    ctx.check(len(tie_dir) == 1, "R16.7", ["cmp_bench_arg_names", "integer-vs-float-tie-ranked"],
              "an integer and a non-integer of the same f64 value must be ranked one fixed way round (else two integers "
              "beyond 2^53 and a float between them order cyclically through the location tie-break): directions seen %s"
              % sorted(tie_dir), b.where(name_t))
    allp = {(x_, y_) for x_ in "UNFS" for y_ in "UNFS"}
    ctx.check(covered == allp, "R16.7", ["cmp_bench_arg_names", "all-class-pairs-covered"],
              "class pairs no path of the Name arm covers: %s" % sorted(allp - covered), b.where(name_t))
    ctx.check({"cmp-u128", "cmp-i128", "Greater", "Less", "natural"} <= stages, "R16.7", ["cmp_bench_arg_names", "all-stages-present"],
              "stages reached: %s" % sorted(str(s) for s in stages), b.where(name_t), detail=sorted(str(s) for s in stages))


def r16_8(ctx, prog, crate):
    """Digit runs compare by numeric value and nothing else: Token::cmp returns, on the path where both tokens are digit
    runs, exactly cmp_int(self.text, other.text) - no further tie-break inside the token (zero padding must leave two runs
    of equal value equal, so that the following text and then location and kind decide) - and on every other path the plain
    string comparison of the two texts."""
    from lib.patheval import PathEval
    b = prog.body("<util::sort::Token as std::cmp::Ord>::cmp", crate)
    if not ctx.anchor("R16.8", "Ord for Token", 1 if b else 0, 1):
        return
    ctx.saw(b)
    sums = PathEval(b).run()
    if not ctx.check(bool(sums), "R16.8", ["Token::cmp", "readable"], "cannot summarise Token::cmp", b.where(0)):
        return
    texts = {(("arg", 1, ("text",)), ("arg", 2, ("text",)))}
    both = 0
    for s in sums:
        ints = {a[1]: p for a, p in s.conds if a[0] == "bool" and a[1] in (("arg", 1, ("is_int",)), ("arg", 2, ("is_int",)))}
        is_both = ints.get(("arg", 1, ("is_int",))) is True and ints.get(("arg", 2, ("is_int",))) is True
        r = s.ret
        if is_both:
            both += 1
            ok = r[0] == "site" and r[1] == "util::sort::cmp_int" and tuple(r[3]) in texts
            ctx.check(ok, "R16.8", ["Token::cmp", "digit-runs", "numeric-value-only"],
                      "two digit runs compare as %s, expected exactly cmp_int(self.text, other.text)" % (r[:2] if r[0] == "site" else r[0],), b.where(s.blocks[-1]))
        else:
            ok = r[0] == "site" and r[1].endswith("::cmp") and "str" in r[1] and tuple(r[3]) in texts
            ctx.check(ok, "R16.8", ["Token::cmp", "text", "plain-string-order"],
                      "a text token compares as %s, expected self.text.cmp(other.text)" % (r[:2] if r[0] == "site" else r[0],), b.where(s.blocks[-1]))
    ctx.check(both >= 1, "R16.8", ["Token::cmp", "digit-run-path"], "no path of Token::cmp handles two digit runs", b.where(0))


def r16_9(ctx, prog, crate):
    """Natural order compares the token sequences of the two *whole* names: natural_cmp is, on its only path, the
    lexicographic comparison (Iterator::cmp) of a tokenizer over exactly `a` with a tokenizer over exactly `b`. Skipping a
    shared prefix or any other slicing before tokenising can cut a digit run in two (n100 / n16 -> 00 / 6), after which the
    run no longer compares by numeric value."""
    from lib.patheval import PathEval
    b = prog.body("util::sort::natural_cmp", crate)
    if not ctx.anchor("R16.9", "natural_cmp", 1 if b else 0, 1):
        return
    ctx.saw(b)
    sums = PathEval(b).run()
    if not ctx.check(bool(sums) and len(sums) == 1 and not sums[0].conds, "R16.9", ["natural_cmp", "single-unconditional-path"],
                     "natural_cmp has %s paths / conditions: the comparison must not depend on a pre-scan of the names" % (len(sums) if sums else "unsummarisable"), b.where(0)):
        return
    r = sums[0].ret

    def whole(e, k):
        """a tokenizer (struct literal or crate-local constructor) over exactly parameter k"""
        me = {("sptr", (k, ())), ("ptr", (k, ())), ("arg", k, ())}
        if e[0] == "adt" and len(e[3]) == 1:
            return e[3][0] in me
        if e[0] == "site" and len(e) > 3 and len(e[3]) == 1:
            return e[3][0] in me
        return False
    ok = r[0] == "site" and r[1].rsplit("::", 1)[-1] == "cmp" and len(r[3]) == 2 and whole(r[3][0], 1) and whole(r[3][1], 2)
    ctx.check(ok, "R16.9", ["natural_cmp", "token-sequences-of-the-whole-names"],
              "natural_cmp is not the lexicographic comparison of the token sequences of exactly `a` and exactly `b`", b.where(0))


def r16_10(ctx, prog, crate):
    """--sort and --sortr name one setting: the reader in config_with_args looks at `sortr` first and at `sort` only when
    `sortr` is absent, which is the documented behaviour (the flag given last decides) only because the command line declares
    the two as overriding each other - without that relation both survive parsing and --sortr wins wherever it stands."""
    from rules.C15 import defined_candidates, str_consts
    cmd = prog.body("cli::command", crate)
    if not ctx.anchor("R16.10", "cli::command", 1 if cmd else 0, 1):
        return
    ctx.saw(cmd)
    rel = set()
    for c in cmd.live_calls():
        n = c.callee.rsplit("::", 1)[-1]
        if c.callee.startswith("clap::") and n in ("overrides_with", "overrides_with_all", "conflicts_with", "conflicts_with_all"):
            for s_ in defined_candidates(cmd, c):
                for o_ in (str_consts(cmd.prov.op_src(c.args[1])) if len(c.args) > 1 else set()):
                    rel.add(frozenset((s_, o_)))
    ctx.check(frozenset(("sort", "sortr")) in rel, "R16.10", ["sort/sortr", "declared-as-one-setting"],
              "the command line does not relate --sort and --sortr (overrides_with): both values survive parsing and the reader "
              "prefers --sortr wherever it stands", cmd.where(0))


def run_extra(ctx):
    """R16.11 location order keeps the declaration order of a benchmark's type instantiations: they share one location, so
    cmp_by_attr falls back to the entries' addresses (R16.5) - which follow the order of `types = [...]` only because the
    macro emits the instantiations of a types-only benchmark as the elements of ONE array literal. Separate statics are laid
    out by the linker, not by source order. Analysed on the macro expansions (engine E3)."""
    import re
    from . import C12
    C12.ensure_tool()
    ctx.cfg = "expand"
    n = 0
    for t in C12.targets(ctx.tier):
        exp = C12.expand_target(t)
        for r in C12.tool("regs", exp)["regs"]:
            for st in r.get("structs", []):
                gb = st.get("fields", {}).get("generic_benches")
                if not gb:
                    continue
                g = re.sub(r"\s+", "", gb)
                if not g.startswith("::std::option::Option::Some(") or "__DIVAN_CONSTS" in g:
                    continue          # not generic, or a consts dimension (exempt: the property lets it fall back to name order)
                n += 1
                one_array = g.startswith("::std::option::Option::Some({&[&[") and "static__DIVAN_GENERIC_BENCHES" not in g
                ctx.check(one_array, "R16.11", [t["name"], r.get("static", "?"), "type-instantiations-in-one-array"],
                          "the type instantiations of %s are not the elements of one array literal: their addresses (the location "
                          "tie-break) no longer follow the declaration order of `types = [...]`" % r.get("static", "?"), t["name"])
    ctx.anchor("R16.11", "types-only generic benchmarks in the macro expansions", n, 2)


def run(ctx, prog, crate):
    r16_10(ctx, prog, crate)
    r16_9(ctx, prog, crate)
    r16_8(ctx, prog, crate)
    r16_7(ctx, prog, crate)
    r16_6(ctx, prog, crate)
    r16_1(ctx, prog, crate)
    r16_2(ctx, prog, crate)
    r16_3(ctx, prog, crate)
    r16_4(ctx, prog, crate)
    r16_5(ctx, prog, crate)
