"""C17  Each row is measured with the argument, constant and type it names."""
from lib.facts import norm, direct_place, const_int, origins, place_fields, nophi
from lib import tables

INLINE = True      # crate-local helpers the rules do not know by name are inlined into their callers (lib/inline.py)
EXPLANATION = (
    "R17.1 label, index and runner come from one place: in run_bench_entry's Args arm the label given to run_bench, the "
    "pointer given to slice_ptr_index and the loop variable are the same value; the base slice is arg_names() of the "
    "same bench_runner() result whose .bench(bencher, index) is invoked with that index. R17.2 Leaf.args is produced "
    "only by arg_names().iter().collect() and mutated only by retain and sort_by, so its elements always point into the "
    "original names slice (element type &'static &'static str). R17.3 parallel slices: in BenchArgs::runner the stored "
    "len is args.len(), names is the argument slice itself, the remaining slice of the same iterator taken before "
    "collecting, or a map over args.iter() in order; arg_type is TypeId::of::<I::Item>() with the same I::Item that "
    "instantiates bench::<I::Item, B>; everything inside OnceLock::get_or_init. R17.4 check before cast: in typed_args "
    "the TypeId equality dominates from_raw_parts; in bench the None arm diverges; the argument handed to the user "
    "function is typed_args[arg_index]. The macro side (one __DIVAN_ARGS per function, own type/const per "
    "instantiation) is R12.2/R12.3 (C12)."
    " R17.5 macro side (engine E3, on the expansions of the corpus and of the repository's own programs): one shared argument cell (a static of type BenchArgs) per attributed function, every runner closure of every generic instantiation goes through that one cell, each GenericBenchEntry instantiates the function with the type / constant it is labelled with, and the args expression is the one written."
    " R17.6 EntryConst::name caches in its own cell, no statics shared between consts. R17.7 the checked downcast every argument-type decision goes through: cast_ref::<T>() is Some(self) exactly when is_type_eq::<Self, T>() and None otherwise; is_type_eq::<A, B>() compares the ids of A and B; proxy_type_id::<T>() is the id of a closure type over PhantomData<T>.")
NOT_DECIDED = ["ToString/Debug output equality for user types", "programs outside the analysed macro corpus (C12)"]


def r17_1(ctx, prog, crate):
    b = prog.body("divan::Divan::run_bench_entry", crate)
    if not ctx.anchor("R17.1", "run_bench_entry", 1 if b else 0, 1):
        return
    ctx.saw(b)
    spi = [c for c in b.live_calls() if c.callee == "util::slice_ptr_index"]
    an = [c for c in b.live_calls() if c.callee == "benchmark::args::BenchArgsRunner::arg_names"]
    if not ctx.check(len(spi) == 1 and len(an) == 1, "R17.1", ["run_bench_entry", "shape"], "slice_ptr_index x%d arg_names x%d" % (len(spi), len(an)), b.where(0)):
        return
    spi, an = spi[0], an[0]
    # the runner value: result of the fn-pointer call
    rcalls = [c for c in b.live_calls() if c.decl is None and "BenchArgsRunner" in c.dest["ty"]]
    if not ctx.check(len(rcalls) == 1, "R17.1", ["run_bench_entry", "runner-call"], "bench_runner() call sites: %d" % len(rcalls), b.where(0)):
        return
    rc = rcalls[0]
    ctx.check(any(z.kind == "call" and z.b == rc.bb for z in b.prov.op_src(an.args[0])) and nophi(b.prov.op_src(an.args[0])), "R17.1", ["run_bench_entry", "names-of-this-runner"],
              "arg_names() is not asked of the runner obtained here", an.line())
    d0 = direct_place(b, spi.args[0])
    ctx.check(d0 is not None and d0[0] == "call" and d0[1].bb == an.bb, "R17.1", ["run_bench_entry", "index-base-is-original-names"],
              "slice_ptr_index's base is not bench_runner.arg_names() (the original, unsorted, unfiltered slice)", spi.line())
    lp = b.innermost_loop(spi.bb)
    nx = [c for c in b.live_calls() if lp and c.bb in lp["body"] and c.callee.endswith("::next") and b.innermost_loop(c.bb)["header"] == lp["header"]]
    if not ctx.check(lp is not None and len(nx) == 1, "R17.1", ["run_bench_entry", "per-argument-loop"], "no per-argument loop around slice_ptr_index", spi.line()):
        return
    nx = nx[0]
    # loop iterates the bench_arg_names parameter
    it = b.prov.op_src(nx.args[0])
    names_param = [l for l in range(1, b.arg_count + 1) if "&&str" in b.local_ty(l) or "&[&&str]" in b.local_ty(l)]
    ctx.check(bool(names_param) and any(z.kind == "param" and z.a == b.param_name(names_param[0]) for z in it), "R17.1", ["run_bench_entry", "iterates-retained-args"],
              "the loop does not iterate the (filtered, sorted) argument names handed in by run_tree", nx.line())
    item = _loop_item(b, nx)
    e1 = _same_item(b, spi.args[1], nx)
    ctx.check(e1, "R17.1", ["run_bench_entry", "index-of-loop-item"], "slice_ptr_index is not applied to the loop's current name", spi.line())
    # run_bench call: label = loop item; closure captures arg_index = spi result and the same runner
    from .common import closure_of
    rb = [c for c in b.live_calls() if c.bb in lp["body"] and c.is_fn_trait_call and closure_of(prog, crate, c.name, b.path)]
    if ctx.check(len(rb) == 1, "R17.1", ["run_bench_entry", "run_bench-call"], "run_bench calls in the loop: %d" % len(rb), b.where(lp["header"])):
        c = rb[0]
        tup = None
        for dd in b.prov.defs.get(c.args[1]["p"]["l"], []) if c.args[1]["k"] in ("copy", "move") else []:
            if dd[0] == "S" and dd[3]["rv"]["k"] == "agg" and dd[3]["rv"]["ak"] == "tuple":
                tup = dd[3]["rv"]["ops"]
        if ctx.check(tup is not None and len(tup) == 3, "R17.1", ["run_bench_entry", "run_bench-args"], "cannot read run_bench's argument tuple", c.line()):
            ctx.check(_same_item(b, tup[0], nx), "R17.1", ["run_bench_entry", "label-is-loop-item"],
                      "the label painted for this row is not the name whose index is looked up", c.line())
            # the with_bencher closure
            cl = None
            srcs = b.prov.op_src(tup[2])
            for bi2, si2, s2 in b.stmts():
                if s2["k"] == "assign" and s2["rv"]["k"] == "agg" and s2["rv"]["ak"] == "closure" and bi2 in lp["body"]:
                    cb = prog.bodies.get((b.crate, norm(s2["rv"]["def"]), -1))
                    if cb is not None and any(q.callee == "benchmark::args::BenchArgsRunner::bench" for q in cb.live_calls()):
                        cl = (cb, s2)
            if ctx.check(cl is not None, "R17.1", ["run_bench_entry", "with_bencher-closure"], "no closure calling BenchArgsRunner::bench in the loop", c.line()):
                cb, s2 = cl
                ctx.saw(cb)
                q = [q for q in cb.live_calls() if q.callee == "benchmark::args::BenchArgsRunner::bench"][0]
                caps = cb.captures or []
                def cap_src(opnd):
                    out = set()
                    for z in cb.prov.op_src(opnd):
                        if z.kind == "upvar":
                            for cn in caps:
                                if cn.lstrip("*") == z.a.lstrip("*"):
                                    cp = prog.capture_operand(cb, cn)
                                    if cp:
                                        out |= {(y.kind, y.a, y.b) for y in cp[0].prov.op_src(cp[1])}
                    return out
                idx = cap_src(q.args[2])
                run = cap_src(q.args[0])
                # EVERY origin of the index is the lookup of this row's label (a position in the sorted/filtered list is not)
                all_lookup = False
                for z in cb.prov.op_src(q.args[2]):
                    if z.kind == "upvar":
                        for cn in caps:
                            if cn.lstrip("*") == z.a.lstrip("*"):
                                cp = prog.capture_operand(cb, cn)
                                if cp:
                                    og = origins(cp[0], cp[1])
                                    all_lookup = bool(og) and all(o[0] == "call" and o[1].bb == spi.bb for o in og)
                ctx.check(("call", "util::slice_ptr_index", spi.bb) in idx and not any(k == "binop" for k, a, bb in idx) and all_lookup, "R17.1", ["run_bench_entry", "runs-looked-up-index"],
                          "BenchArgsRunner::bench is not called (on every path) with the index looked up in the original argument list for this row's label", q.line())
                ctx.check(any(k == "call" and bb == rc.bb for k, a, bb in run), "R17.1", ["run_bench_entry", "same-runner"],
                          "BenchArgsRunner::bench is called on a different runner than the one whose names were indexed", q.line())
                ctx.check({z.label() for z in cb.prov.op_src(q.args[1])} == {"param:" + cb.param_name(2)}, "R17.1", ["run_bench_entry", "passes-bencher"],
                          "the Bencher is not forwarded", q.line())
    # BenchArgsRunner::bench / arg_names forward to the stored fn and slice
    rb_ = prog.body("benchmark::args::BenchArgsRunner::bench", crate)
    if ctx.anchor("R17.1", "BenchArgsRunner::bench", 1 if rb_ else 0, 1):
        ic = [c for c in rb_.live_calls() if c.decl is None]
        ok = len(ic) == 1
        if ok:
            c = ic[0]
            f = {z.label() for z in rb_.prov.op_src(c.func)}
            a = [{z.label() for z in rb_.prov.op_src(x)} for x in c.args]
            ok = f == {"param:self.bench"} and a == [{"param:" + rb_.param_name(2)}, {"param:self.args"}, {"param:" + rb_.param_name(3)}]
        ctx.check(ok, "R17.1", ["BenchArgsRunner::bench", "forwards"], "BenchArgsRunner::bench is not (self.bench)(bencher, self.args, index)", rb_.where(0))
    sp = prog.body("util::slice_ptr_index", crate)
    ctx.check(sp is not None, "R17.1", ["slice_ptr_index", "exists"], "util::slice_ptr_index missing", None)


def _loop_item(b, nx):
    return nx.dest["l"]


def _same_item(b, op, nx):
    """operand is (a copy of) the name yielded by this iteration's next(): payload of Some((i, &name)) field 1, or the
    payload itself."""
    srcs = b.prov.op_src(op)
    if not any(z.kind == "call" and z.b == nx.bb for z in srcs):
        return False
    # not the index part of the enumerate tuple and not some other call's result
    others = [z for z in srcs if z.kind == "call" and z.b != nx.bb and not z.a.endswith(("::iter", "::enumerate", "::into_iter", "unwrap_or_default"))]
    return not others and not any(z.kind == "binop" for z in srcs)


def r17_2(ctx, prog, crate):
    adt = prog.adt("entry::tree::EntryTree", crate)
    if ctx.anchor("R17.2", "EntryTree ADT", 1 if adt else 0, 1):
        leaf = [v for v in adt["variants"] if v["name"] == "Leaf"][0]
        f = {x["name"]: x["ty"] for x in leaf["fields"]}
        ctx.check(f.get("args") == "std::option::Option<std::vec::Vec<&'static &'static str>>", "R17.2", ["Leaf.args", "element-type"],
                  "Leaf.args has type %s (elements must be pointers into the static names slice)" % f.get("args"), "src/entry/tree.rs", detail=f)
    # constructors of Leaf
    n = 0
    for b in prog.lib_bodies(crate):
        if "::tests::" in b.path:
            continue
        for bi, si, s in b.stmts():
            if s["k"] == "assign" and s["rv"]["k"] == "agg" and s["rv"]["ak"] == "adt" and norm(s["rv"]["adt"]) == "entry::tree::EntryTree" and s["rv"]["variant"] == "Leaf":
                n += 1
                o = s["rv"]["ops"][s["rv"]["fields"].index("args")]
                srcs = b.prov.op_src(o)
                names = {z.a for z in srcs if z.kind == "call"}
                ok = "entry::AnyBenchEntry::arg_names" in names and "std::option::Option::map" in names
                # the mapping closure is |args| args.iter().collect()
                if ok:
                    ok = False
                    for c in b.live_calls():
                        if c.callee == "std::option::Option::map" and any(z.kind == "call" and z.b == c.bb for z in srcs):
                            for dd in b.prov.defs.get(c.args[1]["p"]["l"], []) if c.args[1]["k"] in ("copy", "move") else []:
                                if dd[0] == "S" and dd[3]["rv"]["k"] == "agg" and dd[3]["rv"]["ak"] == "closure":
                                    cb = prog.bodies.get((b.crate, norm(dd[3]["rv"]["def"]), -1))
                                    cn = [q.callee for q in cb.live_calls()]
                                    ok = cn == ["core::slice::iter", "std::iter::Iterator::collect"]
                entry_o = s["rv"]["ops"][s["rv"]["fields"].index("entry")]
                same_entry = False
                for c in b.live_calls():
                    if c.callee == "entry::AnyBenchEntry::arg_names" and any(z.kind == "call" and z.b == c.bb for z in srcs):
                        a = {z.label() for z in b.prov.op_src(c.args[0]) if z.kind == "param"}
                        e = {z.label() for z in b.prov.op_src(entry_o) if z.kind == "param"}
                        same_entry = a == e and len(a) == 1
                ctx.check(ok and same_entry, "R17.2", [b.path, "Leaf-constructor", "args-from-own-arg_names"],
                          "a Leaf is built in `%s` whose args are not entry.arg_names().iter().collect() of its own entry" % b.path, b.where(bi))
    ctx.anchor("R17.2", "Leaf constructors", n, 2)
    # mutators of Vec<&&str>
    allowed = {"retain": "entry::tree::EntryTree::retain::retain::{closure#0}", "sort_by": "entry::tree::EntryTree::sort_by_attr::{closure#2}"}
    m = 0
    for b in prog.lib_bodies(crate):
        if "::tests::" in b.path:
            continue
        for c in b.live_calls():
            g0 = c.gargs[0] if c.gargs else ""
            if c.callee.startswith(("std::vec::Vec::", "std::slice::", "core::slice::")) and "&&str" in g0.replace("'static ", "").replace(" ", ""):
                last = c.callee.rsplit("::", 1)[-1]
                if last in ("len", "is_empty", "iter", "as_ptr", "deref", "as_slice", "get", "first", "last", "into_iter", "as_deref", "new", "with_capacity"):
                    continue
                m += 1
                from .common import hosted_in
                owner = {"retain": "entry::tree::EntryTree::retain", "sort_by": "entry::tree::EntryTree::sort_by_attr"}.get(last)
                ctx.check(owner is not None and hosted_in(prog, b, owner), "R17.2", ["Leaf.args-mutator", b.path, last],
                          "`%s` is applied to a Vec<&&str> in `%s` (only retain and sort_by may touch Leaf.args)" % (c.callee, b.path), c.line())
    ctx.anchor("R17.2", "mutating calls on Vec<&&str>", m, 2)
    # AnyBenchEntry::arg_names comes from the runner's names
    for path in ("entry::AnyBenchEntry::arg_names",):
        b = prog.body(path, crate)
        if ctx.anchor("R17.2", path, 1 if b else 0, 1):
            names = {c.callee for c in b.live_calls()}
            ctx.check("benchmark::args::BenchArgsRunner::arg_names" in names, "R17.2", [path, "from-runner"], "arg_names() calls %s" % sorted(names), b.where(0))


def r17_3(ctx, prog, crate):
    rn = prog.body("benchmark::args::BenchArgs::runner", crate)
    if not ctx.anchor("R17.3", "BenchArgs::runner", 1 if rn else 0, 1):
        return
    ctx.saw(rn)
    goi = [c for c in rn.live_calls() if c.callee == "std::sync::OnceLock::get_or_init"]
    if not ctx.check(len(goi) == 1, "R17.3", ["runner", "get_or_init"], "get_or_init sites: %d" % len(goi), rn.where(0)):
        return
    ctx.check({z.label() for z in rn.prov.op_src(goi[0].args[0]) if z.kind == "param"} == {"param:self.args"}, "R17.3", ["runner", "once-per-BenchArgs"],
              "get_or_init is not applied to self.args", goi[0].line())
    init = None
    for dd in rn.prov.defs.get(goi[0].args[1]["p"]["l"], []) if goi[0].args[1]["k"] in ("copy", "move") else []:
        if dd[0] == "S" and dd[3]["rv"]["k"] == "agg" and dd[3]["rv"]["ak"] == "closure":
            init = prog.bodies.get((rn.crate, norm(dd[3]["rv"]["def"]), -1))
    if not ctx.check(init is not None, "R17.3", ["runner", "init-closure"], "no init closure", goi[0].line()):
        return
    ctx.saw(init)
    # the user iterator is evaluated inside the init closure only
    # the user's iterator constructor: the only Fn*-trait call on a captured variable that takes no arguments
    mk = [c for c in init.live_calls() if c.is_fn_trait_call and c.name.startswith("upvar:") and len(c.gargs) > 1 and c.gargs[1] == "()"]
    mk_out = [c for c in rn.live_calls() if c.is_fn_trait_call and len(c.gargs) > 1 and c.gargs[1] == "()"]
    ctx.check(len(mk) == 1 and not mk_out, "R17.3", ["runner", "args-evaluated-once-inside-init"], "make_args() call sites: %d inside init, %d outside" % (len(mk), len(mk_out)), rn.where(0))
    aggs = [(bi, s) for bi, si, s in init.stmts() if s["k"] == "assign" and s["rv"]["k"] == "agg" and s["rv"]["ak"] == "adt" and norm(s["rv"]["adt"]) == "benchmark::args::ErasedArgsSlice"]
    if not ctx.check(len(aggs) == 1, "R17.3", ["runner", "one-ErasedArgsSlice"], "ErasedArgsSlice aggregates: %d" % len(aggs), init.where(0)):
        return
    bi, s = aggs[0]
    rv = s["rv"]
    ops = dict(zip(rv["fields"], rv["ops"]))
    leak_args = [c for c in init.live_calls() if c.callee == "std::boxed::Box::leak"]
    collect = [c for c in init.live_calls() if c.callee == "std::iter::Iterator::collect"]
    # args slice = Box::leak(args_iter.collect()) where args_iter = make_args().into_iter()
    args_leak = None
    for c in leak_args:
        srcs = init.prov.op_src(c.args[0])
        if mk and any(z.kind == "call" and z.b == mk[0].bb for z in srcs) and not any(z.kind == "call" and z.a == "std::iter::Iterator::map" for z in srcs):
            args_leak = c
    if not ctx.check(args_leak is not None, "R17.3", ["runner", "args-slice"], "cannot find the leaked argument slice", init.where(0)):
        return
    a_src = init.prov.op_src(ops["args"])
    l_src = init.prov.op_src(ops["len"])
    ctx.check(any(z.kind == "call" and z.b == args_leak.bb for z in a_src) and nophi(a_src) and any(z.kind == "call" and z.a == "core::slice::as_ptr" for z in a_src), "R17.3",
              ["runner", "args-pointer"], "ErasedArgsSlice.args is not the leaked slice's pointer", init.where(bi))
    dl = direct_place(init, ops["len"])
    ok = dl is not None and dl[0] == "call" and dl[1].callee == "core::slice::len" and any(z.kind == "call" and z.b == args_leak.bb for z in init.prov.op_src(dl[1].args[0])) \
        and not any(z.kind == "call" and z.a == "std::iter::Iterator::map" for z in init.prov.op_src(dl[1].args[0]))
    ctx.check(ok, "R17.3", ["runner", "len-is-args.len()"], "ErasedArgsSlice.len is not args.len()", init.where(bi))
    # names: every origin of the names slice
    dn = direct_place(init, ops["names"])
    okn = dn is not None and dn[0] == "call" and dn[1].callee == "core::slice::as_ptr"
    # the names are stored as the pointer of the names slice (with the shared len), or as that slice itself
    names_op = dn[1].args[0] if okn else ops["names"]
    as_slice = not okn and "[&" in ((ops["names"].get("p") or {}).get("ty") or "").replace("'static ", "")
    if ctx.check(okn or as_slice, "R17.3", ["runner", "names-pointer"], "ErasedArgsSlice.names is not names.as_ptr()", init.where(bi)):
        kinds = []
        for o in origins(init, names_op):
            if o[0] == "call":
                c = o[1]
                if c.callee == "std::boxed::Box::leak":
                    srcs = init.prov.op_src(c.args[0])
                    it = [z for z in srcs if z.kind == "call" and z.a == "core::slice::iter"]
                    mp = [z for z in srcs if z.kind == "call" and z.a == "std::iter::Iterator::map"]
                    ok = len(it) == 1 and len(mp) == 1 and any(z.kind == "call" and z.b == args_leak.bb for z in init.prov.op_src(init.call_at(it[0].b).args[0])) and \
                        not any(z.kind == "call" and z.a.rsplit("::", 1)[-1] in ("rev", "skip", "take", "filter", "step_by", "chain", "zip", "filter_map", "flat_map", "dedup") for z in srcs)
                    kinds.append("map-over-args.iter()" if ok else "leak-of-something-else")
                elif c.callee == "std::option::Option::map":
                    rsrc = init.prov.op_src(c.args[0])
                    okm = any(z.kind == "call" and z.a == "util::ty::TypeCast::cast_ref" for z in rsrc) and any(z.kind == "call" and z.b == mk[0].bb for z in rsrc) and \
                        not any(z.kind == "call" and z.b == args_leak.bb for z in rsrc)
                    kinds.append("remaining-slice-of-the-same-iterator" if okm else "call:" + c.callee)
                elif c.callee == "util::ty::TypeCast::cast_ref":
                    rsrc = init.prov.op_src(c.args[0])
                    kinds.append("the-args-slice-itself" if any(z.kind == "call" and z.b == args_leak.bb for z in rsrc) else "call:" + c.callee)
                else:
                    kinds.append("call:" + c.callee)
            elif o[0] == "place":
                # payload of an Option: args_strings (iter.as_slice() taken before collecting) or args.cast_ref::<&[&str]>()
                base = init.prov.local_src(o[1])
                names = {z.a for z in base if z.kind == "call"}
                if "util::ty::TypeCast::cast_ref" in names and "std::option::Option::map" in names and any(z.kind == "call" and z.b == mk[0].bb for z in base):
                    kinds.append("remaining-slice-of-the-same-iterator")
                elif "util::ty::TypeCast::cast_ref" in names and any(z.kind == "call" and z.b == args_leak.bb for z in base):
                    kinds.append("the-args-slice-itself")
                else:
                    kinds.append("place:?")
            else:
                kinds.append(o[0])
        want = {"map-over-args.iter()", "remaining-slice-of-the-same-iterator", "the-args-slice-itself"}
        ctx.check(set(kinds) == want, "R17.3", ["runner", "names-parallel-to-args"],
                  "the names slice can be %s; expected exactly %s (each in the same order and of the same length as args)" % (sorted(set(kinds)), sorted(want)), init.where(bi),
                  detail=sorted(set(kinds)))
    # the args_strings slice is taken before the iterator is consumed
    am = [c for c in init.live_calls() if c.callee == "std::option::Option::map"]
    if am and collect:
        first_collect = [c for c in collect if any(z.kind == "call" and z.b == mk[0].bb for z in init.prov.op_src(c.args[0])) and
                         not any(z.kind == "call" and z.a == "std::iter::Iterator::map" for z in init.prov.op_src(c.args[0]))]
        if first_collect:
            ctx.check(init.dominates(am[0].bb, first_collect[0].bb), "R17.3", ["runner", "slice-taken-before-collect"],
                      "the iterator's remaining slice is read after the iterator was consumed", am[0].line())
    # arg_type and bench instantiation use the same item type
    tid = direct_place(init, ops["arg_type"])
    okt = tid is not None and tid[0] == "call" and tid[1].callee == "std::any::TypeId::of"
    item = tid[1].gargs[0] if okt and tid[1].gargs else None
    ctx.check(okt and item is not None and "IntoIterator>::Item" in item, "R17.3", ["runner", "arg_type-is-Item"], "arg_type is TypeId::of::<%s>" % item, init.where(bi))
    bench_items = []
    for bi2, si2, s2 in rn.stmts():
        if s2["k"] == "assign" and s2["rv"]["k"] == "agg" and s2["rv"]["ak"] == "adt" and norm(s2["rv"]["adt"]) == "benchmark::args::BenchArgsRunner":
            o = dict(zip(s2["rv"]["fields"], s2["rv"]["ops"]))
            bsrc = rn.prov.op_src(o["bench"])
            bench_items = [z for z in bsrc if z.kind == "fnitem"]
            asrc = rn.prov.op_src(o["args"])
            ctx.check(any(z.kind == "call" and z.b == goi[0].bb for z in asrc) and nophi(asrc), "R17.3", ["runner", "runner-holds-initialised-slice"], "BenchArgsRunner.args is not the get_or_init result", rn.where(bi2))
            # generic args of the fn item: look at the constant text
            txt = ""
            d = direct_place(rn, o["bench"])
            for bi3, si3, s3 in rn.stmts():
                if s3["k"] == "assign" and s3["rv"]["k"] in ("use", "cast") and s3["rv"]["o"]["k"] == "const" and "fn" in s3["rv"]["o"]["c"] and \
                        norm(s3["rv"]["o"]["c"]["fn"]) == "benchmark::args::bench":
                    txt = s3["rv"]["o"]["c"]["d"]
            ctx.check("benchmark::args::bench" in {z.a for z in bench_items} and "IntoIterator>::Item" in txt, "R17.3", ["runner", "bench-instantiated-with-Item"],
                      "the runner's bench function is `%s`" % (txt or sorted(z.a for z in bench_items)), rn.where(bi2), detail={"fn": txt})


def r17_4(ctx, prog, crate):
    ta = prog.body("benchmark::args::ErasedArgsSlice::typed_args", crate)
    if ctx.anchor("R17.4", "ErasedArgsSlice::typed_args", 1 if ta else 0, 1):
        ctx.saw(ta)
        eq = [c for c in ta.live_calls() if c.callee == "<std::any::TypeId as std::cmp::PartialEq>::eq"]
        frp = [c for c in ta.live_calls() if c.callee == "std::slice::from_raw_parts"]
        ok = len(eq) == 1 and len(frp) == 1
        if ok:
            ok = False
            for bi, t in ta.switches():
                d = direct_place(ta, t["discr"])
                if d and d[0] == "call" and d[1].bb == eq[0].bb:
                    zero = [a[1] for a in t["arms"] if a[0] == "0"]
                    ok = bool(zero) and frp[0].bb not in ta.reach(zero) and ta.dominates(t["otherwise"], frp[0].bb)
            a0 = {z.label() for z in ta.prov.op_src(eq[0].args[0]) if z.kind == "param"}
            a1 = {z.a for z in ta.prov.op_src(eq[0].args[1]) if z.kind == "call"}
            ok = ok and a0 == {"param:self.arg_type"} and a1 == {"std::any::TypeId::of"}
        ctx.check(ok, "R17.4", ["typed_args", "type-check-dominates-cast"], "from_raw_parts is not guarded by self.arg_type == TypeId::of::<T>()", ta.where(0))
        if frp:
            p0 = {z.label() for z in ta.prov.op_src(frp[0].args[0]) if z.kind == "param"}
            p1 = {z.label() for z in ta.prov.op_src(frp[0].args[1])}
            ctx.check(p0 == {"param:self.args"} and p1 == {"param:self.len"}, "R17.4", ["typed_args", "slice-of-args-and-len"], "from_raw_parts(%s, %s)" % (sorted(p0), sorted(p1)), frp[0].line())
            # same T on both sides
            tid = [c for c in ta.live_calls() if c.callee == "std::any::TypeId::of"]
            ctx.check(tid and frp[0].gargs and tid[0].gargs[-1:] == frp[0].gargs[-1:], "R17.4", ["typed_args", "same-T"], "TypeId::of::<%s> vs from_raw_parts::<%s>" % (tid[0].gargs if tid else None, frp[0].gargs), frp[0].line())
    nm = prog.body("benchmark::args::ErasedArgsSlice::names", crate)
    if ctx.anchor("R17.4", "ErasedArgsSlice::names", 1 if nm else 0, 1):
        frp = [c for c in nm.live_calls() if c.callee == "std::slice::from_raw_parts"]
        ok = len(frp) == 1 and {z.label() for z in nm.prov.op_src(frp[0].args[0])} == {"param:self.names"} and {z.label() for z in nm.prov.op_src(frp[0].args[1])} == {"param:self.len"}
        # or the stored slice handed back as it is
        ok = ok or (not frp and not nm.live_calls() and {z.label() for z in nm.prov.local_src(0)} == {"param:self.names"})
        ctx.check(ok, "R17.4", ["names", "names-and-len"], "names() is not from_raw_parts(self.names, self.len)", nm.where(0))
    bn = prog.body("benchmark::args::bench", crate)
    if ctx.anchor("R17.4", "args::bench", 1 if bn else 0, 1):
        ctx.saw(bn)
        tc = [c for c in bn.live_calls() if c.callee == "benchmark::args::ErasedArgsSlice::typed_args"]
        if ctx.check(len(tc) == 1, "R17.4", ["bench", "typed_args-call"], "typed_args calls: %d" % len(tc), bn.where(0)):
            sw = tables.switch_on_call_result(bn, tc[0])
            ok = False
            if sw:
                arms, otherwise = tables.arm_targets(sw[1])
                none_t = arms.get(0, otherwise)
                some_t = arms.get(1, otherwise)
                r = bn.reach([none_t], avoid=[some_t])
                ok = not (set(bn.returns) & r) and any(bn.call_at(x) is not None and bn.call_at(x).target is None or
                                                       (bn.call_at(x) is not None and bn.call_at(x).callee.endswith("type_mismatch")) for x in r)
            ctx.check(ok, "R17.4", ["bench", "mismatch-diverges"], "a type mismatch does not diverge before the arguments are used", tc[0].line())
            ctx.check(tc[0].gargs[:1] == ["T"] or (tc[0].gargs and tc[0].gargs[0] == bn.generics[0] if bn.generics else False), "R17.4", ["bench", "typed-as-T"], "typed_args::<%s>" % tc[0].gargs, tc[0].line())
        # the user closure gets &typed_args[arg_index]
        uc = [c for c in bn.live_calls() if c.is_fn_trait_call]
        if ctx.check(len(uc) == 1, "R17.4", ["bench", "user-call"], "user calls: %d" % len(uc), bn.where(0)):
            c = uc[0]
            tup = None
            for dd in bn.prov.defs.get(c.args[1]["p"]["l"], []) if c.args[1]["k"] in ("copy", "move") else []:
                if dd[0] == "S" and dd[3]["rv"]["k"] == "agg" and dd[3]["rv"]["ak"] == "tuple":
                    tup = dd[3]["rv"]["ops"]
            ok = tup is not None and len(tup) == 2
            if ok:
                b0 = {z.label() for z in bn.prov.op_src(tup[0])}
                ok = b0 == {"param:" + bn.param_name(1)}
                # second element: reference to an indexed place typed_args[arg_index]
                idx_ok = False
                for bi, si, s in bn.stmts():
                    if s["k"] == "assign" and s["rv"]["k"] == "ref":
                        pl = s["rv"]["p"]
                        ix = [pr for pr in pl["proj"] if pr["k"] == "index"]
                        if ix:
                            isrc = {z.label() for z in bn.prov.local_src(ix[0]["l"]) if z.kind == "param"}
                            base = bn.prov.local_src(pl["l"])
                            if isrc == {"param:" + bn.param_name(3)} and any(z.kind == "call" and z.b == tc[0].bb for z in base) and \
                                    not any(z.kind == "binop" and z.a not in ("Lt",) for z in bn.prov.local_src(ix[0]["l"])):
                                idx_ok = True
                ok = ok and idx_ok
            ctx.check(ok, "R17.4", ["bench", "argument-is-typed_args[arg_index]"], "the user function is not called with (bencher, &typed_args[arg_index])", c.line())
        # the closure value is conjured only after the size check
        zs = [c for c in bn.live_calls() if c.callee == "std::mem::zeroed"]
        so = [c for c in bn.live_calls() if c.callee == "std::mem::size_of"]
        so_prom = [c for (ck, pth, pr), pb in prog.bodies.items() if ck == crate and pth == bn.path and pr >= 0 for c in pb.calls if c.callee == "std::mem::size_of"]
        af = [c for c in bn.live_calls() if c.callee == "core::panicking::assert_failed"]
        ok = len(zs) == 1 and ((len(so) >= 1 and bn.dominates(so[0].bb, zs[0].bb)) or (len(so_prom) >= 1 and len(af) >= 1 and zs[0].bb not in bn.reach([af[0].bb])))
        ctx.check(ok, "R17.4", ["bench", "zst-closure-check"], "mem::zeroed::<B>() is not preceded by the size_of::<B>() == 0 assertion", bn.where(0))


def _uses_statics(body):
    """static items a body refers to (by constant operand)"""
    out = set()

    def scan(o):
        if isinstance(o, dict):
            if o.get("k") == "const" and isinstance(o.get("c"), dict) and o["c"].get("static"):
                out.add(norm(o["c"]["static"]))
            for v in o.values():
                scan(v)
        elif isinstance(o, list):
            for v in o:
                scan(v)
    for bl in body.blocks:
        scan(bl["stmts"])
        scan(bl["term"])
    return out


def r17_6(ctx, prog, crate):
    """A const-generic row is labelled with the rendering of ITS OWN constant: EntryConst::name fills the entry's own cell
    from (self.to_string)(self.value) and from nothing shared between entries (no static, no map keyed by address - equal
    bytes at one address may be constants of different types); EntryConst::new stores the value it is given and the
    to_string instantiation of its type."""
    nb = prog.body("entry::generic::EntryConst::name", crate)
    if not ctx.anchor("R17.6", "EntryConst::name", 1 if nb else 0, 1):
        return
    ctx.saw(nb)
    tree = prog.closure_tree(nb)
    st = sorted({x for y in tree for x in _uses_statics(y)})
    ctx.check(not st, "R17.6", ["EntryConst::name", "no-shared-state"] + st, "the label of a constant is looked up / cached in shared state %s" % st, nb.where(0))
    goi = [c for c in nb.live_calls() if c.callee.endswith("OnceLock::get_or_init")]
    if ctx.check(len(goi) == 1, "R17.6", ["EntryConst::name", "own-cell"], "get_or_init sites: %d" % len(goi), nb.where(0)):
        lab = {z.label() for z in nb.prov.op_src(goi[0].args[0]) if z.kind in ("param", "static", "upvar")}
        ctx.check(lab == {"param:self.cached_string"}, "R17.6", ["EntryConst::name", "own-cell", "receiver"], "the cache cell is %s" % sorted(lab), goi[0].line())
        ret = origins(nb, {"k": "move", "p": {"l": 0, "proj": [], "ty": ""}})
        ctx.check(bool(ret) and all(o[0] == "call" and o[1].bb == goi[0].bb for o in ret), "R17.6", ["EntryConst::name", "returns-the-cell"], "name() does not return the cell's content", nb.where(0))
    cl = [x for x in tree if x.kind == "Closure"]
    if ctx.check(len(cl) == 1, "R17.6", ["EntryConst::name", "init-closure"], "closures: %d" % len(cl), nb.where(0)):
        x = cl[0]
        ctx.saw(x)
        ind = [c for c in x.live_calls() if c.decl is None]
        ok = len(ind) == 1
        if ok:
            f = {z.label() for z in x.prov.op_src(ind[0].func)}
            a = {z.label() for z in x.prov.op_src(ind[0].args[0])} if ind[0].args else set()
            ok = any(l.endswith(".to_string") for l in f) and all(l.startswith("upvar:") for l in f) and \
                any(l.endswith(".value") for l in a) and all(l.startswith("upvar:") for l in a)
        ctx.check(ok, "R17.6", ["EntryConst::name", "renders-own-value"], "the label is not (self.to_string)(self.value)", x.where(0))
        others = sorted({c.callee for c in x.live_calls() if c.decl is not None and not c.callee.endswith(("into_boxed_str", "Box::leak", "Deref>::deref", "::deref"))})
        ctx.check(not others, "R17.6", ["EntryConst::name", "nothing-else"] + others, "the initialiser also calls %s" % others, x.where(0))
    cb = prog.body("entry::generic::EntryConst::new", crate)
    if ctx.anchor("R17.6", "EntryConst::new", 1 if cb else 0, 1):
        aggs = [s for bi, si, s in cb.stmts(live_only=False) if s["k"] == "assign" and s["rv"]["k"] == "agg" and s["rv"]["ak"] == "adt" and norm(s["rv"]["adt"]).endswith("EntryConst")]
        if ctx.check(len(aggs) == 1, "R17.6", ["EntryConst::new", "aggregate"], "aggregates: %d" % len(aggs), cb.where(0)):
            rv = aggs[0]["rv"]
            v = {z.label() for z in cb.prov.op_src(rv["ops"][rv["fields"].index("value")]) if z.kind in ("param", "const", "static")}
            ctx.check(v == {"param:" + cb.param_name(1)}, "R17.6", ["EntryConst::new", "stores-its-argument"], "value is %s" % sorted(v), cb.where(0))
            ts = {z.a for z in cb.prov.op_src(rv["ops"][rv["fields"].index("to_string")]) if z.kind == "fnitem"}
            ctx.check(len(ts) == 1 and list(ts)[0].endswith("EntryConst::new::to_string"), "R17.6", ["EntryConst::new", "own-types-to_string"], "to_string is %s" % sorted(ts), cb.where(0))
    tb = prog.body("entry::generic::EntryConst::new::to_string", crate)
    if ctx.anchor("R17.6", "EntryConst::new::to_string", 1 if tb else 0, 1):
        cs = [c for c in tb.live_calls() if c.callee.endswith("ToString::to_string") or c.callee.endswith("to_string")]
        ok = len(cs) == 1 and {z.label() for z in tb.prov.op_src(cs[0].args[0]) if z.kind == "param"} == {"param:" + tb.param_name(1)} and cs[0].dest["l"] == 0
        ctx.check(ok, "R17.6", ["EntryConst::new::to_string", "T::to_string-of-the-value"], "the erased to_string is not T::to_string(&*value.cast())", tb.where(0))


MACRO_SIDE = {"args-runner", "shared-args", "one-__DIVAN_ARGS", "no-__DIVAN_ARGS", "args-expression", "own-type-in-own-position",
              "own-const-in-own-position", "instantiation-arity", "each-combination-once", "covers-the-whole-product",
              "const_value-indexes-__DIVAN_CONSTS", "ty-names-a-listed-type", "runner-kind", "runs-own-function", "consts-as-written", "product-size"}


def run_extra(ctx):
    """R17.5 macro side: analysed on the expansions of the corpus and the repository's own attributed programs (engine E3)."""
    from . import C12
    C12.ensure_tool()
    ctx.cfg = "expand"
    from .common import ExpansionView
    px = ExpansionView(ctx, "R17.5", MACRO_SIDE)
    n = 0
    for t in C12.targets(ctx.tier):
        exp = C12.expand_target(t)
        items = C12.tool("items", t["src"])["items"]
        regs = C12.tool("regs", exp)
        n += len([i for i in items if C12.opt(i, "args") is not None or C12.opt(i, "types") is not None or C12.opt(i, "consts") is not None])
        C12.check_program(px, t, items, regs)
    ctx.anchor("R17.5", "attributed items with args/types/consts analysed", n, 20)


def type_cast_rule(ctx, rule, prog, crate):
    """The checked downcast every "is this value of that type" decision goes through (argument types in BenchArgs, counter
    kinds in AnyCounter::new): cast_ref::<T>() yields Some(self reinterpreted) exactly when is_type_eq::<Self, T>() holds
    and None otherwise; is_type_eq::<A, B>() compares the type ids of A and of B; proxy_type_id::<T>() is the id of a
    closure type that mentions T."""
    from lib.patheval import PathEval
    U = "util::ty::"
    cr, te, pt = prog.body(U + "TypeCast::cast_ref", crate), prog.body(U + "is_type_eq", crate), prog.body(U + "proxy_type_id", crate)
    if not ctx.anchor(rule, "cast_ref, is_type_eq, proxy_type_id", sum(1 for x in (cr, te, pt) if x), 3):
        return
    for x in (cr, te, pt):
        ctx.saw(x)
    sums = PathEval(cr).run()
    if ctx.check(bool(sums), rule, ["cast_ref", "readable"], "cannot summarise cast_ref", cr.where(0)):
        for s in sums:
            tests = [(a, p) for a, p in s.conds if a[0] == "bool" and a[1][0] == "site" and a[1][1] == U + "is_type_eq"]
            if not ctx.check(len(tests) == 1 and len(s.conds) == 1, rule, ["cast_ref", "decided-by-is_type_eq"], "a path of cast_ref is decided by %s" % (s.conds,), cr.where(s.blocks[-1])):
                continue
            call = cr.call_at(tests[0][0][1][2])
            ctx.check([norm(g) for g in call.gargs] == ["Self", "T"], rule, ["cast_ref", "compares-Self-with-T"], "cast_ref tests is_type_eq::<%s>()" % ", ".join(call.gargs), call.line())
            if tests[0][1]:
                ok = s.ret[0] == "adt" and s.ret[2] == "Some" and s.ret[3] == (("sptr", (1, ())),)
                ctx.check(ok, rule, ["cast_ref", "same-type", "some-self"], "when the types are equal cast_ref returns %s, expected Some(self)" % (s.ret,), cr.where(s.blocks[-1]))
            else:
                ok = s.ret[0] == "adt" and s.ret[2] == "None"
                ctx.check(ok, rule, ["cast_ref", "other-type", "none"], "when the types differ cast_ref returns %s, expected None" % (s.ret,), cr.where(s.blocks[-1]))
    sums = PathEval(te).run()
    r = sums[0].ret if sums and len(sums) == 1 else None
    ok = r is not None and r[0] == "site" and r[1].endswith("PartialEq>::eq") and len(r[3]) == 2 and all(x[0] == "site" and x[1] == U + "proxy_type_id" for x in r[3])
    if ok:
        g = sorted(norm(te.call_at(x[2]).gargs[0]) for x in r[3])
        ok = g == ["A", "B"]
    ctx.check(ok, rule, ["is_type_eq", "ids-of-A-and-B"], "is_type_eq returns %s, expected proxy_type_id::<A>() == proxy_type_id::<B>()" % (r,), te.where(0))
    cl = [x for x in prog.children(pt) if x.kind == "Closure"]
    tid = [c for c in pt.live_calls() if c.callee.endswith("Any>::type_id")]
    ok = len(cl) == 1 and len(tid) == 1 and len(pt.live_calls()) == 1 and "closure" in str(tid[0].gargs)
    if ok:
        # the closure's value mentions T (PhantomData<T>)
        rt = cl[0].local_ty(0) or ""
        ok = "PhantomData<T>" in rt
    ctx.check(ok, rule, ["proxy_type_id", "id-of-a-closure-over-T"], "proxy_type_id is not the type id of a closure returning PhantomData<T>", pt.where(0))


def r17_7(ctx, prog, crate):
    type_cast_rule(ctx, "R17.7", prog, crate)


def run(ctx, prog, crate):
    r17_7(ctx, prog, crate)
    r17_6(ctx, prog, crate)
    r17_1(ctx, prog, crate)
    r17_2(ctx, prog, crate)
    r17_3(ctx, prog, crate)
    r17_4(ctx, prog, crate)
