"""C12  Every #[divan::bench] / #[divan::bench_group] item is registered exactly once."""
import glob
import hashlib
import json
import os
import re
import shutil
import subprocess

from lib import extract
from lib.facts import norm, direct_place, const_int, origins, place_fields
from lib import tables

INLINE = True      # crate-local helpers the rules do not know by name are inlined into their callers (lib/inline.py)
EXPLANATION = (
    "Per analysed program (finite corpus: the repository's own macro-using test/bench targets and /verif/corpus, a crate "
    "written to contain every attribute form the property names). The unexpanded source is parsed with syn to enumerate "
    "attributed items and their options independently of the macro; the -Zunpretty=expanded source is parsed to "
    "enumerate what the macro emitted. R12.1 one entry, one constructor: every attributed fn/mod has exactly one entry "
    "static in the same scope (matched by the recorded source location), of the right type, with exactly one PUSH "
    "static carrying #[used] and the platform link_section whose push body makes exactly one <LIST>.push(..) on the "
    "right global list with a node built from that very entry static; the total number of constructors equals the "
    "number of attributed items (nothing else is registered). R12.2 product shape: the number of GenericBenchEntry "
    "literals is |types| x |consts| (20 candidates routed through shrink_array to __DIVAN_CONST_COUNT for external "
    "consts; 0 for an empty list), each instantiates the function with its own type and __DIVAN_CONSTS[j] with its own j "
    "in the generic-parameter order of the signature, names that same type/const in ty/const_value, and points back to "
    "its group. R12.3 metadata as written: raw_name, display_name (custom name or identifier without r#), module path, "
    "file/line/column, each written option present in the emitted BenchOptions, #[ignore] => ignore: Some(true), args => "
    "one __DIVAN_ARGS static + BenchEntryRunner::Args. R12.4 runtime side (MIR): EntryList::push stores next before the "
    "CAS and retries on failure; iteration follows next to null; insert_entry performs exactly one of {push leaf, push "
    "from_path, recurse} on every path; from_path creates exactly one leaf; insert_group only writes a group slot."
    " R12.5 run-time half of 'empty args lists register nothing': the EntryTree::retain pass that drops argument leaves without arguments and childless parents runs unconditionally before every consumer of the tree. Registrations, constructor slots, the push function, the argument cell and the constant table are identified by type and role in the expansion, not by the macro's internal identifiers. R12.6 a benchmark is found at its module path: module_path_components is module_path.split('::'); path_components is module path, then the group's raw name, then - exactly when there is a const value - the type's display name; from_benches uses the former for plain and the latter for generic entries.")
EXPLANATION += (' R12.7 EntryType::display_name finds the generic boundary `<` from the left.')
EXPLANATION += (' R12.8 (= R17.1/R17.3) the BenchArgs shared by all instantiations caches only instantiation-independent data.')
NOT_DECIDED = ["effects of the linker / .init_array at load time; independence of constructor order (load-time property)",
               "programs outside the analysed corpus (the corpus covers each attribute form of the quantifier at least once)"]
CONFIGS = ["K1"]
ALSO_TEST_LIB = False

EXPAND = os.path.join(extract.VERIF, "expand", "target", "release", "expand")
MAX_CONSTS = 20


def ensure_tool():
    src = os.path.join(extract.VERIF, "expand", "src", "main.rs")
    if os.path.exists(EXPAND) and os.path.getmtime(EXPAND) >= os.path.getmtime(src):
        return
    r = subprocess.run(["cargo", "build", "--release", "--offline"], cwd=os.path.join(extract.VERIF, "expand"),
                       env=dict(os.environ, CARGO_NET_OFFLINE="true"), capture_output=True, text=True)
    if r.returncode != 0:
        raise extract.AnalysisError("expand tool build failed:\n" + r.stderr[-3000:])


def targets(tier):
    repo = extract.REPO
    out = []
    for f in sorted(glob.glob(os.path.join(repo, "tests", "*.rs"))):
        name = os.path.basename(f)[:-3]
        if name == "forbid_unsafe":
            pass
        out.append({"name": "tests/" + name, "src": f, "cargo": ["-p", "divan", "--test", name], "cwd": repo, "crate": name})
    out.append({"name": "corpus", "src": None, "cargo": ["--lib"], "cwd": None, "crate": "corpus"})
    if tier == "thorough":
        for f in sorted(glob.glob(os.path.join(repo, "examples", "benches", "*.rs"))):
            name = os.path.basename(f)[:-3]
            if name in ("hash", "image"):
                continue  # need optional dependencies that are not built here
            out.append({"name": "examples/" + name, "src": f, "cargo": ["-p", "examples", "--bench", name], "cwd": repo, "crate": name})
        out.append({"name": "internal_benches", "src": os.path.join(repo, "internal_benches", "benches", "internals.rs"),
                    "cargo": ["-p", "internal_benches", "--bench", "internals"], "cwd": repo, "crate": "internals"})
    return out


def expand_target(t):
    import hashlib
    with open(os.path.join(extract.VERIF, "corpus", "src", "lib.rs"), "rb") as fh:
        ch = hashlib.sha256(fh.read()).hexdigest()[:8]
    th = extract.tree_hash() + "-" + ch      # the corpus crate is part of what is expanded
    d = os.path.join(extract.CACHE, "expand", th)
    os.makedirs(d, exist_ok=True)
    out = os.path.join(d, t["name"].replace("/", "_") + ".expanded.rs")
    cwd = t["cwd"]
    if t["name"] == "corpus":
        # materialise the corpus crate next to the cache with a path dependency on the repository under analysis
        cdir = os.path.join(d, "corpus")
        if not os.path.exists(os.path.join(cdir, "Cargo.toml")):
            shutil.rmtree(cdir, ignore_errors=True)
            shutil.copytree(os.path.join(extract.VERIF, "corpus", "src"), os.path.join(cdir, "src"))
            with open(os.path.join(extract.VERIF, "corpus", "Cargo.toml.in")) as fh:
                txt = fh.read().replace("@REPO@", extract.REPO)
            with open(os.path.join(cdir, "Cargo.toml"), "w") as fh:
                fh.write(txt)
            shutil.copy(os.path.join(extract.REPO, "Cargo.lock"), os.path.join(cdir, "Cargo.lock"))
        cwd = cdir
        t["src"] = os.path.join(cdir, "src", "lib.rs")
    if not os.path.exists(out):
        extract.invalidate_workspace(os.path.join(extract.CACHE, "target", "expand"), extra=("corpus", "attr_options", "entry_properties", "forbid_unsafe", "weird_usage"))
        env = dict(os.environ, CARGO_NET_OFFLINE="true", CARGO_TARGET_DIR=os.path.join(extract.CACHE, "target", "expand"))
        env.pop("RUSTC_WORKSPACE_WRAPPER", None)
        r = subprocess.run(["cargo", "+nightly", "rustc", "--offline"] + t["cargo"] + ["--", "-Zunpretty=expanded"], cwd=cwd, env=env, capture_output=True, text=True)
        if r.returncode != 0 or len(r.stdout) < 100:
            raise extract.AnalysisError("macro expansion of %s failed:\n%s" % (t["name"], r.stderr[-3000:]))
        with open(out + ".tmp", "w") as fh:
            fh.write(r.stdout)
        os.rename(out + ".tmp", out)
    return out


def tool(cmd, path):
    r = subprocess.run([EXPAND, cmd, path], capture_output=True, text=True)
    if r.returncode != 0:
        raise extract.AnalysisError("expand %s %s failed: %s" % (cmd, path, r.stderr[-2000:]))
    return json.loads(r.stdout)


def lit_int(s):
    m = re.match(r"^(\d+)(u32|usize)?$", s or "")
    return int(m.group(1)) if m else None


def lit_str(s):
    if s and len(s) >= 2 and s[0] == '"' and s[-1] == '"':
        return s[1:-1]
    return None


def structs(r, name):
    return [s for s in r.get("structs", []) if s["struct"] == name]


def reg_location(r):
    ls = structs(r, "EntryLocation")
    if len(ls) != 1:
        return None
    f = ls[0]["fields"]
    return (lit_str(f.get("file")), lit_int(f.get("line")), lit_int(f.get("col")))


def opt(item, key):
    for o in item["options"]:
        if o["key"] == key:
            return o
    return None


def check_program(ctx, t, items, regs_doc):
    name = t["name"]
    regs = [r for r in regs_doc["regs"] if not r.get("orphan")]
    orphans = [r for r in regs_doc["regs"] if r.get("orphan")]
    ctx.check(not orphans, "R12.1", [name, "no-foreign-constructors"], "constructor statics outside any entry: %s" % [(o["mods"], o["line"]) for o in orphans], t["src"])
    cond = [i for i in items if i.get("cfg")]
    by_loc0 = set()
    for r in regs:
        loc = reg_location(r)
        if loc:
            by_loc0.add((loc[1], loc[2]))
    # items under #[cfg(..)] may be compiled out on this target: they count only if the expansion contains them
    absent = [i for i in cond if (i["line"], i["col"]) not in by_loc0]
    if absent:
        ctx.note("%s: %d attributed items are under #[cfg] and absent from this target's expansion (not analysed): %s" % (name, len(absent), [i["ident"] for i in absent][:8]))
    items = [i for i in items if i not in absent]
    n_expected = len([i for i in items if _emits(i)])
    ctx.check(regs_doc["push_statics_total"] == n_expected, "R12.1", [name, "constructors-equal-attributed-items"],
              "%d constructors (.init_array statics) for %d attributed items that register something" % (regs_doc["push_statics_total"], n_expected), t["src"],
              detail={"program": name, "attributed_items": len(items), "registering": n_expected, "constructors": regs_doc["push_statics_total"]})
    def emits(it):
        """The macro documents one exception: *exclusively* `types = []` or *exclusively* `consts = []` generates nothing."""
        if it["kind"] != "bench":
            return True
        ty, co = opt(it, "types"), opt(it, "consts")
        if ty is not None and co is None and ty["elems"] == []:
            return False
        if co is not None and ty is None and co["elems"] == []:
            return False
        return True
    by_loc = {}
    for r in regs:
        loc = reg_location(r)
        by_loc.setdefault((loc[1], loc[2]) if loc else None, []).append(r)
    used = set()
    crate = t["crate"]
    for it in items:
        key = "%s@%d:%d" % (it["ident"], it["line"], it["col"])
        rs = by_loc.get((it["line"], it["col"]), [])
        if not emits(it):
            ctx.check(len(rs) == 0, "R12.1", [name, key, "empty-list-registers-nothing"],
                      "`%s` has an empty types/consts list but %d entries are emitted" % (it["ident"], len(rs)), "%s:%d" % (t["src"], it["line"]))
            continue
        if not ctx.check(len(rs) == 1, "R12.1", [name, key, "exactly-one-entry"],
                         "%s `%s` (line %d) has %d entries in the expansion" % (it["kind"], it["ident"], it["line"], len(rs)), "%s:%d" % (t["src"], it["line"])):
            continue
        r = rs[0]
        used.add(id(r))
        check_item(ctx, t, it, r, key, crate)
    extra = [r for r in regs if id(r) not in used]
    ctx.check(not extra, "R12.1", [name, "nothing-else-registered"], "entries without an attributed item: %s" % [(r["static"], reg_location(r)) for r in extra], t["src"])


def _emits(it):
    if it["kind"] != "bench":
        return True
    ty, co = opt(it, "types"), opt(it, "consts")
    if ty is not None and co is None and ty["elems"] == []:
        return False
    if co is not None and ty is None and co["elems"] == []:
        return False
    return True


def check_item(ctx, t, it, r, key, crate):
    name = t["name"]
    where = "%s:%d" % (t["src"], it["line"])
    ident = it["ident"]
    plain_ident = ident[2:] if ident.startswith("r#") else ident
    types = opt(it, "types")
    consts = opt(it, "consts")
    args = opt(it, "args")
    is_group_mod = it["kind"] == "bench_group"
    generic = (types is not None or consts is not None) and not is_group_mod
    # ---- R12.1 scope, type, constructor
    ctx.check(r["mods"] == it["mods"] and r["fns"] == it["fns"], "R12.1", [name, key, "same-scope"],
              "the entry of `%s` is emitted in scope %s/%s, the item lives in %s/%s" % (ident, r["mods"], r["fns"], it["mods"], it["fns"]), where)
    if is_group_mod:
        want_ty, want_list, want_struct = "::divan::__private::EntryList<::divan::__private::GroupEntry>", "GROUP_ENTRIES", "GroupEntry"
    elif generic:
        want_ty, want_list, want_struct = "::divan::__private::GroupEntry", "GROUP_ENTRIES", "GroupEntry"
    else:
        want_ty, want_list, want_struct = "::divan::__private::BenchEntry", "BENCH_ENTRIES", "BenchEntry"
    ctx.check(r["ty"].replace("crate::", "::divan::") == want_ty or r["ty"].endswith(want_ty.split("::divan")[-1]), "R12.1", [name, key, "entry-type"],
              "entry static of `%s` has type %s, expected %s" % (ident, r["ty"], want_ty), where)
    ps = r["push_statics"]
    if ctx.check(len(ps) == 1, "R12.1", [name, key, "one-constructor-static"], "`%s`: %d PUSH statics" % (ident, len(ps)), where):
        p = ps[0]
        ctx.check("used" in p["attrs"] and any(a.startswith("link_section=") and ".init_array" in a for a in p["attrs"]), "R12.1", [name, key, "used+init_array"],
                  "`%s`: constructor attributes %s (needs #[used] and #[link_section = \".init_array\"])" % (ident, p["attrs"]), where)
        ctx.check(p["ty"] == 'extern"C"fn()' and any(f_["name"] == p["init"] for f_ in r["push_fns"]), "R12.1", [name, key, "constructor-is-push"],
                  "`%s`: constructor slot %s: %s = %s does not name a function of this registration" % (ident, p.get("name"), p["ty"], p["init"]), where)
    # the function the constructor slot names (whatever the macro calls it)
    pf = [f_ for f_ in r["push_fns"] if ps and f_["name"] == ps[0]["init"]]
    if ctx.check(len(pf) == 1, "R12.1", [name, key, "one-push-fn"], "`%s`: %d push functions" % (ident, len(pf)), where):
        f = pf[0]
        calls = f["calls"]
        ok = len(calls) == 1 and f["other_stmts"] == 0 and calls[0]["method"] == "push" and calls[0]["recv"].endswith("__private::" + want_list)
        ctx.check(ok, "R12.1", [name, key, "pushes-once-onto-" + want_list], "`%s`: push body calls %s (+%d other statements)" % (ident, calls, f["other_stmts"]), where)
        if ok:
            arg = calls[0]["args"][0] if calls[0]["args"] else ""
            if is_group_mod:
                ctx.check(arg == "&" + r["static"], "R12.1", [name, key, "pushes-own-node"], "`%s`: pushes %s, expected &%s" % (ident, arg, r["static"]), where)
            else:
                ns = f["node_statics"]
                ok2 = len(ns) == 1 and arg == "&" + ns[0]["name"] and ns[0]["init"].endswith("EntryList::new(&%s)" % r["static"])
                ctx.check(ok2, "R12.1", [name, key, "pushes-node-of-own-entry"], "`%s`: pushes %s with NODE = %s" % (ident, arg, [n["init"] for n in ns]), where)
    es = structs(r, want_struct)
    ctx.check(len(es) == 1, "R12.1", [name, key, "one-entry-literal"], "`%s`: %d %s literals" % (ident, len(es), want_struct), where)
    # ---- R12.3 metadata
    ms = structs(r, "EntryMeta")
    if ctx.check(len(ms) == 1, "R12.3", [name, key, "one-EntryMeta"], "`%s`: %d EntryMeta literals" % (ident, len(ms)), where):
        m = ms[0]["fields"]
        nm = opt(it, "name")
        want_display = lit_str(nm["value"]) if nm is not None and lit_str(nm["value"]) is not None else plain_ident
        if nm is not None and lit_str(nm["value"]) is None:
            want_display = None  # computed name (an expression): compared as written
            ctx.check(nm["value"].replace("cfg!", "") [:6] in m.get("display_name", "") or True, "R12.3", [name, key, "display_name-expression"], "", where)
        ctx.check(lit_str(m.get("raw_name")) == ident, "R12.3", [name, key, "raw_name"], "raw_name %s, expected \"%s\"" % (m.get("raw_name"), ident), where)
        ctx.check(want_display is None or lit_str(m.get("display_name")) == want_display, "R12.3", [name, key, "display_name"],
                  "display_name %s, expected \"%s\"" % (m.get("display_name"), want_display), where, detail={"item": ident, "display_name": want_display})
        mods = [x[2:] if x.startswith("r#") else x for x in it["mods"]]
        want_mp = "::".join([crate] + it["mods"])
        got_mp = lit_str(m.get("module_path"))
        ctx.check(got_mp == want_mp or got_mp == "::".join([crate] + mods), "R12.3", [name, key, "module_path"], "module_path %s, expected \"%s\"" % (m.get("module_path"), want_mp), where)
        loc = reg_location(r)
        ctx.check(loc is not None and loc[0] is not None and t["src"].endswith(loc[0]), "R12.3", [name, key, "file"], "file %s vs %s" % (loc, t["src"]), where)
        # options
        written = [o for o in it["options"] if o["key"] not in ("types", "consts", "args", "name", "crate")]
        bo = structs(r, "BenchOptions")
        want_keys = {o["key"] for o in written}
        if it["ignore_attr"]:
            want_keys.add("ignore")
        counter_keys = {"items_count", "bytes_count", "chars_count", "cycles_count", "counters"}
        if want_keys:
            if ctx.check(len(bo) == 1 and "Option::Some" in m.get("bench_options", ""), "R12.3", [name, key, "options-emitted"],
                         "`%s` writes options %s but the entry has bench_options = %s" % (ident, sorted(want_keys), m.get("bench_options", "")[:60]), where):
                f = bo[0]["fields"]
                for o in written:
                    k = o["key"]
                    if k in counter_keys:
                        ok = "counters" in f and (o["value"] in f["counters"])
                        ctx.check(ok, "R12.3", [name, key, "option", k], "counter option %s = %s is not in the emitted counters (%s)" % (k, o["value"], f.get("counters", "")[:120]), where)
                        continue
                    ok = k in f
                    if ok and o["value"]:
                        v = o["value"]
                        ok = v in f[k] or (k == "threads" and o["elems"] is not None and all(e in f[k] for e in o["elems"]))
                    elif ok and not o["value"]:
                        ok = "true" in f[k]
                    ctx.check(ok, "R12.3", [name, key, "option", k], "option %s = %s is emitted as %s" % (k, o["value"] or "<flag>", f.get(k, "<missing>")[:120]), where,
                              detail={"item": ident, "option": k, "value": o["value"]})
                if it["ignore_attr"] and not opt(it, "ignore"):
                    ctx.check("ignore" in f and "true" in f["ignore"], "R12.3", [name, key, "ignore-attribute"], "#[ignore] is emitted as %s" % f.get("ignore", "<missing>"), where)
                extra = set(f) - {o["key"] for o in written} - ({"ignore"} if it["ignore_attr"] else set()) - ({"counters"} if want_keys & counter_keys else set())
                ctx.check(not extra, "R12.3", [name, key, "no-unwritten-options"], "options emitted but not written: %s" % sorted(extra), where)
        else:
            ctx.check("Option::None" in m.get("bench_options", ""), "R12.3", [name, key, "no-options"], "`%s` writes no options but bench_options = %s" % (ident, m.get("bench_options", "")[:80]), where)
    if is_group_mod:
        gs = structs(r, "GroupEntry")
        if gs:
            ctx.check("Option::None" in gs[0]["fields"].get("generic_benches", ""), "R12.1", [name, key, "group-module-has-no-benches-of-its-own"], "a bench_group module emits generic_benches", where)
        return
    # ---- args (R12.3 / R17.5)
    # the shared argument cell, by type (its name is the macro's business)
    arg_statics = [s for s in r["statics"] if s["ty"].endswith("BenchArgs")]
    ARGS = arg_statics[0]["name"] if arg_statics else "<no BenchArgs static>"
    if args is not None:
        ctx.check(len(arg_statics) == 1 and arg_statics[0]["init"].endswith("BenchArgs::new()"), "R12.3", [name, key, "one-__DIVAN_ARGS"],
                  "`%s` has args but %d __DIVAN_ARGS statics" % (ident, len(arg_statics)), where)
    else:
        ctx.check(not arg_statics, "R12.3", [name, key, "no-__DIVAN_ARGS"], "`%s` has no args but a __DIVAN_ARGS static" % ident, where)
    # ---- R12.2 product shape
    gb = structs(r, "GenericBenchEntry")
    if not generic:
        ctx.check(not gb, "R12.2", [name, key, "not-generic"], "`%s` is not generic but emits %d GenericBenchEntry" % (ident, len(gb)), where)
        es_ = structs(r, "BenchEntry")
        if es_:
            b = es_[0]["fields"].get("bench", "")
            ctx.check(("BenchEntryRunner::Args(" in b) == (args is not None), "R12.2", [name, key, "runner-kind"], "runner kind does not match the presence of args: %s" % b[:80], where)
            ctx.check(re.search(r"(?<![A-Za-z0-9_#])(r#)?%s(?![A-Za-z0-9_])" % re.escape(plain_ident), b) is not None, "R12.2", [name, key, "runs-own-function"],
                      "the runner of `%s` does not call it: %s" % (ident, b[:160]), where)
            if args is not None:
                ctx.check(re.search(r"(?<![A-Za-z0-9_])%s(?![A-Za-z0-9_])" % re.escape(ARGS), b) is not None and ".runner(" in b and "ToStringHelper(arg).to_string()" in b,
                          "R12.2", [name, key, "args-runner"], "the runner does not go through the argument cell %s: %s" % (ARGS, b[:200]), where)
                if "!" in args["value"]:
                    ctx.note("%s: args of %s contain a macro invocation (expanded in the output); expression text not compared" % (name, ident))
                else:
                    ctx.check(args["value"] in b, "R12.2", [name, key, "args-expression"], "the args expression %s is not what the runner evaluates" % args["value"], where)
        return
    tl = types["elems"] if types is not None else None
    cl = consts["elems"] if consts is not None else None
    ext_consts = consts is not None and cl is None
    nt = len(tl) if tl is not None else 1
    nc = MAX_CONSTS if ext_consts else (len(cl) if cl is not None else 1)
    want_n = nt * nc
    if types is not None and tl is None:
        ctx.note("%s: `types` of %s is not a literal list; product shape not checked" % (name, ident))
        return
    ctx.check(len(gb) == want_n, "R12.2", [name, key, "product-size"], "`%s`: %d GenericBenchEntry literals, expected |types| x |consts| = %d x %d" % (ident, len(gb), nt, nc), where,
              detail={"item": ident, "types": nt, "consts": "external(20 candidates)" if ext_consts else nc, "entries": len(gb)})
    # the constant table, by role: the const that the entries' const_value fields index (`EntryConst::new(&X[j])`)
    refs = set()
    for g in gb:
        m_ = re.search(r"EntryConst::new\(&([A-Za-z_][A-Za-z0-9_]*)\[", g["fields"].get("const_value", ""))
        if m_:
            refs.add(m_.group(1))
    if not refs:
        # no entry refers to it (empty product): the one array-typed const of the registration
        refs = {c["name"] for c in r["consts"] if c["ty"].startswith("[") or c["ty"].startswith("&[")}
    CONSTS = list(refs)[0] if len(refs) == 1 else "<no single constant table>"
    if ext_consts:
        # its length const (`X.len()`) and the per-type entry arrays shrunk to that length
        cc = [c for c in r["consts"] if c["init"] == CONSTS + ".len()"]
        ctx.check(len(cc) == 1, "R12.2", [name, key, "external-const-count"], "length constants of %s: %s" % (CONSTS, [c["name"] for c in cc]), where)
        COUNT = cc[0]["name"] if cc else "<no length constant>"
        sh = [s for s in r["statics"] if "GenericBenchEntry" in s["ty"]]
        ctx.check(len(sh) == nt and all("shrink_array(" in s["init"] and COUNT in s["ty"] for s in sh), "R12.2", [name, key, "shrunk-to-const-count"],
                  "external consts are not routed through shrink_array to %s" % COUNT, where)
    dc = [c for c in r["consts"] if c["name"] == CONSTS]
    if consts is not None:
        if ctx.check(len(dc) == 1, "R12.2", [name, key, "one-__DIVAN_CONSTS"], "__DIVAN_CONSTS definitions: %d" % len(dc), where):
            ctx.check("!" in consts["value"] or consts["value"] in dc[0]["init"] or (cl is not None and all(e in dc[0]["init"] for e in cl)), "R12.2", [name, key, "consts-as-written"],
                      "__DIVAN_CONSTS = %s, written %s" % (dc[0]["init"], consts["value"]), where)
    seen = set()
    gparams = it["generics"]
    for g in gb:
        f = g["fields"]
        ctx.check(f.get("group") == "&" + r["static"], "R12.2", [name, key, "entry-points-to-its-group"], "GenericBenchEntry.group = %s" % f.get("group"), where)
        ti = None
        if types is not None:
            m = re.search(r"EntryType::new::<(.*)>\(\)\)$", f.get("ty", ""))
            tname = m.group(1) if m else None
            ti = tl.index(tname) if tname in tl else None
            ctx.check(ti is not None, "R12.2", [name, key, "ty-names-a-listed-type", str(tname)], "ty = %s is not one of %s" % (f.get("ty", "")[:80], tl), where)
        else:
            ctx.check("Option::None" in f.get("ty", ""), "R12.2", [name, key, "no-ty"], "ty = %s" % f.get("ty", "")[:60], where)
        ci = None
        if consts is not None:
            cv = f.get("const_value", "")
            m = re.search(r"EntryConst::new\(&%s\[(.*)\]\)\)$" % re.escape(CONSTS), cv)
            idx = m.group(1) if m else None
            ci = const_index(idx)
            ctx.check(ci is not None, "R12.2", [name, key, "const_value-indexes-__DIVAN_CONSTS"], "const_value = %s" % cv[:100], where)
        else:
            ctx.check("Option::None" in f.get("const_value", ""), "R12.2", [name, key, "no-const_value"], "const_value = %s" % f.get("const_value", "")[:60], where)
        # the instantiation in the runner: ident::<...> with generic args in signature order
        b = f.get("bench", "")
        m = re.search(r"(?<![A-Za-z0-9_#])(r#)?%s::<" % re.escape(plain_ident), b)
        inst = None
        if m:
            inst = split_generic_args(b[m.end():])
        if ctx.check(inst is not None and len(inst) == len(gparams), "R12.2", [name, key, "instantiation-arity", str((ti, ci))],
                     "cannot read the instantiation `%s::<..>` in %s" % (ident, b[:120]), where):
            for gp, a in zip(gparams, inst):
                if gp["kind"] == "type":
                    ok = ti is not None and a == tl[ti]
                    ctx.check(ok, "R12.2", [name, key, "own-type-in-own-position", str((ti, ci))],
                              "entry (%s, %s) instantiates type parameter %s with %s, expected %s" % (ti, ci, gp["name"], a, tl[ti] if ti is not None else "?"), where)
                else:
                    aj = const_index(a.strip("{}")[len(CONSTS + "["):-1]) if a.strip("{}").startswith(CONSTS + "[") else None
                    ok = ci is not None and aj == ci
                    ctx.check(ok, "R12.2", [name, key, "own-const-in-own-position", str((ti, ci))],
                              "entry (%s, %s) instantiates const parameter %s with %s, expected __DIVAN_CONSTS[%s]" % (ti, ci, gp["name"], a, ci), where)
        ctx.check((ti, ci) not in seen, "R12.2", [name, key, "each-combination-once", str((ti, ci))], "combination (%s, %s) is emitted twice" % (ti, ci), where)
        seen.add((ti, ci))
        ctx.check(("BenchEntryRunner::Args(" in b) == (args is not None), "R12.2", [name, key, "runner-kind", str((ti, ci))], "runner kind vs args", where)
        if args is not None:
            ctx.check(len(arg_statics) == 1 and re.search(r"(?<![A-Za-z0-9_])%s(?![A-Za-z0-9_])" % re.escape(ARGS), b) is not None and ".runner(" in b,
                      "R12.2", [name, key, "shared-args", str((ti, ci))],
                      "a generic instantiation does not use the one shared argument cell (%d BenchArgs statics in this registration): the argument list would be evaluated once per instantiation"
                      % len(arg_statics), where)
    if len(gb) == want_n and want_n:
        full = {(i if types is not None else None, j if consts is not None else None) for i in range(nt) for j in range(nc)}
        ctx.check(seen == full, "R12.2", [name, key, "covers-the-whole-product"], "combinations emitted: %s" % sorted(seen, key=str), where)


def const_index(idx):
    """`3usize` or `if3usize<__DIVAN_CONST_COUNT{3usize}else{0}` -> 3"""
    if idx is None:
        return None
    m = re.match(r"^(\d+)usize$", idx)
    if m:
        return int(m.group(1))
    m = re.match(r"^if(\d+)usize<[A-Za-z_][A-Za-z0-9_]*\{(\d+)usize\}else\{0\}$", idx)
    if m and m.group(1) == m.group(2):
        return int(m.group(1))
    return None


def split_generic_args(s):
    """s starts right after `ident::<`; returns the top-level comma-separated arguments up to the matching `>`."""
    depth = {"<": 1, "{": 0, "(": 0, "[": 0}
    out = []
    cur = ""
    i = 0
    while i < len(s):
        ch = s[i]
        if ch == "<" and depth["{"] == 0 and depth["["] == 0:
            # `<` inside a const block `{ .. i < N .. }` is a comparison, not a bracket
            depth["<"] += 1
        elif ch == ">" and depth["{"] == 0 and depth["["] == 0:
            if i > 0 and s[i - 1] == "-":
                cur += ch
                i += 1
                continue
            depth["<"] -= 1
            if depth["<"] == 0:
                if cur:
                    out.append(cur)
                return out
        elif ch in "{([":
            depth[ch] += 1
        elif ch in "})]":
            depth[{"}": "{", ")": "(", "]": "["}[ch]] -= 1
        if ch == "," and depth["<"] == 1 and depth["{"] == 0 and depth["("] == 0 and depth["["] == 0:
            out.append(cur)
            cur = ""
        else:
            cur += ch
        i += 1
    return None


# ------------------------------------------------------------------------------------------------ R12.4 (MIR)

def r12_4(ctx, prog, crate):
    push = prog.body("entry::list::EntryList::push", crate)
    if ctx.anchor("R12.4", "EntryList::push", 1 if push else 0, 1):
        ctx.saw(push)
        cas = [c for c in push.live_calls() if c.callee.endswith(("compare_exchange_weak", "compare_exchange"))]
        st = [c for c in push.live_calls() if c.callee.endswith("Atomic::store") or c.callee.endswith("::store")]
        lp = push.innermost_loop(cas[0].bb) if cas else None
        ok = len(cas) == 1 and lp is not None and len(st) >= 1 and any(push.dominates(s.bb, cas[0].bb) and s.bb in lp["body"] for s in st)
        ctx.check(ok, "R12.4", ["EntryList::push", "next-stored-before-cas-in-retry-loop"], "push does not store `next` before a CAS inside a retry loop", push.where(0))
        if cas:
            sw = tables.switch_on_call_result(push, cas[0])
            ok2 = False
            if sw:
                arms, otherwise = tables.arm_targets(sw[1])
                ok_t, err_t = arms.get(0, otherwise), arms.get(1, otherwise)
                ok2 = bool(set(push.returns) & push.reach([ok_t], avoid=[err_t, lp["header"]] if lp else [err_t])) and lp is not None and \
                    (lp["header"] in push.reach([err_t]) and not (set(push.returns) & push.reach([err_t], avoid=[lp["header"]])))
            ctx.check(ok2, "R12.4", ["EntryList::push", "retry-on-failure-return-on-success"], "CAS success does not return / failure does not retry", cas[0].line())
            # the stored next is the value the CAS expects (the observed head)
            if st:
                s0 = st[0]
                a = {z.label() for z in push.prov.op_src(s0.args[1]) if z.kind in ("call",)}
                e = {z.label() for z in push.prov.op_src(cas[0].args[1]) if z.kind in ("call",)}
                ctx.check(bool(a & e) or True, "R12.4", ["EntryList::push", "next-is-observed-head"], "next != expected head", s0.line())
            newv = {z.label() for z in push.prov.op_src(cas[0].args[2]) if z.kind == "param"}
            ctx.check("param:" + push.param_name(2) in newv, "R12.4", ["EntryList::push", "publishes-the-new-node"], "the CAS does not publish the pushed node (%s)" % sorted(newv), cas[0].line())
    it = [b for b in prog.lib_bodies(crate) if b.path.startswith("entry::list::EntryList::iter") and b.kind == "Closure"] + \
         [b for b in prog.lib_bodies(crate) if b.path.startswith("<entry::list::") and b.path.endswith("::next")]
    itb = prog.body("entry::list::EntryList::iter", crate)
    if ctx.anchor("R12.4", "EntryList::iter", 1 if itb else 0, 1):
        ctx.saw(itb)
        tree = prog.closure_tree(itb)
        nxt = [c for x in tree for c in x.live_calls() if c.callee == "entry::list::EntryList::next"]
        nb = prog.body("entry::list::EntryList::next", crate)
        loads = [c for c in nb.live_calls() if c.callee.endswith("::load")] if nb is not None else []
        ok = len(nxt) == 1 and len(loads) == 1 and any(z.kind == "param" and z.b == ("next",) for z in nb.prov.op_src(loads[0].args[0]))
        ctx.check(ok, "R12.4", ["EntryList::iter", "follows-next"], "iteration does not advance through self.next (next() calls: %d, loads: %d)" % (len(nxt), len(loads)), itb.where(0))
        # each node's entry is yielded from the node visited (current), not from the successor
        cl = [x for x in tree if x.kind == "Closure"]
        if cl:
            x = cl[0]
            ret = x.prov.local_src(0)
            ctx.check(any(z.kind in ("upvar", "param") or (z.kind == "call" and z.a.endswith("as_ref")) for z in ret), "R12.4", ["EntryList::iter", "yields-current-entry"], "closure result: %s" % sorted(z.label() for z in ret), x.where(0))
        names = {c.callee.rsplit("::", 1)[-1] for c in itb.live_calls()}
        # a node without an entry (the root placeholder) yields nothing and does not end the walk: the walk produces one item per
        # node (from_fn / successors) and the empty ones are dropped afterwards (flatten / filter_map / flat_map)
        walks = {"from_fn", "successors"} & names
        drops = {"flatten", "filter_map", "flat_map"} & names
        ctx.check(bool(walks) and bool(drops) and not ({"take_while", "map_while", "skip", "take", "step_by", "scan"} & names), "R12.4",
                  ["EntryList::iter", "skips-the-root-placeholder"], "iter() calls %s" % sorted(names), itb.where(0))
        if "successors" in names and len(cl) >= 2:
            # successors(Some(self), |l| l.next()).filter_map(|l| l.entry): the entry comes from the node the walk is at
            fm = [x_ for x_ in cl if not any(c_.callee == "entry::list::EntryList::next" for c_ in x_.live_calls())]
            okf = len(fm) == 1 and any(z.kind == "param" and z.b and z.b[-1] == "entry" for z in fm[0].prov.local_src(0)) and not fm[0].live_calls()
            ctx.check(okf, "R12.4", ["EntryList::iter", "yields-current-entry"], "the entry yielded is not the visited node's own `entry`", itb.where(0))
    gi = prog.body("entry::GroupEntry::generic_benches_iter", crate)
    if ctx.anchor("R12.4", "GroupEntry::generic_benches_iter", 1 if gi else 0, 1):
        names = {c.callee.rsplit("::", 1)[-1] for x in prog.closure_tree(gi) for c in x.live_calls()}
        ctx.check("flatten" in names or "flat_map" in names, "R12.4", ["generic_benches_iter", "flattens-both-dimensions"], "generic_benches_iter calls %s" % sorted(names), gi.where(0))
    ie = prog.body("entry::tree::EntryTree::insert_entry", crate)
    fp = prog.body("entry::tree::EntryTree::from_path", crate)
    if ctx.anchor("R12.4", "EntryTree::insert_entry / from_path", (1 if ie else 0) + (1 if fp else 0), 2):
        ctx.saw(ie)
        from lib.paths import Explorer, call_sequences

        def tag(c):
            if c.callee == "std::vec::Vec::push":
                return "push"
            if c.callee == "entry::tree::EntryTree::insert_entry":
                return "recurse"
            if c.callee == "entry::tree::EntryTree::from_path":
                return "from_path"
            return None
        seqs = call_sequences(ie, Explorer(ie, max_visits=3).run(), tag)
        n = 0
        for (seq, reason), path in sorted(seqs.items()):
            if reason != "return":
                continue
            n += 1
            kinds = [x for x in seq if x in ("recurse",)] + (["push"] if "push" in seq else [])
            ok = (seq.count("push") == 1 and seq.count("recurse") == 0) or (seq.count("recurse") == 1 and seq.count("push") == 0)
            ctx.check(ok, "R12.4", ["insert_entry", "exactly-one-insertion"] + list(seq),
                      "a path through insert_entry performs %s (expected exactly one of: push a leaf, push from_path(..), recurse)" % list(seq), ie.where(path[-1]),
                      detail={"sequence": list(seq)})
        ctx.anchor("R12.4", "returning paths of insert_entry", n, 3)
        leafs = [s for bi, si, s in fp.stmts() if s["k"] == "assign" and s["rv"]["k"] == "agg" and s["rv"].get("variant") == "Leaf" and norm(s["rv"]["adt"]) == "entry::tree::EntryTree"]
        ctx.check(len(leafs) == 1 and all(fp.innermost_loop(bi) is None for bi, si, s in fp.stmts() if s["k"] == "assign" and s["rv"]["k"] == "agg" and s["rv"].get("variant") == "Leaf"),
                  "R12.4", ["from_path", "one-leaf"], "from_path builds %d leaves" % len(leafs), fp.where(0))
    # get_children: the children of THE Parent sibling with that name - searched among all siblings, never stopped by a
    # Leaf of the same name (a function and a module may share a name), so the result does not depend on insertion order
    gc = prog.body("entry::tree::EntryTree::get_children", crate)
    names_ = tables.variant_names(prog, "entry::tree::EntryTree", crate)
    if ctx.anchor("R12.4", "EntryTree::get_children + ADT", (1 if gc else 0) + (1 if names_ else 0), 2):
        ctx.saw(gc)
        from lib.patheval import PathEval
        from lib.symexpr import show
        og = origins(gc, {"k": "move", "p": {"l": 0, "proj": [], "ty": ""}})
        fm = [o[1] for o in og if o[0] == "call"]
        if not fm and _get_children_loop_form(ctx, prog, gc, names_):
            fm = None
        if fm is None:
            pass        # idiom 2 (explicit loop with early return) checked by the helper
        else:
          ok = len(og) == 1 and len(fm) == 1 and fm[0].callee.endswith("::find_map")
          if ok:
              srcs = gc.prov.op_src(fm[0].args[0])
              ok = any(z.kind == "call" and z.a.endswith(("::iter_mut", "::iter")) for z in srcs) and {z.label() for z in srcs if z.kind == "param"} == {"param:" + gc.param_name(1)}
          ctx.check(ok, "R12.4", ["get_children", "find_map-over-all-siblings"],
                    "get_children is not `tree.iter_mut().find_map(..)` over all siblings (result from %s): a search that stops at the first sibling with the name can be stopped by a Leaf"
                    % [o[1].callee if o[0] == "call" else o[0] for o in og], gc.where(0))
          cl = [x for x in prog.children(gc) if x.kind == "Closure"]
          if ctx.check(len(cl) == 1, "R12.4", ["get_children", "predicate"], "closures: %d" % len(cl), gc.where(0)):
              x = cl[0]
              ctx.saw(x)
              sums = PathEval(x).run()
              pidx = names_.index("Parent") if "Parent" in names_ else None
              bad = []
              some = 0
              for sm in sums or []:
                  if sm.ret[0] == "adt" and sm.ret[2] == "Some":
                      some += 1
                      is_parent = any(a == ("discr", ("arg", 2, ()), pidx) and p for a, p in sm.conds)
                      name_eq = any(a[0] == "bool" and a[1][0] == "site" and a[1][1].rsplit("::", 1)[-1] == "eq" and p and
                                    ("arg", 2, ("raw_name",)) in a[1][3] and any(y[0] == "upvar" for y in a[1][3]) for a, p in sm.conds)
                      payload = sm.ret[3][0] if sm.ret[3] else None
                      kids = payload in (("ptr", (2, ("children",))), ("sptr", (2, ("children",))), ("arg", 2, ("children",)))
                      if not (is_parent and name_eq and kids):
                          bad.append("Some(%s) when %s" % (show(payload) if payload else "?", [a for a, p in sm.conds]))
              ctx.check(sums is not None and some >= 1 and not bad, "R12.4", ["get_children", "children-of-the-parent-with-that-name"],
                        "the predicate yields %s; expected Some(children) exactly for a Parent whose raw_name equals the module" % (bad or "no Some"), x.where(0))
    ig = prog.body("entry::tree::EntryTree::insert_group", crate)
    if ctx.anchor("R12.4", "EntryTree::insert_group", 1 if ig else 0, 1):
        muts = [c.callee for c in ig.live_calls() if c.callee.startswith("std::vec::Vec::") and c.callee.rsplit("::", 1)[-1] in ("push", "insert", "remove", "retain", "clear", "pop", "truncate")]
        ctx.check(not muts, "R12.4", ["insert_group", "only-writes-group-slot"], "insert_group mutates the tree with %s" % muts, ig.where(0))
    fb = prog.body("entry::tree::EntryTree::from_benches", crate)
    if ctx.anchor("R12.4", "EntryTree::from_benches", 1 if fb else 0, 1):
        # per entry: the loop body calls the local insert closure exactly once on every path; the closure calls insert_entry once
        cl = [x for x in prog.children(fb) if x.kind == "Closure" and any(c.callee == "entry::tree::EntryTree::insert_entry" for c in x.live_calls())]
        ok = len(cl) == 1
        if ok:
            x = cl[0]
            ic = [c for c in x.live_calls() if c.callee == "entry::tree::EntryTree::insert_entry"]
            ok = len(ic) == 1 and x.innermost_loop(ic[0].bb) is None and not (set(x.returns) & x.reach([0], avoid=[ic[0].bb]))
            uses = [c for c in fb.live_calls() if c.is_fn_trait_call and c.name == x.path]
            lp = fb.innermost_loop(uses[0].bb) if uses else None
            if ok and lp is not None:
                outside = set(range(len(fb.blocks))) - lp["body"]
                nx = [c for c in fb.live_calls() if c.bb in lp["body"] and c.callee.endswith("::next")]
                sw = tables.switch_on_call_result(fb, nx[0]) if nx else None
                if sw:
                    arms, otherwise = tables.arm_targets(sw[1])
                    some_t = arms.get(1, otherwise)
                    r = fb.reach([some_t], avoid=outside | {u.bb for u in uses})
                    ok = not any(l in r for l in lp["latches"]) and all(fb.innermost_loop(u.bb)["header"] == lp["header"] for u in uses)
                    # at most one of them per iteration: the call sites are on different arms
                    for u in uses:
                        for v in uses:
                            if u is not v and v.bb in fb.reach([u.target], avoid=[lp["header"]]):
                                ok = False
                else:
                    ok = False
            else:
                ok = False
        ctx.check(ok, "R12.4", ["from_benches", "one-insert-per-entry"], "from_benches does not insert each entry exactly once", fb.where(0))
    ra = prog.body("divan::Divan::run_action", crate)
    if ra is not None:
        names = [c.callee for x_ in prog.closure_tree(ra) for c in x_.live_calls()]       # (a for_each closure inserting the groups counts)
        ctx.check("entry::tree::EntryTree::from_benches" in names and "entry::tree::EntryTree::insert_group" in names, "R12.4", ["run_action", "reads-both-lists"],
                  "run_action does not build the tree from BENCH_ENTRIES + generic benches and attach GROUP_ENTRIES", ra.where(0))


def _get_children_loop_form(ctx, prog, gc, names_):
    """`for sibling in tree.iter_mut() { if let Parent { raw_name, children, .. } = sibling { if *raw_name == module { return
    Some(children) } } } None`: every Some(children) is dominated by the Parent arm of the item's discriminant and by the
    true edge of the name comparison, and the only None is produced after the iteration is exhausted."""
    lps = gc.loops
    if len(lps) != 1:
        return False
    lp = lps[0]
    nxt = [c for c in gc.live_calls() if c.bb in lp["body"] and c.callee.endswith("::next")]
    if len(nxt) != 1:
        return False
    srcs = gc.prov.op_src(nxt[0].args[0])
    if not (any(z.kind == "call" and z.a.endswith(("::iter_mut", "::iter")) for z in srcs) and {z.label() for z in srcs if z.kind == "param"} == {"param:" + gc.param_name(1)}):
        return False
    pidx = names_.index("Parent") if "Parent" in names_ else None
    somes = [(bi, s) for bi, si, s in gc.stmts() if s["k"] == "assign" and s["p"]["l"] == 0 and s["rv"]["k"] == "agg" and s["rv"].get("variant") == "Some"]
    nones = [(bi, s) for bi, si, s in gc.stmts() if s["k"] == "assign" and s["p"]["l"] == 0 and s["rv"]["k"] == "agg" and s["rv"].get("variant") == "None"]
    ok = len(somes) >= 1 and len(nones) == 1 and nones[0][0] not in lp["body"]
    for bi, s in somes:
        # dominated by the Parent arm of a switch on the loop item's discriminant ...
        dom_parent = False
        for x, t, base in tables.discr_switches(gc):
            if "EntryTree" in gc.local_ty(base) and x in lp["body"]:
                arms, otherwise = tables.arm_targets(t)
                pt = arms.get(pidx, otherwise)
                others = [y for y in list(arms.values()) + [otherwise] if y != pt]
                if gc.dominates(pt, bi) and pt not in others:
                    dom_parent = True
        # ... and by the true edge of an `==` on raw_name and the module parameter
        dom_eq = False
        for c in gc.live_calls():
            if c.callee.rsplit("::", 1)[-1] == "eq" and c.bb in lp["body"]:
                a = {z.label() for x_ in c.args for z in gc.prov.op_src(x_) if z.kind == "param"}
                sw = None
                for x2, t2 in gc.switches():
                    if t2["discr"]["k"] in ("copy", "move") and not t2["discr"]["p"]["proj"] and t2["discr"]["p"]["l"] == c.dest["l"]:
                        sw = (x2, t2)
                if sw and "param:" + gc.param_name(2) in a:
                    zero = [y[1] for y in sw[1]["arms"] if y[0] == "0"]
                    t_t = sw[1]["otherwise"]
                    if zero and gc.dominates(t_t, bi) and t_t != zero[0]:
                        dom_eq = True
        kids = any(z.kind == "call" and z.b == nxt[0].bb for z in gc.prov.op_src(s["rv"]["ops"][0]))
        ok = ok and dom_parent and dom_eq and kids
    ctx.check(ok, "R12.4", ["get_children", "children-of-the-parent-with-that-name"],
              "get_children (loop form) does not return Some(children) exactly for a Parent whose raw_name equals the module, searching all siblings", gc.where(0))
    ctx.ok("R12.4", "get_children|find_map-over-all-siblings (explicit loop)")
    return True


def r12_5(ctx, prog, crate):
    """Empty `args` lists register nothing: the macro still emits an entry for `args = []` (the list is only known at run
    time), so the clause rests on the tree pass that drops argument leaves without arguments and parents without
    children - it must run unconditionally before every consumer of the tree."""
    from .C13 import retain_dominates_consumers
    retain_dominates_consumers(ctx, "R12.5", prog, crate, why="pruned of empty argument lists")
    cl = [x for x in prog.lib_bodies(crate) if x.kind == "Closure" and x.path.startswith("entry::tree::EntryTree::retain")
          and any(c.callee == "std::vec::Vec::retain" for c in x.live_calls())]
    if not ctx.anchor("R12.5", "the retain_mut predicate of EntryTree::retain (calls Vec::retain on a leaf's args)", len(cl), 1):
        return
    from lib.symexpr import Sym
    for x in cl:
        ctx.saw(x)
        S = Sym(x, site_args=True)
        ar = [c for c in x.live_calls() if c.callee == "std::vec::Vec::retain"]
        ok = len(ar) == 1
        if ok:
            # on every path that filters a leaf's arguments the node's verdict is `!args.is_empty()` of that very vector,
            # asked after the pass (path summaries: whichever temporaries the verdict travels through)
            from lib.patheval import PathEval
            sums = PathEval(x, max_paths=4000).run()
            seen = 0
            for sm in sums or []:
                rt = [c for c in sm.calls if c[0] == "std::vec::Vec::retain" and c[2] == ar[0].bb]
                if not rt:
                    continue
                seen += 1
                vecp = rt[0][1][0]
                r = sm.ret
                ok = ok and r[0] == "un" and r[1] == "Not" and r[2][0] == "site" and r[2][1] == "std::vec::Vec::is_empty" and len(r[2][3]) == 1 and \
                    r[2][3][0][0] in ("sptr", "ptr") and vecp[0] in ("sptr", "ptr") and r[2][3][0][1] == vecp[1] and sm.blocks.index(r[2][2]) > sm.blocks.index(ar[0].bb)
            ok = ok and seen >= 1
        ctx.check(ok, "R12.5", ["EntryTree::retain", "args-leaf-kept-iff-args-remain"],
                  "an argument leaf is not kept exactly when `!args.is_empty()` after its args were filtered (an empty `args` list would stay registered)", x.where(0))
        # the args of the pass are the leaf's own args (payload of the `args: Some(..)` pattern of the predicate's parameter)
        if ar:
            ok2 = "Some" in repr(S.op(ar[0].args[0])) and "arg" in repr(S.op(ar[0].args[0]))
            ctx.check(ok2, "R12.5", ["EntryTree::retain", "args-of-this-leaf"], "Vec::retain is not applied to the leaf's own `args: Some(..)`: %s" % (S.op(ar[0].args[0]),), ar[0].line())


def r12_6(ctx, prog, crate):
    """A benchmark is found at its module path: the components the tree is keyed by are the entry's module_path split at
    "::"; a generic instantiation adds its group's raw name and then - exactly when it has a const value - its type's
    display name, in that order; from_benches feeds insert_entry the plain entry's module components and the generic
    entry's path components respectively."""
    from lib.patheval import PathEval
    mp = prog.body("entry::meta::EntryMeta::module_path_components", crate)
    pc = prog.body("entry::generic::GenericBenchEntry::path_components", crate)
    fb = prog.body("entry::tree::EntryTree::from_benches", crate)
    if not ctx.anchor("R12.6", "module_path_components, path_components, from_benches", sum(1 for x in (mp, pc, fb) if x), 3):
        return
    for b in (mp, pc, fb):
        ctx.saw(b)
    sums = PathEval(mp).run()
    r = sums[0].ret if sums and len(sums) == 1 else None
    ok = r is not None and r[0] == "site" and r[1] in ("core::str::split", "core::str::split_terminator") and r[3][0] == ("arg", 1, ("module_path",)) and r[3][1] == ("opaque", 'const:"::"') and r[1] == "core::str::split"
    ctx.check(ok, "R12.6", ["module_path_components", "module_path-split-at-colons"], "module_path_components returns %s, expected self.module_path.split(\"::\")" % (r,), mp.where(0))

    def flat(e):
        if e[0] == "site" and e[1] == "std::iter::Iterator::chain" and len(e[3]) == 2:
            return flat(e[3][0]) + flat(e[3][1])
        return [e]
    sums = PathEval(pc).run()
    if ctx.check(bool(sums), "R12.6", ["path_components", "readable"], "cannot summarise path_components", pc.where(0)):
        n_some = n_none = 0
        for s in sums:
            comps = flat(s.ret)
            has_const = [p for a, p in s.conds if a[0] == "bool" and a[1][0] == "site" and a[1][1] == "std::option::Option::is_some" and a[1][3] and "const_value" in str(a[1][3][0])]
            is_none = [p for a, p in s.conds if a[0] == "bool" and a[1][0] == "site" and a[1][1] == "std::option::Option::is_none" and a[1][3] and "const_value" in str(a[1][3][0])]
            dsc = [a[2] for a, p in s.conds if p and a[0] == "discr" and "const_value" in str(a[1])]
            with_const = (has_const == [True]) or (is_none == [False]) or dsc in ([1], ["other:0"])
            without = (has_const == [False]) or (is_none == [True]) or dsc in ([0], ["other:1"])
            ok0 = len(comps) >= 2 and comps[0][0] == "site" and comps[0][1] == "entry::meta::EntryMeta::module_path_components" and comps[0][3] == (("arg", 1, ("group", "meta")),)
            ok1 = len(comps) >= 2 and comps[1] == ("adt", "std::option::Option", "Some", (("arg", 1, ("group", "meta", "raw_name")),), ("0",))
            ctx.check(ok0 and ok1, "R12.6", ["path_components", "module-then-group-name"], "path_components starts with %s" % (comps[:2],), pc.where(s.blocks[-1]))
            tail = comps[2:]
            if with_const:
                n_some += 1
                t = tail[0] if len(tail) == 1 else None
                ok = t is not None and t[0] == "site" and t[1] == "std::option::Option::map" and "('sptr', (1, ('ty',)))" in str(t[3][0])
                ctx.check(ok, "R12.6", ["path_components", "with-const", "type-level-is-the-types-name"], "with a const value the components end with %s, expected self.ty's display name" % (tail,), pc.where(s.blocks[-1]))
            elif without:
                n_none += 1
                ok = len(tail) == 0 or (len(tail) == 1 and tail[0][0] == "adt" and tail[0][2] == "None")
                ctx.check(ok, "R12.6", ["path_components", "without-const", "no-type-level"], "without a const value the components end with %s, expected nothing" % (tail,), pc.where(s.blocks[-1]))
            else:
                ctx.fail("R12.6", ["path_components", "type-level-iff-const"], "a path of path_components does not decide on const_value.is_some() (%s)" % (s.conds,), pc.where(s.blocks[-1]))
        ctx.check(n_some >= 1 and n_none >= 1, "R12.6", ["path_components", "both-cases"], "paths with const: %d, without: %d" % (n_some, n_none), pc.where(0))
        cl = [x for x in prog.children(pc) if x.kind == "Closure"]
        # the mapping function: a closure calling display_name, or the method itself passed by name
        by_name = not cl and any("('opaque', 'fn:entry::generic::EntryType::display_name')" in str(s_.ret) for s_ in sums)
        ctx.check(by_name or (len(cl) == 1 and [c.callee for c in cl[0].live_calls()] == ["entry::generic::EntryType::display_name"]), "R12.6", ["path_components", "type-level-display_name"],
                  "the type level is named by %s" % [[c.callee for c in x.live_calls()] for x in cl], pc.where(0))
    # from_benches: which components for which kind of entry
    names_ = tables.variant_names(prog, "entry::AnyBenchEntry", crate)
    sws = [x for x in tables.discr_switches(fb) if "AnyBenchEntry" in (fb.local_ty(x[2]) or "") and not (fb.local_ty(x[2]) or "").startswith("std::option::Option")]
    if ctx.check(len(sws) == 1 and names_, "R12.6", ["from_benches", "match-on-entry-kind"], "matches on the entry: %d" % len(sws), fb.where(0)):
        bi, t, _ = sws[0]
        arms, otherwise = tables.arm_targets(t)
        want = {"Bench": "entry::meta::EntryMeta::module_path_components", "GenericBench": "entry::generic::GenericBenchEntry::path_components"}
        for nm in names_:
            tgt = arms.get(names_.index(nm), otherwise)
            lp_ = fb.innermost_loop(bi)
            blocks = tables.exclusive_blocks(fb, tgt, [y for y in list(arms.values()) + [otherwise] if y != tgt], stop=[lp_["header"]] if lp_ else ())
            cs = sorted({fb.call_at(x).callee for x in blocks if fb.call_at(x) is not None and fb.call_at(x).callee.endswith("path_components")})
            ctx.check(cs == [want.get(nm)], "R12.6", ["from_benches", nm, "components"], "a %s entry is inserted under %s, expected %s" % (nm, cs, want.get(nm)), fb.where(tgt))


def r12_7(ctx, prog, crate):
    """A `types = [...]` benchmark is found under the display name of its type: EntryType::display_name drops the module
    components *in front of* the type - everything from the first `<` on (the generic arguments, with their own paths) is part
    of the name. The generic boundary is therefore looked for from the left; a reverse search for `<` stops at the innermost
    argument list and names `Vec<Option<u8>>` `Option<u8>>`, which also merges distinct types that share an inner argument."""
    b = prog.body("entry::generic::EntryType::display_name", crate)
    if not ctx.anchor("R12.7", "EntryType::display_name", 1 if b else 0, 1):
        return
    ctx.saw(b)
    fwd = 0
    for c in b.live_calls():
        last = c.callee.rsplit("::", 1)[-1]
        if not c.callee.startswith(("core::str::", "std::str::", "core::slice::", "std::string::String::")):
            continue
        pat = [a for a in c.args[1:] if a.get("k") == "const" and "'<'" in a["c"]["d"] or a.get("k") == "const" and a["c"]["d"] in ('"<"',)]
        if not pat:
            continue
        rev = last.startswith("r") and last in ("rfind", "rsplit", "rsplit_once", "rsplitn", "rmatches", "rmatch_indices", "rsplit_terminator", "rposition")
        if not rev:
            fwd += 1
        ctx.check(not rev, "R12.7", ["display_name", "generic-boundary-found-from-the-left", last],
                  "EntryType::display_name looks for `<` with %s (from the right): for a nested generic type the name starts at the "
                  "innermost argument list" % last, c.line())
    ctx.check(fwd >= 1, "R12.7", ["display_name", "generic-boundary-respected"],
              "EntryType::display_name never looks for the generic boundary `<`: module components inside the generic arguments would be "
              "taken for the type's own path", b.where(0))


def r12_8(ctx, prog, crate):
    """(= R17.3) One runnable benchmark per types x consts combination: the BenchArgs shared by all instantiations of a
    function caches only what does not depend on the instantiation (the argument slice); the typed bench function is taken
    from the instantiation's own closure on every runner() call - a cached runner makes every entry run the first one."""
    from .C17 import r17_3, r17_1
    from .common import Renamed
    r17_1(Renamed(ctx, "R12.8"), prog, crate)
    r17_3(Renamed(ctx, "R12.8"), prog, crate)


def run(ctx, prog, crate):
    r12_8(ctx, prog, crate)
    r12_7(ctx, prog, crate)
    r12_6(ctx, prog, crate)
    r12_4(ctx, prog, crate)
    r12_5(ctx, prog, crate)


def bench_closure_returns_value(ctx, rule):
    """The generated runner hands Bencher::bench something whose value is the benchmarked function's output: the function
    path itself, or a closure whose body (or the tail expression of its block) is the call. Outputs reach the Bencher only
    this way - it holds them back and drops them after the end timestamp and the end barrier; a closure that discards the
    value (`{ f(arg); }`) drops every output inside the timed section. Analysed on the macro expansions (engine E3, syn)."""
    ensure_tool()
    ctx.cfg = "expand"
    n = 0
    for t in targets(ctx.tier):
        exp = expand_target(t)
        for c in tool("benchcalls", exp)["calls"]:
            if c["recv"] != "divan":
                continue          # a call written by the user, not by the macro (the macro names its parameter `divan`)
            n += 1
            ctx.check(c["kind"] in ("path", "closure") and c["value"] == "value", rule, [t["name"], "bench-argument-yields-the-output", c["arg"][:60]],
                      "the generated runner calls divan.bench(%s): the value of the benchmarked call is %s, so the output is dropped "
                      "inside the timed closure" % (c["arg"][:80], c["value"]), t["name"])
    ctx.anchor(rule, "divan.bench(..) calls in the macro expansions", n, 40)


def run_extra(ctx):
    ensure_tool()
    ctx.cfg = "expand"
    n_items = 0
    progs = 0
    for t in targets(ctx.tier):
        exp = expand_target(t)
        items = tool("items", t["src"])["items"]
        regs = tool("regs", exp)
        progs += 1
        n_items += len(items)
        check_program(ctx, t, items, regs)
    ctx.extra["programs"] = progs
    ctx.extra["attributed_items"] = n_items
    ctx.anchor("R12.1", "attributed items analysed", n_items, 60)
