"""C01  Each generated input is benchmarked once; each value is dropped once."""
import json
import os
import shutil
import subprocess
import tempfile

from lib.facts import norm, direct_place, const_int, place_fields, nophi, origins, place_root_fields
from lib import tables, extract
from .common import Recorder

INLINE = True      # crate-local helpers the rules do not know by name are inlined into their callers (lib/inline.py)
EXPLANATION = (
    "Multiplicity/pairing rules over the one polymorphic MIR body of the sample recorder (all type shapes, sizes and "
    "thread counts at once; size_of/needs_drop are opaque calls). R01.1: on each of the three sample-loop paths the "
    "generator, the counter callback, the benchmarked call, the output drop and the input drop each have exactly one "
    "site, executed exactly once per iteration of their loop (input drops modulo the needs_drop::<I>() guard), the "
    "three loops are sequential and iterate the same space (sample_size, or the same slots() slice prepared with "
    "sample_size). R01.2: benched reads slot.input and its result is stored into the same slot's output; in the drop "
    "loop the output drop precedes drop_input of the same slot; count_input receives the value just generated. R01.3: "
    "entry points that move the input out (ptr::read+assume_init) have an empty drop_input adapter, those that lend "
    "it (assume_init_mut) drop it exactly once with assume_init_drop; bench/bench_local go through with_inputs(|| ())."
    " R01.4: guards use the right type (needs_drop::<I> for input drops, size_of::<O>()==0 for the conjured ZST output), "
    "DeferStore's four accessors branch on the same ONLY_INPUTS constant, DeferSlot fields are "
    "UnsafeCell<MaybeUninit<_>>. R01.5: no manual drop/read of slots on unwind paths (panic may leak, cannot double "
    "drop). R01.6: the _local forms force thread_count = 1 before the shared loop, aux threads derive from "
    "thread_count - 1, sends are guarded by aux_threads > 0, SyncWrap::new is called only where that argument holds; "
    "the threaded forms keep their Sync bounds (predicates + compile-fail witnesses in the thorough tier). R01.7: all "
    "roles are direct calls in one body that neither spawns nor dispatches."
    " R01.8 count_input asks get_input_count for each counter kind exactly once per input (loop over KnownCounterKind::ALL), no path bypasses a kind. R01.9 an input counter is installed whatever the mode: Bencher::input_counter reaches set_input_counter exactly once on every path with the given closure, count_inputs_as reaches input_counter exactly once on every path.")
EXPLANATION += (' R01.10 Bencher::with_inputs exists only on the initial configuration (typestate behind the unchecked cast of type-erased input counters).')
EXPLANATION += (" R01.11 count_inputs_as installs, for each counter kind, a counter of that kind's own type.")
NOT_DECIDED = ["behaviour of Vec::reserve_exact/set_len and slice iterators (trusted std)",
               "identity of values across the runtime reuse of the buffer between samples beyond 'each loop walks the same slice once'"]
TRUSTED = ["std slice::Iter / Range<usize> yield each element exactly once", "MaybeUninit/ManuallyDrop never drop their content"]


def loop_iter_sources(b, lp):
    """Sources of the iterator advanced by the loop's `next` call(s)."""
    out = set()
    nx = []
    for x in lp["body"]:
        c = b.call_at(x)
        if c is not None and (c.callee.endswith("::next") or c.callee == "std::iter::range::next"):
            inner = b.innermost_loop(x)
            if inner is not None and inner["header"] == lp["header"]:
                nx.append(c)
                out |= b.prov.op_src(c.args[0])
    return nx, out


def counter_loop(b, lp, bound_param):
    """Alternative spelling of `for _ in 0..n`: a counter that starts at the constant 0 before the loop, is compared with
    the parameter n (`i < n`, in any spelling) in the loop's exit test, and is incremented by 1 exactly once per
    iteration.  Returns True when `lp` is such a loop over 0..<param bound_param>."""
    from lib.symexpr import Sym, bool_switch
    S = Sym(b)
    for x in sorted(lp["body"]):
        t = b.term(x)
        if t["k"] != "switch":
            continue
        outs = [y for y in b.succ[x] if y not in lp["body"]]
        ins = [y for y in b.succ[x] if y in lp["body"]]
        if len(outs) != 1 or len(ins) != 1:
            continue
        bs = bool_switch(b, S, x)
        # canonical `i < n` on a phi counter:  Lt(phi(i), arg n) continues the loop
        if bs is None or bs[0][0] != "Lt" or bs[0][1][0] != "phi" or bs[0][2] != ("arg", bound_param, ()) or bs[1] != ins[0]:
            continue
        i = bs[0][1][1]
        defs = b.prov.defs.get(i, [])
        inits = [d for d in defs if d[0] == "S" and d[1] not in lp["body"]]
        steps = [d for d in defs if d[0] == "S" and d[1] in lp["body"]]
        if len(defs) != 2 or len(inits) != 1 or len(steps) != 1:
            continue
        if not (inits[0][3]["rv"]["k"] == "use" and const_int(inits[0][3]["rv"]["o"]) == 0):
            continue
        rv = steps[0][3]["rv"]
        # i = (i + 1) - directly or via the checked-add tuple
        srcs = b.prov._rv(rv, (), frozenset(), steps[0][1], steps[0][2])
        ok = any(s.kind == "binop" and s.a in ("Add", "AddWithOverflow") for s in srcs) and any(s.kind == "const" and s.a.startswith("1_") for s in srcs) and \
            not any(s.kind == "binop" and s.a not in ("Add", "AddWithOverflow") for s in srcs) and not any(s.kind in ("param", "call", "upvar") for s in srcs)
        if ok and b.once_per_iteration(steps[0][1], lp) and b.dominates(inits[0][1], lp["header"]):
            return True
    return False


def guard_filter(b, gen_name):
    """edge filter that removes the false edge of `if needs_drop::<gen_name>()`."""
    dead = set()
    for bi, t in b.switches():
        d = direct_place(b, t["discr"])
        if d and d[0] == "call" and d[1].callee == "std::mem::needs_drop" and d[1].gargs == [gen_name]:
            for a in t["arms"]:
                if a[0] == "0":
                    dead.add((bi, a[1]))
    return (lambda x, s: (x, s) not in dead), dead


def once_per_iteration_guarded(b, bb, lp, edge_filter):
    if bb not in lp["body"]:
        return False
    inner = b.innermost_loop(bb)
    if inner is None or inner["header"] != lp["header"]:
        return False
    outside = set(range(len(b.blocks))) - lp["body"]
    r = b.reach([lp["header"]], avoid=outside | {bb}, edge_filter=edge_filter)
    return not any(l in r for l in lp["latches"])


def generic_names(b):
    """Names of the recorder's input/output generic parameters: (I, O) from DeferStore<I, O>."""
    for l in range(len(b.locals)):
        ty = b.local_ty(l)
        if ty.startswith("benchmark::defer::DeferStore<"):
            inner = ty[len("benchmark::defer::DeferStore<"):-1]
            parts = [x.strip() for x in inner.split(",")]
            if len(parts) == 2:
                return parts[0], parts[1]
    return "I", "O"


def r01_1(ctx, prog, crate, rec):
    b = rec.body
    I, O = generic_names(b)
    ef, dead = guard_filter(b, I)
    for p in rec.paths:
        lbl = p.label
        pre, timed, post = p.loops("pre"), p.loops("timed"), p.loops("post")
        ok = len(pre) == 1 and len(timed) == 1 and len(post) == 1
        if not ctx.check(ok, "R01.1", [b.path, lbl, "three-sequential-loops"],
                         "expected one generate, one timed and one drop loop on this path, found %d/%d/%d" % (len(pre), len(timed), len(post)),
                         p.start.line()):
            continue
        gl, tl, dl = pre[0], timed[0], post[0]
        ctx.check(not (gl["body"] & tl["body"]) and not (tl["body"] & dl["body"]) and not (gl["body"] & dl["body"]), "R01.1",
                  [b.path, lbl, "loops-disjoint"], "the three loops overlap", p.start.line())
        roles = {}
        for c in b.live_calls():
            r = rec.role(c)
            if r in ("gen_input", "count_input", "benched", "drop_input") and c.bb in (p.pre_own | p.region | p.post):
                roles.setdefault(r, []).append(c)
        outdrops = [c for c in b.live_calls() if c.bb in p.post and (c.callee.endswith("MaybeUninit::assume_init_drop") or
                                                                        (c.callee == "std::mem::zeroed" and c.gargs == [O]))]
        for role, lp in (("gen_input", gl), ("count_input", gl), ("benched", tl)):
            cs = roles.get(role, [])
            if ctx.check(len(cs) == 1, "R01.1", [b.path, lbl, role, "one-site"], "`%s` has %d call sites on this path" % (role, len(cs)), p.start.line()):
                ctx.check(b.once_per_iteration(cs[0].bb, lp), "R01.1", [b.path, lbl, role, "once-per-iteration"],
                          "`%s` is not called exactly once per iteration of its loop" % role, cs[0].line(),
                          detail={"path": lbl, "role": role, "loop_header": lp["header"]})
        ds = roles.get("drop_input", [])
        if ctx.check(len(ds) == 1, "R01.1", [b.path, lbl, "drop_input", "one-site"], "`drop_input` has %d call sites on this path" % len(ds), p.start.line()):
            c = ds[0]
            in_loop = c.bb in dl["body"]
            guarded_loop = False
            if in_loop:
                ok = once_per_iteration_guarded(b, c.bb, dl, ef)
            else:
                ok = False
            # or: the whole loop is guarded by needs_drop::<I>() and the call is unconditional inside it
            if in_loop and b.once_per_iteration(c.bb, dl):
                ok = True
                guarded_loop = True
            ctx.check(ok, "R01.1", [b.path, lbl, "drop_input", "once-per-iteration"],
                      "`drop_input` is not called exactly once per slot (modulo the needs_drop::<%s>() guard)" % I, c.line())
        # output drops
        want_out = {"zst": 1, "slots": 1, "inputs": 0}.get(lbl)
        if want_out is not None:
            if ctx.check(len(outdrops) == want_out, "R01.1", [b.path, lbl, "output-drop", "sites"],
                         "output drop sites on this path: %d, expected %d" % (len(outdrops), want_out), p.start.line()) and want_out:
                c = outdrops[0]
                if lbl == "slots":
                    ctx.check(b.once_per_iteration(c.bb, dl), "R01.1", [b.path, lbl, "output-drop", "once-per-iteration"],
                              "the output is not dropped exactly once per slot", c.line())
                else:
                    # guarded by size_of::<O>() == 0
                    inner = b.innermost_loop(c.bb)
                    ctx.check(inner is not None and inner["header"] == dl["header"], "R01.1", [b.path, lbl, "output-drop", "in-drop-loop"],
                              "the ZST output is not re-created/dropped in the drop loop", c.line())
        # nothing of these roles elsewhere on this path
        for role, cs in roles.items():
            for c in cs:
                home = {"gen_input": gl, "count_input": gl, "benched": tl, "drop_input": dl}[role]
                ctx.check(c.bb in home["body"], "R01.1", [b.path, lbl, role, "inside-its-loop"], "`%s` is called outside its loop" % role, c.line())
        # common iteration space
        if lbl == "zst":
            for nm, lp in (("generate", gl), ("timed", tl), ("drop", dl)):
                nx, srcs = loop_iter_sources(b, lp)
                rng_ok = any(s.kind == "variant" and s.a.endswith("ops::Range::Range") for s in srcs) and \
                    {s.label() for s in srcs if s.kind == "param"} == {"param:" + b.param_name(2)} and \
                    {s.a for s in srcs if s.kind == "const"} <= {"0_usize"} and not any(s.kind == "binop" for s in srcs)
                if not (rng_ok and len(nx) == 1) and not nx and counter_loop(b, lp, 2):
                    ctx.ok("R01.1", "%s|%s|%s|iterates-0..sample_size (counter loop)" % (b.path, lbl, nm))
                    continue
                ctx.check(rng_ok and len(nx) == 1, "R01.1", [b.path, lbl, nm, "iterates-0..sample_size"],
                          "the %s loop does not iterate 0..sample_size (%s)" % (nm, sorted(s.label() for s in srcs)), b.where(lp["header"]))
        else:
            slot_calls = set()
            for nm, lp in (("generate", gl), ("timed", tl), ("drop", dl)):
                nx, srcs = loop_iter_sources(b, lp)
                sc = {s.b for s in srcs if s.kind == "call" and s.a == "benchmark::defer::DeferStore::slots"}
                bad = [s.label() for s in srcs if s.kind == "call" and s.a not in (
                    "benchmark::defer::DeferStore::slots", "core::slice::iter::into_iter", "core::slice::iter",
                    "<I as std::iter::IntoIterator>::into_iter", "std::hint::black_box",
                    "<benchmark::defer::DeferStore<I, O> as std::default::Default>::default")]
                ctx.check(len(sc) == 1 and not bad and len(nx) == 1 and not any(s.kind == "binop" for s in srcs), "R01.1",
                          [b.path, lbl, nm, "iterates-the-slot-slice"],
                          "the %s loop does not iterate the slots() slice itself (%s)" % (nm, bad or sorted(s.label() for s in srcs)), b.where(lp["header"]))
                slot_calls |= sc
            ctx.check(len(slot_calls) == 1, "R01.1", [b.path, lbl, "same-slice-in-all-loops"], "the loops iterate different slices", p.start.line())
            # the Ok/Err payload matches the path
            for sbb in slot_calls:
                prep = [c for c in b.live_calls() if c.callee == "benchmark::defer::DeferStore::prepare"]
                ok = len(prep) == 1 and b.dominates(prep[0].bb, sbb) and \
                    {s.label() for s in b.prov.op_src(prep[0].args[1])} == {"param:" + b.param_name(2)}
                ctx.check(ok, "R01.1", [b.path, lbl, "prepared-with-sample_size"], "the slot store is not prepared with sample_size before slots()", b.where(sbb))


def r01_2(ctx, prog, crate, rec):
    b = rec.body
    I, O = generic_names(b)
    for p in rec.paths:
        lbl = p.label
        # count_input receives the freshly generated value
        for c in p.calls("pre", "count_input"):
            srcs = b.prov.op_src(c.args[1])
            gens = [s for s in srcs if s.kind == "call" and b.call_at(s.b) is not None and rec.role(b.call_at(s.b)) == "gen_input"]
            lp = b.innermost_loop(c.bb)
            ok = len(gens) >= 1 and all(s.b in lp["body"] for s in gens) if lp else False
            ctx.check(ok, "R01.2", [b.path, lbl, "count-sees-generated-value"],
                      "count_input is not applied to the value produced by gen_input in the same iteration", c.line())
            for g in gens:
                ctx.check(b.dominates(g.b, c.bb), "R01.2", [b.path, lbl, "generate-before-count"], "count precedes generation", c.line())
        if lbl == "slots":
            bc = p.calls("timed", "benched")
            if bc:
                c = bc[0]
                lp = b.innermost_loop(c.bb)
                nx, _ = loop_iter_sources(b, lp)
                arg = b.prov.op_src(c.args[1])
                ok = nx and any(s.kind == "call" and s.b == nx[0].bb for s in arg)
                d_in = _item_field(b, c.args[1], nx[0] if nx else None)
                ctx.check(ok and d_in == "input", "R01.2", [b.path, lbl, "benched-reads-slot.input"],
                          "benched's argument is not the current slot's `input` (%s)" % d_in, c.line())
                # output store: a write through UnsafeCell::get(&slot.output) with value from benched
                stores = []
                for bi, si, s in b.stmts():
                    if bi in lp["body"] and s["k"] == "assign" and s["p"]["proj"] and s["p"]["proj"][0]["k"] == "deref":
                        vs = b.prov._rv(s["rv"], (), frozenset(), bi, si)
                        if any(x.kind == "call" and x.b == c.bb for x in vs):
                            stores.append((bi, s))
                if ctx.check(len(stores) == 1, "R01.2", [b.path, lbl, "output-stored-once"], "output stores per iteration: %d" % len(stores), c.line()):
                    bi, s = stores[0]
                    ptr = b.prov.local_src(s["p"]["l"])
                    getc = [x for x in ptr if x.kind == "call" and x.a == "std::cell::UnsafeCell::get"]
                    fld = None
                    for x in getc:
                        fld = _item_field(b, b.call_at(x.b).args[0], nx[0])
                    ctx.check(fld == "output", "R01.2", [b.path, lbl, "output-into-same-slot"],
                              "the output is stored into `%s` of the slot (expected the same slot's `output`)" % fld, b.where(bi))
                    ctx.check(b.once_per_iteration(bi, lp), "R01.2", [b.path, lbl, "output-store-once-per-iteration"], "store not once per iteration", b.where(bi))
            # drop loop: output drop dominates drop_input, both from the same item
            dl = p.loops("post")
            dcs = p.calls("post", "drop_input")
            ods = [c for c in b.live_calls() if c.bb in p.post and c.callee.endswith("MaybeUninit::assume_init_drop")]
            if dl and dcs and ods:
                nx, _ = loop_iter_sources(b, dl[0])
                ctx.check(b.dominates(ods[0].bb, dcs[0].bb), "R01.2", [b.path, lbl, "output-dropped-before-input"],
                          "an input can be dropped before the output computed from it", dcs[0].line())
                f_out = None
                for x in b.prov.op_src(ods[0].args[0]):
                    if x.kind == "call" and x.a == "std::cell::UnsafeCell::get":
                        f_out = _item_field(b, b.call_at(x.b).args[0], nx[0] if nx else None)
                f_in = _item_field(b, dcs[0].args[1], nx[0] if nx else None)
                ctx.check(f_out == "output" and f_in == "input", "R01.2", [b.path, lbl, "drop-fields"],
                          "drop loop drops `%s` as output and `%s` as input" % (f_out, f_in), ods[0].line())
        if lbl == "inputs":
            for role, where in (("benched", "timed"), ("drop_input", "post")):
                for c in p.calls(where, role):
                    lp = b.innermost_loop(c.bb)
                    nx, _ = loop_iter_sources(b, lp) if lp else ([], set())
                    arg = b.prov.op_src(c.args[1])
                    ctx.check(bool(nx) and any(s.kind == "call" and s.b == nx[0].bb for s in arg), "R01.2", [b.path, lbl, role, "applied-to-loop-item"],
                              "`%s` is not applied to the current element" % role, c.line())
        # generated value is written into the slot being visited (slots/inputs)
        if lbl in ("slots", "inputs"):
            gl = p.loops("pre")
            ws = [c for c in b.live_calls() if c.bb in p.pre_own and c.callee == "std::mem::MaybeUninit::write"]
            if ctx.check(len(ws) == 1, "R01.2", [b.path, lbl, "input-written-once"], "MaybeUninit::write sites: %d" % len(ws), p.start.line()) and gl:
                c = ws[0]
                nx, _ = loop_iter_sources(b, gl[0])
                dst = b.prov.op_src(c.args[0])
                val = b.prov.op_src(c.args[1])
                ctx.check(nx and any(s.kind == "call" and s.b == nx[0].bb for s in dst), "R01.2", [b.path, lbl, "input-into-current-slot"],
                          "the generated input is not written into the slot being visited", c.line())
                ctx.check(any(s.kind == "call" and rec.role(b.call_at(s.b)) == "gen_input" for s in val if s.kind == "call" and b.call_at(s.b)) and nophi(val), "R01.2",
                          [b.path, lbl, "written-value-is-generated"], "the value written is not gen_input()'s result", c.line())
                ctx.check(b.once_per_iteration(c.bb, gl[0]), "R01.2", [b.path, lbl, "input-write-once-per-iteration"], "not once per iteration", c.line())
                if lbl == "slots":
                    f = None
                    for x in dst:
                        if x.kind == "call" and x.a == "std::cell::UnsafeCell::get":
                            f = _item_field(b, b.call_at(x.b).args[0], nx[0])
                    ctx.check(f == "input", "R01.2", [b.path, lbl, "input-into-input-field"], "generated value written into `%s`" % f, c.line())


def _item_field(b, operand, next_call):
    """If operand is `&(*item).F` (possibly re-borrowed / in a 1-tuple) with item = payload of next_call's result:
    return F."""
    if next_call is None:
        return None
    seen = 0
    cur = operand
    while seen < 12 and cur is not None:
        seen += 1
        if cur["k"] not in ("copy", "move"):
            return None
        p = cur["p"]
        names = [pr.get("name") for pr in p["proj"] if pr["k"] == "field" and pr.get("name") in ("input", "output")]
        if names:
            base = b.prov.local_src(p["l"])
            if any(s.kind == "call" and s.b == next_call.bb for s in base):
                return names[-1]
            return "other-item." + names[-1]
        defs = [d for d in b.prov.defs.get(p["l"], []) if d[0] == "S"]
        if len(defs) != 1:
            return None
        rv = defs[0][3]["rv"]
        if rv["k"] in ("use", "cast"):
            cur = rv["o"]
        elif rv["k"] in ("ref", "rawptr"):
            cur = {"k": "copy", "p": rv["p"]}
        elif rv["k"] == "agg" and rv["ak"] == "tuple" and len(rv["ops"]) == 1:
            cur = rv["ops"][0]
        else:
            return None
    return None


ENTRY = {
    "bench_values": ("move", "threaded"),
    "bench_local_values": ("move", "local"),
    "bench_refs": ("lend", "threaded"),
    "bench_local_refs": ("lend", "local"),
}


def loop_functions(prog, crate):
    """(shared sampling function, its single-threaded wrapper), identified structurally (rules/sampling.py)."""
    from .sampling import Sampling
    S = Sampling(prog, crate)
    if S.body is None or S.loop is None:
        return None, None
    return S.body, S.local_wrapper()


def closure_arg(prog, b, operand):
    if operand["k"] not in ("copy", "move"):
        return None
    for d in b.prov.defs.get(operand["p"]["l"], []):
        if d[0] == "S" and d[3]["rv"]["k"] == "agg" and d[3]["rv"]["ak"] == "closure":
            return prog.bodies.get((b.crate, norm(d[3]["rv"]["def"]), -1))
    return None


def r01_3(ctx, prog, crate):
    bt_, bl_ = loop_functions(prog, crate)
    if not ctx.anchor("R01.3", "shared sampling function and its single-threaded wrapper", (1 if bt_ else 0) + (1 if bl_ else 0), 2):
        return
    loops = {"threaded": bt_.path, "local": bl_.path}
    for fn, (mode, which) in ENTRY.items():
        loop_fn = loops[which]
        b = prog.one("benchmark::Bencher::" + fn, crate)
        if not ctx.anchor("R01.3", "Bencher::" + fn, 1 if b else 0, 1):
            continue
        ctx.saw(b)
        cs = [c for c in b.live_calls() if c.callee in loops.values()]
        if not ctx.check(len(cs) == 1 and cs[0].callee == loop_fn, "R01.3", [fn, "loop"],
                         "`%s` calls %s, expected exactly %s" % (fn, [c.callee for c in cs], loop_fn), b.where(0)):
            continue
        c = cs[0]
        g = {s.label() for s in b.prov.op_src(c.args[1])}
        ctx.check(len(g) == 1 and list(g)[0].startswith("param:self.config.") and list(g)[0].count(".") == 2, "R01.3", [fn, "generator-forwarded"],
                  "generator argument derives from %s, expected the generator stored in self.config" % sorted(g), c.line())
        ad_b = closure_arg(prog, b, c.args[2])
        ad_d = closure_arg(prog, b, c.args[3])
        if not ctx.check(ad_b is not None and ad_d is not None, "R01.3", [fn, "adapters"], "adapters are not local closures", c.line()):
            continue
        ctx.saw(ad_b)
        ctx.saw(ad_d)
        bn = [x.callee for x in ad_b.live_calls() if not x.is_fn_trait_call]
        dn = [x.callee for x in ad_d.live_calls()]
        user = [x for x in ad_b.live_calls() if x.is_fn_trait_call]
        ctx.check(len(user) == 1 and ad_b.innermost_loop(user[0].bb) is None and not (set(ad_b.returns) & ad_b.reach([0], avoid=[user[0].bb])), "R01.3",
                  [fn, "adapter-calls-user-function-once"], "the benched adapter does not call the user function exactly once", ad_b.where(0))
        if mode == "move":
            ok = any(n.endswith("::read") for n in bn) and any(n.endswith("MaybeUninit::assume_init") for n in bn) and \
                not any(n.endswith(("assume_init_mut", "assume_init_ref", "assume_init_drop")) for n in bn)
            ctx.check(ok, "R01.3", [fn, "moves-input-out"], "by-value adapter calls %s" % bn, ad_b.where(0))
            ctx.check(not dn, "R01.3", [fn, "drop-adapter-empty"],
                      "the input is moved into the benchmarked function AND dropped by the adapter (%s): double drop" % dn, ad_d.where(0),
                      detail={"entry": fn, "benched": bn, "drop_input": dn})
            # read happens once
            reads = [x for x in ad_b.live_calls() if x.callee.endswith("::read")]
            ctx.check(len(reads) == 1, "R01.3", [fn, "one-read"], "ptr::read sites: %d" % len(reads), ad_b.where(0))
        else:
            ok = any(n.endswith("MaybeUninit::assume_init_mut") for n in bn) and not any(n.endswith("::read") or n.endswith("MaybeUninit::assume_init") for n in bn)
            ctx.check(ok, "R01.3", [fn, "lends-input"], "by-reference adapter calls %s" % bn, ad_b.where(0))
            drops = [x for x in ad_d.live_calls() if x.callee.endswith("MaybeUninit::assume_init_drop")]
            ok = len(drops) == 1 and len(dn) <= 2 and ad_d.innermost_loop(drops[0].bb) is None and \
                not (set(ad_d.returns) & ad_d.reach([0], avoid=[drops[0].bb]))
            ctx.check(ok, "R01.3", [fn, "drop-adapter-drops-once"],
                      "the lent input is not dropped exactly once by the adapter (%s): leak or double drop" % dn, ad_d.where(0),
                      detail={"entry": fn, "benched": bn, "drop_input": dn})
            if drops:
                a = {s.label() for s in ad_d.prov.op_src(drops[0].args[0]) if s.kind == "param"}
                ctx.check(a == {"param:" + ad_d.param_name(2)}, "R01.3", [fn, "drops-its-argument"], "assume_init_drop applied to %s" % sorted(a), drops[0].line())
        # the user function gets the adapter's own argument
        if user:
            a = {s.label() for s in ad_b.prov.op_src(user[0].args[1]) if s.kind == "param"}
            ctx.check(a == {"param:" + ad_b.param_name(2)}, "R01.3", [fn, "user-gets-this-input"], "user function receives %s" % sorted(a), user[0].line())
    for fn, via in (("bench", "bench_values"), ("bench_local", "bench_local_values")):
        b = prog.one("benchmark::Bencher::" + fn, crate)
        if not ctx.anchor("R01.3", "Bencher::" + fn, 1 if b else 0, 1):
            continue
        ctx.saw(b)
        names = [c.callee for c in b.live_calls()]
        ok = names.count("benchmark::Bencher::with_inputs") == 1 and names.count("benchmark::Bencher::" + via) == 1 and \
            not any(n.startswith("benchmark::BenchContext::") for n in names)
        ctx.check(ok, "R01.3", [fn, "via-" + via], "`%s` does not go through with_inputs(|| ()).%s (%s)" % (fn, via, names), b.where(0))


def r01_4(ctx, prog, crate, rec):
    b = rec.body
    I, O = generic_names(b)
    # drop_input sites are control dependent on needs_drop::<I>()
    for c in b.live_calls():
        if rec.role(c) != "drop_input":
            continue
        guards = []
        for bi, t in b.switches():
            d = direct_place(b, t["discr"])
            if d and d[0] == "call" and d[1].callee == "std::mem::needs_drop":
                if b.dominates(t["otherwise"], c.bb) and b.pred[t["otherwise"]] == [bi]:
                    guards.append(d[1].gargs)
        ctx.check(guards == [[I]], "R01.4", [b.path, "drop_input-guard", _plabel(rec, c)],
                  "drop_input is guarded by needs_drop::<%s>, expected exactly needs_drop::<%s>" % (guards, I), c.line(), detail={"guards": guards})
    # the conjured ZST output drop is guarded by size_of::<O>() == 0
    for c in b.live_calls():
        if c.callee == "std::mem::zeroed" and c.gargs == [O]:
            ok = False
            for bi, t in b.switches():
                d = direct_place(b, t["discr"])
                if d and d[0] == "rvalue" and d[1]["k"] == "binop" and d[1]["op"] == "Eq" and const_int(d[1]["b"]) == 0:
                    x = direct_place(b, d[1]["a"])
                    if x and x[0] == "call" and x[1].callee == "std::mem::size_of" and x[1].gargs == [O] and \
                            b.dominates(t["otherwise"], c.bb) and b.pred[t["otherwise"]] == [bi]:
                        ok = True
            ctx.check(ok, "R01.4", [b.path, "zst-output-guard"], "mem::zeroed::<%s>() is not guarded by size_of::<%s>() == 0" % (O, O), c.line())
    # the ZST fast path is chosen only for ZST inputs: every path to the zst `start` passes size_of::<I>() == 0 true edge
    for p in rec.paths:
        if p.label != "zst":
            continue
        ok = False
        for bi, t in b.switches():
            d = direct_place(b, t["discr"])
            if d and d[0] == "rvalue" and d[1]["k"] == "binop" and d[1]["op"] == "Eq" and const_int(d[1]["b"]) == 0:
                x = direct_place(b, d[1]["a"])
                if x and x[0] == "call" and x[1].callee == "std::mem::size_of" and x[1].gargs == [I]:
                    zero = [a[1] for a in t["arms"] if a[0] == "0"]
                    ok = bool(zero) and p.start.bb not in b.reach(zero) and b.dominates(bi, p.start.bb)
        ctx.check(ok, "R01.4", [b.path, "zst-path-only-for-zst-input"], "the ZST fast path is reachable for a sized input type", p.start.line())
        # and only when outputs need no deferred drop or are ZSTs
        ok2 = False
        for bi, t in b.switches():
            d = direct_place(b, t["discr"])
            if d and d[0] == "call" and d[1].callee == "std::mem::needs_drop" and d[1].gargs == [O]:
                # needs_drop::<O>() true edge must not reach zst start unless size_of::<O>()==0 passed... the structure is
                # size_of::<O>()==0 || !needs_drop::<O>() : true edge of needs_drop leads away from the zst path
                if p.start.bb not in b.reach([t["otherwise"]], avoid=[]):
                    ok2 = True
        ctx.check(ok2, "R01.4", [b.path, "zst-path-output-condition"],
                  "the ZST fast path is reachable when a sized output needs drop (it would be forgotten)", p.start.line())
    # DeferStore accessor agreement
    accs = ["<benchmark::defer::DeferStore<I, O> as std::default::Default>::default", "<benchmark::defer::DeferStore<I, O> as std::ops::Drop>::drop",
            "benchmark::defer::DeferStore::prepare", "benchmark::defer::DeferStore::slots"]
    tabs = {}
    for a in accs:
        ab = prog.body(a, crate)
        if not ctx.anchor("R01.4", a, 1 if ab else 0, 1):
            continue
        ctx.saw(ab)
        sw = []
        for bi, t in ab.switches():
            srcs = ab.prov.op_src(t["discr"])
            if any(s.kind == "const" and "ONLY_INPUTS" in str(s.a) + str(s.c) for s in srcs) and not any(s.kind in ("unop", "binop") for s in srcs):
                sw.append((bi, t))
        if not ctx.check(len(sw) == 1, "R01.4", [a, "branches-on-ONLY_INPUTS"], "switches on ONLY_INPUTS: %d" % len(sw), ab.where(0)):
            continue
        bi, t = sw[0]
        zero = [x[1] for x in t["arms"] if x[0] == "0"][0]
        tf = {}
        for val, tgt, other in ((True, t["otherwise"], zero), (False, zero, t["otherwise"])):
            fields = set()
            for x in tables.exclusive_blocks(ab, tgt, [other]):
                bl = ab.blocks[x]
                places = []
                for s in bl["stmts"]:
                    if s["k"] == "assign":
                        places.append(s["p"])
                        rv = s["rv"]
                        if rv["k"] in ("ref", "rawptr"):
                            places.append(rv["p"])
                        if rv["k"] == "use" and rv["o"]["k"] in ("copy", "move"):
                            places.append(rv["o"]["p"])
                        if rv["k"] == "agg" and rv["ak"] == "adt" and "DeferStore" in rv.get("adt", ""):
                            if rv.get("active"):
                                fields.add(rv["active"])
                for pl in places:
                    for pr in pl["proj"]:
                        if pr["k"] == "field" and pr.get("name") in ("slots", "inputs"):
                            fields.add(pr["name"])
            tf[val] = fields
        tabs[a] = tf
        ctx.check(tf.get(True) == {"inputs"} and tf.get(False) == {"slots"}, "R01.4", [a, "variant-per-branch"],
                  "`%s` uses %s when ONLY_INPUTS and %s otherwise (expected inputs / slots)" % (a.rsplit("::", 1)[-1], sorted(tf.get(True, [])), sorted(tf.get(False, []))),
                  ab.where(bi), detail={k: sorted(v) for k, v in tf.items()})
    # ONLY_INPUTS == !needs_drop::<O>()
    only_inputs_is_not_needs_drop(ctx, prog, crate, "R01.4")
    # slots(): Ok for slots / Err for inputs
    sb = prog.body("benchmark::defer::DeferStore::slots", crate)
    if sb is not None:
        sw = [(bi, t) for bi, t in sb.switches() if any(s.kind == "const" and "ONLY_INPUTS" in str(s.a) + str(s.c) for s in sb.prov.op_src(t["discr"]))]
        if sw:
            bi, t = sw[0]
            zero = [x[1] for x in t["arms"] if x[0] == "0"][0]
            res = {}
            for val, tgt, other in ((True, t["otherwise"], zero), (False, zero, t["otherwise"])):
                for x in tables.exclusive_blocks(sb, tgt, [other]):
                    for s in sb.blocks[x]["stmts"]:
                        if s["k"] == "assign" and s["p"]["l"] == 0 and s["rv"]["k"] == "agg":
                            res[val] = s["rv"].get("variant")
            from .common import slots_result_variants
            sv = slots_result_variants(prog, crate)
            ctx.check(bool(sv) and res == {True: sv["inputs"][0], False: sv["slots"][0]}, "R01.4", ["DeferStore::slots", "Ok-iff-outputs-deferred"],
                      "slots() returns %s (variants by payload: %s)" % (res, sv), sb.where(0))
    # DeferSlot field types
    adt = prog.adt("benchmark::defer::DeferSlot", crate)
    if ctx.anchor("R01.4", "DeferSlot ADT", 1 if adt else 0, 1):
        f = {x["name"]: x["ty"] for x in adt["variants"][0]["fields"]}
        ctx.check(f == {"input": "std::cell::UnsafeCell<std::mem::MaybeUninit<I>>", "output": "std::cell::UnsafeCell<std::mem::MaybeUninit<O>>"}, "R01.4",
                  ["DeferSlot", "fields-are-UnsafeCell-MaybeUninit"], "DeferSlot fields: %s" % f, "src/benchmark/defer.rs", detail=f)
    adt = prog.adt("benchmark::defer::DeferStore", crate)
    if ctx.anchor("R01.4", "DeferStore ADT", 1 if adt else 0, 1):
        f = {x["name"]: x["ty"] for x in adt["variants"][0]["fields"]}
        ctx.check(all(v.startswith("std::mem::ManuallyDrop<std::vec::Vec<") for v in f.values()) and set(f) == {"slots", "inputs"}, "R01.4",
                  ["DeferStore", "ManuallyDrop-vectors"], "DeferStore fields: %s" % f, "src/benchmark/defer.rs")
    # prepare: clear, reserve_exact(sample_size), set_len(sample_size)
    pb = prog.body("benchmark::defer::DeferStore::prepare", crate)
    if pb is not None:
        for c in pb.live_calls():
            if c.callee.endswith(("::set_len", "::reserve_exact", "::reserve")):
                a = {s.label() for s in pb.prov.op_src(c.args[1])}
                ctx.check(a == {"param:" + pb.param_name(2)}, "R01.4", ["DeferStore::prepare", c.callee.rsplit("::", 1)[-1], "sample_size"],
                          "`%s` gets %s" % (c.callee, sorted(a)), c.line())
        sl = [c for c in pb.live_calls() if c.callee.endswith("::set_len")]
        ctx.check(len(sl) == 2, "R01.4", ["DeferStore::prepare", "set_len-on-both-branches"], "set_len sites: %d" % len(sl), pb.where(0))
        for c in sl:
            cl = [x for x in pb.live_calls() if x.callee.endswith("::clear") and pb.dominates(x.bb, c.bb)]
            rs = [x for x in pb.live_calls() if x.callee.endswith("::reserve_exact") and pb.dominates(x.bb, c.bb)]
            ctx.check(len(cl) >= 1 and len(rs) >= 1, "R01.4", ["DeferStore::prepare", "clear-reserve-before-set_len"],
                      "set_len is not preceded by clear and reserve_exact", c.line())


def only_inputs_is_not_needs_drop(ctx, prog, crate, rule):
    """DeferStore::ONLY_INPUTS is exactly `!needs_drop::<O>()`: this constant selects the inputs-only sample loop, in which
    outputs are passed to black_box_drop *inside* the timed section - sound only for outputs without drop glue."""
    oi = prog.bodies.get((crate, "benchmark::defer::DeferStore::ONLY_INPUTS", -1))
    if not ctx.anchor(rule, "DeferStore::ONLY_INPUTS", 1 if oi else 0, 1):
        return
    ctx.saw(oi)
    calls = [(c.callee, c.gargs) for c in oi.calls if c.bb in oi.live]
    d = None
    for bi, si, s in oi.stmts():
        if s["k"] == "assign" and s["p"]["l"] == 0 and not s["p"]["proj"]:
            d = s["rv"]
    exact = calls == [("std::mem::needs_drop", ["O"])] and d is not None and d["k"] == "unop" and d["op"] == "Not" and \
        not list(oi.switches()) and len([1 for bi, si, s in oi.stmts() if s["k"] == "assign" and s["p"]["l"] == 0]) == 1
    if exact:
        x = direct_place(oi, d["o"])
        exact = x is not None and x[0] == "call" and x[1].callee == "std::mem::needs_drop"
    ctx.check(exact, rule, ["ONLY_INPUTS", "exactly-not-needs_drop-O"],
              "DeferStore::ONLY_INPUTS is not exactly `!needs_drop::<O>()` (calls: %s): an output type with drop glue could take the "
              "inputs-only loop, where outputs are dropped inside the timed section" % calls, oi.where(0), detail={"calls": calls})


def _plabel(rec, c):
    for p in rec.paths:
        if c.bb in (p.pre_own | p.region | p.post):
            return p.label
    return "?"


def r01_5(ctx, prog, crate, rec):
    b = rec.body
    forbidden = ("MaybeUninit::assume_init_drop", "MaybeUninit::assume_init", "::read", "std::mem::zeroed", "MaybeUninit::assume_init_read")
    n = 0
    cl = {i for i, bl in enumerate(b.blocks) if bl["cleanup"]}
    for x in sorted(cl):
        c = b.call_at(x)
        if c is None:
            continue
        n += 1
        role = rec.role(c)
        bad = role in ("gen_input", "count_input", "benched", "drop_input") or c.callee.endswith(forbidden)
        ctx.check(not bad, "R01.5", [b.path, "cleanup-call", role or c.callee],
                  "an unwind path calls `%s`: a panic could drop a value twice or hand out a dropped value" % (role or c.callee), c.line())
    # cleanup drops only owned locals of the recorder (never slot contents): Drop places are whole locals
    for x in sorted(cl):
        t = b.term(x)
        if t["k"] == "drop":
            n += 1
            ctx.check(not any(pr["k"] == "deref" for pr in t["p"]["proj"]), "R01.5", [b.path, "cleanup-drop-through-pointer", t["ty"]],
                      "an unwind path drops a value behind a pointer (`%s`)" % t["ty"], b.where(x))
    ctx.anchor("R01.5", "cleanup terminators audited", n, 1)
    # entry-point adapters and loop functions: same audit
    for fn in list(ENTRY) + ["bench", "bench_local"]:
        eb = prog.one("benchmark::Bencher::" + fn, crate)
        if eb is None:
            continue
        for xb in prog.closure_tree(eb):
            for i, bl in enumerate(xb.blocks):
                if bl["cleanup"]:
                    c = xb.call_at(i)
                    if c is not None:
                        ctx.check(not c.callee.endswith(forbidden), "R01.5", [xb.path, "cleanup-call", c.callee], "unwind path calls `%s`" % c.callee, c.line())


def r01_6(ctx, prog, crate):
    # (a) _local entry points only call bench_loop_local -- R01.3
    bt, bl = loop_functions(prog, crate)
    if not ctx.anchor("R01.6", "bench_loop_local / bench_loop_threaded", (1 if bl else 0) + (1 if bt else 0), 2):
        return
    ctx.saw(bl)
    ctx.saw(bt)
    # (b) thread_count = MIN dominates the call to bench_loop_threaded
    calls = [c for c in bl.live_calls() if c.callee == bt.path]
    stores = []
    for bi, si, s in bl.stmts():
        if s["k"] == "assign" and s["p"]["proj"] and place_root_fields(bl, s["p"]) == (1, ("thread_count",)):
            stores.append((bi, si, s))
    ok = len(calls) == 1 and len(stores) == 1
    if ctx.check(ok, "R01.6", ["bench_loop_local", "forces-single-thread"],
                 "bench_loop_local: stores to self.thread_count x%d, calls of the shared loop x%d" % (len(stores), len(calls)), bl.where(0)):
        bi, si, s = stores[0]
        srcs = bl.prov._rv(s["rv"], (), frozenset(), bi, si)
        is_min = any(x.kind == "const" and ("MIN" in str(x.a) or "MIN" in str(x.c)) for x in srcs) or any(x.kind == "const" and x.a.startswith("1_") for x in srcs)
        ctx.check(is_min and not any(x.kind in ("param", "call") for x in srcs), "R01.6", ["bench_loop_local", "thread_count-is-MIN"],
                  "thread_count is set from %s, expected NonZeroUsize::MIN" % sorted(x.label() for x in srcs), bl.where(bi))
        ctx.check(bl.dominates(bi, calls[0].bb), "R01.6", ["bench_loop_local", "store-dominates-loop"],
                  "the shared loop can start before thread_count is forced to 1", calls[0].line())
        # same receiver
        ctx.check({x.label() for x in bl.prov.op_src(calls[0].args[0])} == {"param:self"}, "R01.6", ["bench_loop_local", "same-context"],
                  "the shared loop runs on a different context", calls[0].line())
    # (c) aux count = thread_count - 1 (also C08/R08.2); no other writer of thread_count between
    for bi, si, s in bt.stmts():
        if s["k"] == "assign" and s["p"]["proj"] and place_root_fields(bt, s["p"]) == (1, ("thread_count",)):
            ctx.fail("R01.6", ["bench_loop_threaded", "rewrites-thread_count"], "the shared loop overwrites thread_count", bt.where(bi))
    pe = [c for c in bt.live_calls() if c.callee == "util::thread::pool::ThreadPool::par_extend"]
    if ctx.check(len(pe) == 1, "R01.6", ["bench_loop_threaded", "one-par_extend"], "par_extend sites: %d" % len(pe), bt.where(0)):
        srcs = bt.prov.op_src(pe[0].args[2])
        ok = "param:self.thread_count" in {x.label() for x in srcs} and any(x.kind == "binop" and x.a.startswith("Sub") for x in srcs) and \
            {x.a for x in srcs if x.kind == "const"} <= {"1_usize"} and {x.a for x in srcs if x.kind == "call"} <= {"std::num::NonZero::get"}
        ctx.check(ok, "R01.6", ["bench_loop_threaded", "aux-from-thread_count"], "aux threads derive from %s" % sorted(x.label() for x in srcs), pe[0].line())
    # (d) sends guarded by aux_threads > 0
    bc = prog.body("util::thread::pool::ThreadPool::broadcast_task", crate)
    if ctx.anchor("R01.6", "broadcast_task", 1 if bc else 0, 1):
        sends = [c for c in bc.live_calls() if c.callee == "std::sync::mpsc::SyncSender::send"]
        spawns = [c for c in bc.live_calls() if c.callee == "util::thread::pool::spawn"]
        guard = None
        from lib.symexpr import Sym as _Sym, bool_switch as _bool_switch
        S_ = _Sym(bc, site_args=True)
        for bi, t in bc.switches():
            bs_ = _bool_switch(bc, S_, bi)
            # `aux_threads > 0`, `!= 0`, `== 0` with the branches swapped or an early return: one test of the parameter against 0
            if bs_ is not None and bs_[0][0] == "Eq" and set(bs_[0][1:]) == {("int", 0), ("arg", 2, ())}:
                guard = (bi, bs_[1], bs_[2])
        if ctx.check(guard is not None, "R01.6", ["broadcast_task", "aux>0-guard"], "no `aux_threads > 0` guard", bc.where(0)):
            bi, zero_t, pos_t = guard
            zero = [zero_t]
            for c in sends + spawns:
                ctx.check(c.bb not in bc.reach(zero, avoid=[pos_t]) and bc.dominates(pos_t, c.bb), "R01.6", ["broadcast_task", "no-dispatch-when-aux-0", c.callee.rsplit("::", 1)[-1]],
                          "`%s` is reachable with aux_threads == 0: a _local benchmark could leave the calling thread" % c.callee, c.line())
    # who may call SyncWrap::new
    sites = [c for c in prog.callers_of("util::sync::SyncWrap::new", crates=[crate]) if "::tests::" not in c.body.path]
    for c in sites:
        ok = c.body.path in (bl.path, "util::thread::pool::ThreadPool::par_extend")
        ctx.check(ok, "R01.6", ["SyncWrap::new", c.body.path], "the unsafe Sync wrapper is created in `%s`" % c.body.path, c.line())
    ctx.anchor("R01.6", "SyncWrap::new call sites", sites, 4)
    # Sync bounds of the threaded entry points
    for fn, want in (("bench", ["B: std::marker::Sync"]), ("bench_values", ["B: std::marker::Sync", "GenI: std::marker::Sync"]),
                     ("bench_refs", ["B: std::marker::Sync", "GenI: std::marker::Sync"])):
        f = prog.fn_fact("benchmark::Bencher::" + fn, crate)
        if not ctx.anchor("R01.6", "predicates of Bencher::" + fn, 1 if f else 0, 1):
            continue
        for w in want:
            ctx.check(w in f["preds"], "R01.6", ["Bencher::" + fn, w], "`Bencher::%s` no longer requires `%s`" % (fn, w), None, detail={"fn": fn, "bound": w})
    f = prog.fn_fact(bt.path, crate)
    if f:
        syncs = [p for p in f["preds"] if p.endswith(": std::marker::Sync")]
        ctx.check(len(syncs) == 3, "R01.6", ["bench_loop_threaded", "three-Sync-bounds"], "Sync bounds on the shared loop: %s" % syncs, None)


def r01_7(ctx, prog, crate, rec):
    b = rec.body
    bodies, ext, ind = prog.callee_closure([b], crate=b.crate)
    bad = sorted(n for n in ext if n.startswith(("std::thread::", "std::sync::mpsc::", "util::thread::pool::")) and n not in ("std::thread::LocalKey::try_with",))
    bad += sorted(x.path for x in bodies if x.path.startswith("util::thread::pool::"))
    ctx.check(not bad, "R01.7", [b.path, "no-dispatch"], "the recorder reaches %s: roles could run on different threads" % bad, b.where(0))
    roles = {}
    for c in b.live_calls():
        r = rec.role(c)
        if r in ("gen_input", "count_input", "benched", "drop_input"):
            roles.setdefault(r, 0)
            roles[r] += 1
    ctx.check(set(roles) == {"gen_input", "count_input", "benched", "drop_input"}, "R01.7", [b.path, "all-roles-direct"],
              "roles called directly in the recorder body: %s" % roles, b.where(0), detail=roles)
    # the recorder is only invoked from the per-thread task closure (one invocation per index per round: C06)
    callers = [c for x in prog.lib_bodies(crate) for c in x.live_calls() if c.name == b.path]
    ctx.check(len(callers) == 1, "R01.7", [b.path, "single-invocation-site"], "recorder call sites: %d" % len(callers), b.where(0))


WITNESS = '''
use divan::Bencher;
use std::cell::Cell;
pub fn w(bencher: Bencher) {
    let c = Cell::new(0u32);
    bencher.__METHOD__;
}
'''
WITNESS_CASES = [
    # (name, method call, must_fail)
    ("bench", "bench(|| c.set(c.get() + 1))", True),
    ("bench_local", "bench_local(|| c.set(c.get() + 1))", False),
    ("bench_values", "with_inputs(|| 1u32).bench_values(|x| c.set(x))", True),
    ("bench_local_values", "with_inputs(|| 1u32).bench_local_values(|x| c.set(x))", False),
    ("bench_refs", "with_inputs(|| 1u32).bench_refs(|x| c.set(*x))", True),
    ("bench_local_refs", "with_inputs(|| 1u32).bench_local_refs(|x| c.set(*x))", False),
    ("gen_values", "with_inputs(|| { c.set(1); 1u32 }).bench_values(|x| x)", True),
    ("gen_local_values", "with_inputs(|| { c.set(1); 1u32 }).bench_local_values(|x| x)", False),
]


def run_extra(ctx):
    """Thorough tier: compile-fail witnesses with compiling twins against the freshly checked divan rmeta."""
    if ctx.tier != "thorough":
        return
    ctx.cfg = "witness"
    tgt = os.path.join(extract.CACHE, "target", "K1", "debug")
    deps = os.path.join(tgt, "deps")
    import glob
    rmeta = sorted(glob.glob(os.path.join(deps, "libdivan-*.rmeta")), key=os.path.getmtime)
    if not ctx.anchor("R01.6w", "divan rmeta from the K1 extraction", rmeta, 1):
        return
    rmeta = rmeta[-1]
    d = tempfile.mkdtemp(prefix="verif-witness-")
    try:
        env = dict(os.environ, LD_LIBRARY_PATH=extract.sysroot() + "/lib")
        for name, call, must_fail in WITNESS_CASES:
            src = os.path.join(d, name + ".rs")
            with open(src, "w") as fh:
                fh.write(WITNESS.replace("__METHOD__", call))
            r = subprocess.run(["rustc", "+nightly", "--edition", "2021", "--crate-type", "lib", "--emit", "metadata", "--error-format", "json",
                                "-L", "dependency=" + deps, "--extern", "divan=" + rmeta, "-o", os.path.join(d, name + ".rmeta"), src],
                               capture_output=True, text=True, env=env)
            codes = set()
            for line in r.stderr.splitlines():
                try:
                    j = json.loads(line)
                except ValueError:
                    continue
                if j.get("level") == "error" and j.get("code"):
                    codes.add(j["code"]["code"])
            if must_fail:
                ctx.check(r.returncode != 0 and codes == {"E0277"}, "R01.6w", [name, "rejects-non-Sync-closure"],
                          "a closure capturing a Cell is accepted by the threaded entry point (exit %d, errors %s)" % (r.returncode, sorted(codes)), src,
                          detail={"witness": name, "errors": sorted(codes)})
            else:
                ctx.check(r.returncode == 0, "R01.6w", [name, "twin-compiles"],
                          "the compiling twin of the witness failed (%s): the witness would pass vacuously" % sorted(codes), src,
                          detail={"witness": name, "compiles": r.returncode == 0})
    finally:
        shutil.rmtree(d, ignore_errors=True)


def r01_8(ctx, prog, crate):
    """Each generated value is shown once to EVERY input counter, whatever its type: the closure handed to the recorder as
    `count_input` asks get_input_count for each counter kind (a loop over KnownCounterKind::ALL, one call per kind per
    input) and no path through it returns without entering that loop (no shortcut for zero-sized inputs etc.)."""
    sites = [c for c in prog.callers_of("CounterCollection::get_input_count", crates=[crate]) if "::tests::" not in c.body.path]
    if not ctx.anchor("R01.8", "get_input_count call sites", sites, 1):
        return
    for c in sites:
        b = c.body
        ctx.saw(b)
        lp = b.innermost_loop(c.bb)
        ok = b.kind == "Closure" and lp is not None and b.once_per_iteration(c.bb, lp)
        ctx.check(ok, "R01.8", [b.path, "once-per-kind"], "get_input_count is not called exactly once per counter kind for an input", c.line())
        if not ok:
            continue
        nx = [x for x in b.live_calls() if x.bb in lp["body"] and x.callee.endswith("::next")]
        it = b.prov.op_src(nx[0].args[0]) if nx else set()
        ctx.check(any(z.kind == "const" and "KnownCounterKind::ALL" in str(z.c or z.a) for z in it) or any("KnownCounterKind::ALL" in z.label() for z in it), "R01.8",
                  [b.path, "over-all-kinds"], "the loop does not run over KnownCounterKind::ALL (%s)" % sorted(z.label() for z in it)[:4], b.where(lp["header"]))
        bypass = set(b.returns) & b.reach([0], avoid=[lp["header"]])
        ctx.check(not bypass, "R01.8", [b.path, "no-shortcut-around-the-counters"],
                  "the input-counting closure can return without consulting the counters (a path avoids the per-kind loop)", b.where(0))
        # the input handed to the counters is the closure's own parameter, and the kind is the loop item
        a_in = {z.label() for z in b.prov.op_src(c.args[2])}
        ctx.check(a_in == {"param:" + b.param_name(2)}, "R01.8", [b.path, "counts-the-input-it-was-given"], "get_input_count receives %s" % sorted(a_in), c.line())
        # the closure is the one passed to the recorder as count_input
        par = prog.parent_body(b)
        passed = False
        if par is not None:
            for pc in par.live_calls():
                if pc.is_fn_trait_call or pc.decl is None:
                    for a in pc.args:
                        for o in origins(par, a):
                            if o[0] == "rvalue" and o[1]["k"] == "agg" and o[1]["ak"] in ("closure", "tuple"):
                                txt = str(o[1])
                                if b.path in txt.replace("'", ""):
                                    passed = True
            for bi, si, s in par.stmts():
                if s["k"] == "assign" and s["rv"]["k"] == "agg" and s["rv"]["ak"] == "closure" and norm(s["rv"]["def"]) == b.path:
                    passed = passed or True
        ctx.check(passed, "R01.8", [b.path, "is-the-recorders-count_input"], "the counting closure is not built in the per-thread record closure", b.where(0))


def r01_9(ctx, prog, crate):
    """An input counter given to the Bencher is installed whatever the mode: Bencher::input_counter hands its closure to
    CounterCollection::set_input_counter exactly once on every path (no test-mode or other short cut), and
    count_inputs_as reaches input_counter exactly once on every path."""
    from lib.patheval import PathEval
    n = 0
    for fn, callee, what in (("benchmark::Bencher::input_counter", "counter::collection::CounterCollection::set_input_counter", "installs the counter"),
                             ("benchmark::Bencher::count_inputs_as", "benchmark::Bencher::input_counter", "goes through input_counter")):
        for b in prog.find(fn, crate):
            if b.kind != "AssocFn":
                continue
            ctx.saw(b)
            n += 1
            sums = PathEval(b).run()
            short = fn.rsplit("::", 1)[-1]
            if not ctx.check(bool(sums), "R01.9", [short, "readable"], "cannot enumerate the paths of `%s`" % fn, b.where(0)):
                continue
            bad = [s for s in sums if len([c for c in s.calls if c[0] == callee]) != 1]
            ctx.check(not bad, "R01.9", [short, "on-every-path"],
                      "`%s` %s on %d of its %d paths only%s" % (fn, what, len(sums) - len(bad), len(sums),
                                                                 (" (skipped when %s)" % (bad[0].conds,)) if bad else ""), b.where(0))
            if fn.endswith("::input_counter"):
                for s in sums:
                    for c in s.calls:
                        if c[0] == callee:
                            ctx.check(len(c[1]) == 2 and c[1][1] == ("arg", 2, ()) and "counters" in str(c[1][0]) and "1" in str(c[1][0]), "R01.9", [short, "the-given-counter-into-own-context"],
                                      "input_counter installs %s" % (c[1],), b.where(c[2]))
    ctx.anchor("R01.9", "Bencher::input_counter / count_inputs_as", n, 2)


def r01_10(ctx, prog, crate):
    """Every input counter is shown values of the type it was registered for: counters are stored type-erased and called
    through an unchecked cast to the generator's item type, which is sound only because the input type of a Bencher is fixed
    once - `with_inputs` exists solely on the initial configuration (no generator type parameter in its receiver), so it
    cannot be called again after `input_counter` with a generator of another type."""
    import re as _re
    b = prog.body("benchmark::Bencher::with_inputs", crate)
    if not ctx.anchor("R01.10", "Bencher::with_inputs", 1 if b else 0, 1):
        return
    ctx.saw(b)
    ty = b.local_ty(1) or ""
    ok = bool(_re.match(r"^benchmark::Bencher<(\s*'[A-Za-z_0-9]+\s*,?)*>$", ty)) or ty == "benchmark::Bencher"
    ctx.check(ok, "R01.10", ["with_inputs", "only-on-the-initial-configuration"],
              "Bencher::with_inputs takes `%s`: it can be called on a Bencher that already has a generator (and input counters "
              "registered for its item type), which are then shown values of another type" % ty, b.where(0))


def r01_11(ctx, prog, crate):
    """Every registered input counter keeps being shown the inputs: count_inputs_as::<C>() installs a counter of C's own kind
    (the arm of KnownCounterKind::of::<C>() for kind K calls input_counter with the counter type named K + "Count"), so it
    can only replace a counter of that same kind - a crossed table files it under another kind's slot and silently evicts
    the input counter the user registered there."""
    from lib import tables as _t
    b = prog.body("benchmark::Bencher::count_inputs_as", crate)
    kinds = _t.variant_names(prog, "counter::any_counter::KnownCounterKind", crate)
    if not ctx.anchor("R01.11", "Bencher::count_inputs_as + KnownCounterKind", (1 if b else 0) + (1 if kinds else 0), 2):
        return
    ctx.saw(b)
    sws = [(sb, t) for sb, t in b.switches() if any(x.kind == "call" and x.a.endswith("KnownCounterKind::of") for x in b.prov.op_src(t["discr"]))]
    if not ctx.check(len(sws) == 1, "R01.11", ["count_inputs_as", "match-on-kind"], "switches on KnownCounterKind::of::<C>(): %d" % len(sws), b.where(0)):
        return
    sb, t = sws[0]
    seen = 0
    for val, tgt in t["arms"]:
        k = kinds[int(val)] if str(val).isdigit() and int(val) < len(kinds) else None
        calls = [c for c in b.live_calls() if c.callee.endswith("Bencher::input_counter") and b.dominates(tgt, c.bb)]
        if k is None or len(calls) != 1:
            ctx.fail("R01.11", ["count_inputs_as", str(k), "one-input_counter-call"], "arm %s installs %d counters" % (k, len(calls)), b.where(tgt))
            continue
        seen += 1
        tys = [g for g in (calls[0].gargs or []) if g.startswith("counter::") and g.endswith("Count")]
        ctx.check(tys == ["counter::%sCount" % k], "R01.11", ["count_inputs_as", k, "installs-its-own-kind"],
                  "for the kind %s, count_inputs_as installs a counter of type %s" % (k, tys), calls[0].line())
    ctx.check(seen == len(kinds), "R01.11", ["count_inputs_as", "every-kind"], "arms with a counter: %d of %d kinds" % (seen, len(kinds)), b.where(sb))


def run(ctx, prog, crate):
    r01_11(ctx, prog, crate)
    r01_10(ctx, prog, crate)
    r01_8(ctx, prog, crate)
    r01_9(ctx, prog, crate)
    rec = Recorder(prog, crate)
    if not ctx.anchor("R01.1", "sample recorder body", 1 if rec.body is not None else 0, 1):
        return
    ctx.saw(rec.body)
    if not ctx.anchor("R01.1", "recorder paths (zst, slots, inputs)", rec.paths, 3):
        return
    ctx.check(sorted(p.label for p in rec.paths) == ["inputs", "slots", "zst"], "R01.1", [rec.body.path, "path-labels"],
              "paths: %s" % sorted(p.label for p in rec.paths), rec.body.where(0))
    r01_1(ctx, prog, crate, rec)
    r01_2(ctx, prog, crate, rec)
    r01_3(ctx, prog, crate)
    r01_4(ctx, prog, crate, rec)
    r01_5(ctx, prog, crate, rec)
    r01_6(ctx, prog, crate)
    r01_7(ctx, prog, crate, rec)
