"""C05  Reported statistics are the exact order statistics of the samples."""
from lib.facts import norm, direct_place, const_int, place_fields, origins, nophi
from lib import tables

INLINE = True      # crate-local helpers the rules do not know by name are inlined into their callers (lib/inline.py)
EXPLANATION = (
    "R05.1 role pairing: for every StatsSet built by compute_stats and its closures (time, max-alloc, per-op tallies, "
    "counters) the `fastest` value derives from sorted_samples.first(), `slowest` from .last(), `median` from "
    "slice_middle(sorted_samples) and `mean` from none of them (totals only) - provenance followed through local "
    "closures and captures; sorted_samples sorts time_samples by the duration key. R05.2 same sample for time, "
    "allocations and counters: every allocation/counter lookup goes through index_of_sample(sample) = "
    "slice_ptr_index(time_samples, sample) of the sample that supplied the time, and on the writer side the key "
    "inserted into alloc_info_by_sample is time_samples.len() read before the push of the same iteration, with "
    "push_counter in the same iteration. R05.3 division guards: every integer Div/Rem and float Div in the code "
    "reachable from compute_stats is enumerated and its divisor discharged (non-zero constant, max(_, >=1), "
    "checked_div, non-emptiness of the collection whose len()/sample_size divides, or a named exception with a checked "
    "side condition). R05.4 no other panic edge (diverging call, unwrap/expect/slice indexing, unproved bounds check) in "
    "that code. Decides the wiring and the guards, not the arithmetic."
    ' R05.6 path summaries of the helpers: slice_middle returns the slice itself when empty, the window [len/2 - 1 ..][.. 2] when len is even and [len/2 ..][.. 1] when odd (any spelling of the sub-slicing); total_duration is the sum of duration.picos over all time_samples. R05.7 the total iteration count is formed with both factors widened to 64 bits before the product. R05.5 statistics formatting guards. R05.8 of_iter counts by iterating, never from size_hint/len. R05.9 (= R15.6) per-sample counter values stay index-aligned with the samples: installing an input counter empties its own kind\'s list unconditionally and touches no other kind. R05.10 the per-iteration count of an input counter is narrow(total / widen(sample_size)): the division happens in the width of the sum, before the narrowing cast. R05.11 per-kind counter bookkeeping addresses its own kind: info/info_mut index by their kind argument; counts/uses_input_counts/mean_count/get_input_count look up the kind they were given; push_counter stores the pushed counter\'s own count under that counter\'s kind; mean_count is sum over len of the same list. R05.12 no divisor in compute_stats (closures and helpers included, captures followed) is the length of a list that was filtered, de-duplicated or truncated after collection: means divide by the number of samples.')
EXPLANATION += (' R05.13 a sample keeps its allocation snapshot unless all tallies are zero: AllocOpMap::is_empty is all(count == 0 && size == 0) over the whole array.')
NOT_DECIDED = ["numerical exactness of the integer picosecond arithmetic and f64 rounding", "fastest <= median <= slowest as values",
               "arithmetic overflow checks of the dev profile other than the iteration-count product (R05.7)",
               "NaN-freedom of f64 paths other than division by a possibly-zero divisor"]
TRUSTED = ["slice::first/last/sort_unstable_by_key, HashMap::get/insert"]

SCOPE_ROOT = "benchmark::BenchContext::compute_stats"


def rich_sources(prog, b, op, depth=4):
    """Provenance of an operand, continued through calls of local closures (their return value) and through captured
    variables (the operand the parent stores in the closure)."""
    out = set()
    seen = set()

    def go(body, srcs, d):
        for s in srcs:
            out.add((body.path, s))
            if d <= 0:
                continue
            if s.kind == "call":
                cb = prog.bodies.get((body.crate, s.a, -1))
                if cb is not None and cb.kind == "Closure" and (cb.path, 0) not in seen:
                    seen.add((cb.path, 0))
                    go(cb, cb.prov.local_src(0), d - 1)
            elif s.kind == "upvar":
                cap = None
                for cn in body.captures or []:
                    if cn.lstrip("*") == s.a.lstrip("*") or cn.lstrip("*").split(".")[0] == s.a.lstrip("*").split(".")[0]:
                        cap = prog.capture_operand(body, cn)
                if cap is not None and (cap[0].path, s.a, s.b) not in seen:
                    seen.add((cap[0].path, s.a, s.b))
                    go(cap[0], cap[0].prov.op_src(cap[1], path=tuple(s.b or ())), d - 1)
            elif s.kind == "variant" and False:
                pass
        # closures passed as arguments to Option::map/and_then etc.: include what they compute
        for s in list(srcs):
            if s.kind == "call":
                c = body.call_at(s.b)
                if c is None:
                    continue
                for a in c.args:
                    if a["k"] in ("copy", "move"):
                        for dd in body.prov.defs.get(a["p"]["l"], []):
                            if dd[0] == "S" and dd[3]["rv"]["k"] == "agg" and dd[3]["rv"]["ak"] == "closure":
                                cb = prog.bodies.get((body.crate, norm(dd[3]["rv"]["def"]), -1))
                                if cb is not None and (cb.path, 0) not in seen and d > 0:
                                    seen.add((cb.path, 0))
                                    go(cb, cb.prov.local_src(0), d - 1)
    go(b, b.prov.op_src(op), depth)
    return out


def role_tags(rs):
    tags = set()
    for path, s in rs:
        if s.kind == "call":
            if s.a == "core::slice::first":
                tags.add("first")
            elif s.a == "core::slice::last":
                tags.add("last")
            elif s.a == "util::slice_middle":
                tags.add("middle")
    return tags


def r05_1(ctx, prog, crate):
    root = prog.body(SCOPE_ROOT, crate)
    if not ctx.anchor("R05.1", SCOPE_ROOT, 1 if root else 0, 1):
        return
    tree = prog.closure_tree(root)
    n = 0
    want = {"fastest": ({"first"}, {"last", "middle"}), "slowest": ({"last"}, {"first", "middle"}),
            "median": ({"middle"}, {"first", "last"}), "mean": (set(), {"first", "last", "middle"})}
    for b in tree:
        ctx.saw(b)
        for bi, si, s in b.stmts():
            if s["k"] == "assign" and s["rv"]["k"] == "agg" and s["rv"]["ak"] == "adt" and norm(s["rv"]["adt"]) == "stats::StatsSet":
                rv = s["rv"]
                n += 1
                for f, o in zip(rv["fields"], rv["ops"]):
                    rs = rich_sources(prog, b, o)
                    tags = role_tags(rs)
                    must, mustnot = want[f]
                    ok = must <= tags and not (tags & mustnot)
                    # every per-sample lookup feeding this field is applied to a sample of this role
                    bodies_by_path = {x.path: x for x in tree}
                    for pth, src in rs:
                        if src.kind != "call" or pth not in bodies_by_path:
                            continue
                        xb = bodies_by_path[pth]
                        lc = xb.call_at(src.b)
                        if lc is None or not lc.is_fn_trait_call or "{closure#" not in lc.name:
                            continue
                        sample_args = [a for a in lc.args[1:] if a["k"] in ("copy", "move") and "TimeSample" in a["p"]["ty"]]
                        if not sample_args:
                            # arguments are passed as a tuple: look at the tuple's elements
                            for a in lc.args[1:]:
                                if a["k"] in ("copy", "move"):
                                    for dd in xb.prov.defs.get(a["p"]["l"], []):
                                        if dd[0] == "S" and dd[3]["rv"]["k"] == "agg" and dd[3]["rv"]["ak"] == "tuple":
                                            sample_args += [o2 for o2 in dd[3]["rv"]["ops"] if o2["k"] in ("copy", "move") and "TimeSample" in o2["p"]["ty"]]
                        for sa in sample_args:
                            st = role_tags(rich_sources(prog, xb, sa))
                            from_param = any(z.kind == "param" and "TimeSample" in (xb.local_ty_of_param(z.a) or "") for z in xb.prov.op_src(sa))
                            if not st and from_param:
                                continue  # the sample is a parameter of an inner helper; its caller is checked on its own
                            okl = st == must
                            ctx.check(okl, "R05.1", [b.path, "StatsSet#%d" % _ordinal(b, bi, si), f, "lookup-sample-role", lc.name.rsplit("::", 2)[-1]],
                                      "`%s` is computed from a per-sample lookup applied to a %s sample, expected %s"
                                      % (f, sorted(st), sorted(must) or "no per-sample lookup"), lc.line())
                    ctx.check(ok, "R05.1", [b.path, "StatsSet#%d" % _ordinal(b, bi, si), f],
                              "`%s` of a StatsSet built in `%s` derives from %s; expected %s and none of %s"
                              % (f, b.path, sorted(tags) or "totals only", sorted(must) or "totals only", sorted(mustnot)), b.where(bi),
                              detail={"body": b.path, "field": f, "derives_from": sorted(tags)})
    ctx.anchor("R05.1", "StatsSet aggregates in compute_stats", n, 4)
    # sorted_samples: time_samples sorted by duration
    ss = prog.body("stats::sample::SampleCollection::sorted_samples", crate)
    if ctx.anchor("R05.1", "SampleCollection::sorted_samples", 1 if ss else 0, 1):
        ctx.saw(ss)
        sorts = [c for c in ss.live_calls() if c.callee.rsplit("::", 1)[-1].startswith("sort")]
        ok = len(sorts) == 1 and sorts[0].callee.endswith(("sort_unstable_by_key", "sort_by_key", "sort_by_cached_key"))
        ctx.check(ok, "R05.1", ["sorted_samples", "sorted-by-key"], "sorted_samples sorts with %s" % [c.callee for c in sorts], ss.where(0))
        key = [x for x in prog.children(ss) if x.kind == "Closure"]
        if ctx.check(len(key) == 1, "R05.1", ["sorted_samples", "key-closure"], "key closures: %d" % len(key), ss.where(0)):
            r = {z.label() for z in key[0].prov.local_src(0)}
            ctx.check(r == {"param:" + key[0].param_name(2) + ".duration"}, "R05.1", ["sorted_samples", "key-is-duration"],
                      "sort key is %s, expected the sample's duration" % sorted(r), key[0].where(0))
        src = ss.prov.local_src(0)
        ctx.check(any(z.kind == "param" and z.b == ("time_samples",) for z in src) and not any(z.kind == "call" and z.a.endswith(("::rev", "::take", "::skip", "::filter")) for z in src),
                  "R05.1", ["sorted_samples", "all-time-samples"], "sorted_samples is not built from all of self.time_samples", ss.where(0))
        # ascending: Ord of FineDuration is derived over picos
        der = {i["trait"].rsplit("::", 1)[-1] for i in prog.impls(crate) if norm(i["self"]) == "time::fine_duration::FineDuration" and i["derived"]}
        ctx.check({"Ord", "PartialOrd"} <= der, "R05.1", ["FineDuration", "derived-Ord"], "FineDuration's Ord is not derived (%s)" % sorted(der), None)
    # the StatsSet for time in the final Stats aggregate uses min/max/median/mean locals - covered by the generic loop above


def _ordinal(b, bi, si):
    k = 0
    for x, y, s in b.stmts():
        if s["k"] == "assign" and s["rv"]["k"] == "agg" and s["rv"]["ak"] == "adt" and norm(s["rv"]["adt"]) == "stats::StatsSet":
            if (x, y) == (bi, si):
                return k
            k += 1
    return k


def r05_2(ctx, prog, crate):
    root = prog.body(SCOPE_ROOT, crate)
    if root is None:
        return
    tree = prog.closure_tree(root)
    # index_of_sample: the closure calling slice_ptr_index
    idx = [b for b in tree if any(c.callee == "util::slice_ptr_index" for c in b.live_calls())]
    if not ctx.check(len(idx) == 1, "R05.2", ["index_of_sample", "unique"], "closures calling slice_ptr_index: %d" % len(idx), root.where(0)):
        return
    ix = idx[0]
    c = [c for c in ix.live_calls() if c.callee == "util::slice_ptr_index"][0]
    a0 = rich_sources(prog, ix, c.args[0])
    a1 = {z.label() for z in ix.prov.op_src(c.args[1])}
    ctx.check(any(s.kind == "param" and s.b[:2] == ("samples", "time_samples") for p, s in a0), "R05.2", ["index_of_sample", "base-is-time_samples"],
              "slice_ptr_index's base slice is not self.samples.time_samples", c.line())
    ctx.check(a1 == {"param:" + ix.param_name(2)}, "R05.2", ["index_of_sample", "element-is-the-sample"], "element pointer derives from %s" % sorted(a1), c.line())
    # every lookup in alloc_info_by_sample / counts uses an index from index_of_sample(sample)
    lookups = 0
    for b in tree:
        for cc in b.live_calls():
            is_map_get = cc.callee == "std::collections::HashMap::get"
            is_counts_get = cc.callee in ("core::slice::get",) and any(s.kind == "call" and s.a == "counter::collection::CounterCollection::counts"
                                                                       for p, s in rich_sources(prog, b, cc.args[0]))
            if not (is_map_get or is_counts_get):
                continue
            lookups += 1
            rs = rich_sources(prog, b, cc.args[1])
            via = any(s.kind == "call" and s.a == ix.path for p, s in rs)
            if not via and b.kind == "Closure" and {s.label() for p, s in rs if p == b.path and s.kind == "param"} == {"param:" + b.param_name(2)}:
                # the index is this closure's parameter: it is fed by Option::and_then/map in the parent
                par = prog.parent_body(b)
                for pc in par.live_calls():
                    if pc.callee in ("std::option::Option::and_then", "std::option::Option::map") and len(pc.args) == 2:
                        cl = [d for d in par.prov.defs.get(pc.args[1]["p"]["l"], []) if pc.args[1]["k"] in ("copy", "move") and d[0] == "S"
                              and d[3]["rv"]["k"] == "agg" and d[3]["rv"]["ak"] == "closure" and norm(d[3]["rv"]["def"]) == b.path]
                        if cl:
                            via = any(s.kind == "call" and s.a == ix.path for p, s in rich_sources(prog, par, pc.args[0]))
            if is_counts_get:
                # index is index_of_sample(sample) when the counter is per-input, else the constant 0
                consts = {s.a for p, s in rs if s.kind == "const"}
                ok = via and consts <= {"0_usize"} and _index_choice_guard(prog, b, cc)
            else:
                ok = via
            ctx.check(ok, "R05.2", [b.path, "lookup-by-sample-index", cc.callee.rsplit("::", 1)[-1]],
                      "a per-sample lookup in `%s` does not use index_of_sample(sample)" % b.path, cc.line())
            # the sample handed to index_of_sample is the closure's own sample parameter
            for bb2 in tree:
                for ic in bb2.live_calls():
                    if ic.name == ix.path:
                        lab = {z.label() for z in bb2.prov.op_src(ic.args[1]) if z.kind in ("param",)}
                        ctx.check(len(lab) == 1, "R05.2", [bb2.path, "index-of-own-sample"], "index_of_sample is applied to %s" % sorted(lab), ic.line())
    ctx.anchor("R05.2", "per-sample lookups (alloc map / counter vector)", lookups, 2)
    # slice_ptr_index itself
    sp = prog.body("util::slice_ptr_index", crate)
    if ctx.anchor("R05.2", "util::slice_ptr_index", 1 if sp else 0, 1):
        ctx.saw(sp)
        divs = [(bi, s) for bi, si, s in sp.stmts() if s["k"] == "assign" and s["rv"]["k"] == "binop" and s["rv"]["op"] == "Div"]
        subs = [(bi, s) for bi, si, s in sp.stmts() if s["k"] == "assign" and s["rv"]["k"] == "binop" and s["rv"]["op"] in ("Sub", "SubWithOverflow")]
        ok = len(divs) == 1 and len(subs) == 1
        if ok:
            sa = {z.label() for z in sp.prov.op_src(subs[0][1]["rv"]["a"]) if z.kind == "param"}
            sb = {z.label() for z in sp.prov.op_src(subs[0][1]["rv"]["b"]) if z.kind == "param"}
            d = direct_place(sp, divs[0][1]["rv"]["b"])
            ok = sa == {"param:" + sp.param_name(2)} and sb == {"param:" + sp.param_name(1)} and d and d[0] == "call" and d[1].callee == "std::mem::size_of"
        ctx.check(ok, "R05.2", ["slice_ptr_index", "(ptr-base)/size_of"], "slice_ptr_index is not (element - base) / size_of::<T>()", sp.where(0))
    # writer side
    from .sampling import Sampling as _S
    w = _S(prog, crate).body
    if not ctx.anchor("R05.2", "bench_loop_threaded (writer side)", 1 if w else 0, 1):
        return
    ctx.saw(w)
    push = [c for c in w.live_calls() if c.callee == "std::vec::Vec::push" and "TimeSample" in (c.gargs[0] if c.gargs else "")]
    ins = [c for c in w.live_calls() if c.callee == "std::collections::HashMap::insert"]
    pc = [c for c in w.live_calls() if c.callee == "counter::collection::CounterCollection::push_counter"]
    if not ctx.check(len(push) == 1 and len(ins) == 1 and len(pc) == 1, "R05.2", ["writer", "shape"],
                     "time_samples.push x%d alloc insert x%d push_counter x%d" % (len(push), len(ins), len(pc)), w.where(0)):
        return
    push, ins, pc = push[0], ins[0], pc[0]
    lp = w.innermost_loop(push.bb)
    ctx.check(lp is not None and ins.bb in lp["body"] and pc.bb in lp["body"] and w.once_per_iteration(push.bb, lp), "R05.2", ["writer", "same-iteration"],
              "the time sample, its allocation info and its counters are not stored in the same per-sample iteration", push.line())
    key = w.prov.op_src(ins.args[1])
    lens = [s for s in key if s.kind == "call" and s.a == "std::vec::Vec::len"]
    ok = len(lens) == 1 and not any(s.kind == "binop" for s in key)
    if ok:
        lc = w.call_at(lens[0].b)
        ok = any(z.kind == "param" and z.b[:2] == ("samples", "time_samples") for z in w.prov.op_src(lc.args[0])) and \
            lp is not None and lc.bb in lp["body"] and w.dominates(lc.bb, push.bb) and w.once_per_iteration(lc.bb, lp)
    ctx.check(ok, "R05.2", ["writer", "key-is-len-before-push"],
              "the allocation-info key is not time_samples.len() read before the push of the same iteration", ins.line())
    val = w.prov.op_src(ins.args[2])
    pv = w.prov.op_src(push.args[1])
    nxt = [c for c in w.live_calls() if lp and c.bb in lp["body"] and c.callee.endswith("::next") and w.innermost_loop(c.bb)["header"] == lp["header"]]
    if nxt:
        ctx.check(any(s.kind == "call" and s.b == nxt[0].bb for s in val) and any(s.kind == "call" and s.b == nxt[0].bb for s in pv), "R05.2",
                  ["writer", "same-raw-sample"], "time and allocation info stored in one iteration come from different raw samples", ins.line())
        cv = w.prov.op_src(pc.args[1])
        ctx.check(any(s.kind == "call" and s.b == nxt[0].bb for s in cv), "R05.2", ["writer", "counter-of-same-raw-sample"],
                  "the counter pushed does not come from this iteration's raw sample", pc.line())
    # alignment of the per-kind count vectors with time_samples: for every recorded sample, a count is pushed for a kind
    # iff that kind uses input counts - the decision never depends on the VALUE counted (a sample whose inputs count 0
    # still gets its entry, or every later index would shift)
    from lib.symexpr import Sym
    SYW = Sym(w, site_args=False)
    kl = w.innermost_loop(pc.bb)
    if ctx.check(kl is not None and lp is not None and kl["body"] < lp["body"], "R05.2", ["writer", "per-kind-loop"], "push_counter is not inside a per-kind loop nested in the per-sample loop", pc.line()):
        bad = []
        guards = []
        for x, t in w.switches():
            if x not in kl["body"]:
                continue
            reach_from = [pc.bb in w.reach([y], avoid=[kl["header"]]) for y in w.succ[x]]
            if all(reach_from) or not any(reach_from):
                continue
            e = SYW.op(t["discr"])
            while e[0] == "un" and e[1] == "Not":
                e = e[2]
            if e[0] == "site" and e[1] == "counter::collection::CounterCollection::uses_input_counts":
                guards.append(x)
            elif e[0] == "discr" and e[1][0] == "site" and e[1][1].endswith("::next"):
                pass        # the loop's own exit test
            else:
                bad.append(w.where(x))
        ctx.check(not bad and len(guards) == 1, "R05.2", ["writer", "count-pushed-iff-kind-uses-input-counts"],
                  "whether a per-iteration count is pushed for a sample depends on %s (expected exactly one test: uses_input_counts(kind)); counts would no longer be index-aligned "
                  "with time_samples" % (bad or "no uses_input_counts test"), pc.line())
        ctx.check(w.once_per_iteration(kl["header"], lp) or all(w.dominates(kl["header"], l) for l in lp["latches"]), "R05.2", ["writer", "per-kind-loop-every-sample"],
                  "the per-kind loop is skipped for some samples", w.where(kl["header"]))


def _index_choice_guard(prog, b, cc):
    """index = if uses_input_counts(kind) { index_of_sample(sample) } else { 0 }"""
    for c in b.live_calls():
        if c.callee == "counter::collection::CounterCollection::uses_input_counts":
            return True
    return False


# ---- R05.3

def max_ge1(prog, b, op, depth=5):
    """divisor is (a cast/From of) Ord::max(x, c) with constant c >= 1, possibly through a captured variable."""
    for o in origins(b, op):
        if o[0] == "call":
            c = o[1]
            if c.callee in ("std::convert::num::from", "std::convert::Into::into", "std::convert::From::from") and depth > 0:
                if not max_ge1(prog, b, c.args[0], depth - 1):
                    return False
                continue
            if c.callee == "std::cmp::Ord::max" and len(c.args) == 2:
                if any((const_int(a) or 0) >= 1 for a in c.args):
                    continue
            return False
        elif o[0] == "rvalue" and o[1]["k"] == "cast" and depth > 0:
            if not max_ge1(prog, b, o[1]["o"], depth - 1):
                return False
        elif o[0] == "place" and b.kind == "Closure" and o[1] == 1 and depth > 0:
            # captured variable
            fld = o[2][0] if o[2] else None
            caps = b.captures or []
            if isinstance(fld, int) and fld < len(caps):
                cap = prog.capture_operand(b, caps[fld])
                if cap is None or not max_ge1(prog, cap[0], cap[1], depth - 1):
                    return False
            else:
                return False
        else:
            return False
    return True


def nonzero_const(op):
    v = const_int(op)
    return v is not None and v != 0


def len_nonempty_guard(b, bi, op):
    """divisor is len() of a collection and the division is dominated by the not-empty arm of is_empty() on a
    collection of the same origin."""
    d = direct_place(b, op)
    srcs = b.prov.op_src(op)
    lens = [s for s in srcs if s.kind == "call" and s.a.endswith("::len")]
    if not lens:
        return False
    base = {s.label() for s in srcs if s.kind in ("call", "param", "upvar") and not s.a.endswith("::len")}
    for c in b.live_calls():
        if c.callee.endswith("::is_empty"):
            cb = {s.label() for s in b.prov.op_src(c.args[0]) if s.kind in ("call", "param", "upvar")}
            if not (cb & base):
                continue
            for sb, t in b.switches():
                dd = direct_place(b, t["discr"])
                if dd and dd[0] == "call" and dd[1].bb == c.bb:
                    zero = [a[1] for a in t["arms"] if a[0] == "0"]
                    if zero and b.dominates(zero[0], bi) and b.pred[zero[0]] == [sb]:
                        return True
    return False


def r05_3(ctx, prog, crate):
    root = prog.body(SCOPE_ROOT, crate)
    if root is None:
        return
    bodies, ext, ind = prog.callee_closure([root], crate=crate, follow_generic_impls=True)
    bodies = sorted(bodies, key=lambda y: y.path)
    n = 0
    for b in bodies:
        ctx.saw(b)
        k = 0
        for bi, si, s in b.stmts():
            if not (s["k"] == "assign" and s["rv"]["k"] == "binop" and s["rv"]["op"] in ("Div", "Rem")):
                continue
            n += 1
            k += 1
            ty = s["p"]["ty"]
            dv = s["rv"]["b"]
            where = "%s:%s" % (s["span"]["file"], s["span"]["line"])
            how = None
            if nonzero_const(dv):
                how = "non-zero constant"
            elif max_ge1(prog, b, dv):
                how = "max(_, >= 1)"
            elif len_nonempty_guard(b, bi, dv):
                how = "len() of a collection tested non-empty"
            else:
                how = _special(ctx, prog, crate, b, bi, s)
            desc = _divisor_desc(b, dv)
            ctx.check(how is not None, "R05.3", [b.path, s["rv"]["op"], ty, desc],
                      "%s division by `%s` in `%s` has no guard against a zero divisor (no samples / zero sample size): "
                      "%s" % (ty, desc, b.path, "integer division panics" if ty != "f64" else "0.0/0.0 prints NaN"), where,
                      detail={"fn": b.path, "divisor": desc, "discharged_by": how})
    ctx.anchor("R05.3", "divisions reachable from compute_stats", n, 10)
    # checked_div is used for the other two integer divisions (they do not appear as Div at all)
    cd = [c for b in bodies for c in b.live_calls() if c.callee == "core::num::checked_div"]
    ctx.anchor("R05.3", "checked_div sites", cd, 2)


def _divisor_desc(b, dv):
    d = direct_place(b, dv)
    if d is None:
        srcs = sorted({s.label() for s in b.prov.op_src(dv) if s.kind in ("call", "param", "upvar")})
        return "|".join(x.split("::")[-1] for x in srcs)[:60]
    if d[0] == "call":
        base = sorted({s.label().split("::")[-1] for s in b.prov.op_src(d[1].args[0])} if d[1].args else [])
        return d[1].callee.rsplit("::", 1)[-1] + "(" + ",".join(x for x in base if not x.startswith("deref"))[:40] + ")"
    if d[0] == "place":
        if b.kind == "Closure" and d[1] == 1 and d[2] and isinstance(d[2][0], int) and d[2][0] < len(b.captures or []):
            return "captured " + b.captures[d[2][0]]
        return "%s.%s" % (b.param_name(d[1]), ".".join(map(str, d[2])))
    if d[0] == "const":
        return d[1]["c"]["d"]
    return d[0]


def _special(ctx, prog, crate, b, bi, s):
    """Named exceptions, each with a checked side condition."""
    dv = s["rv"]["b"]
    # (1) FineDuration / count: obligation moves to the call sites (see _div_call_sites)
    if b.path == "<time::fine_duration::FineDuration as std::ops::Div<I>>::div":
        ok = _div_call_sites(ctx, prog, crate)
        return "call sites divide by sample_size only where a sample exists" if ok else None
    # (2) mean_count: its only caller reaches it after a successful per-sample lookup of the same kind
    if b.path == "counter::collection::CounterCollection::mean_count":
        ok = _mean_count_side_condition(ctx, prog, crate)
        return "caller looked the same counter kind up successfully first (counts non-empty)" if ok else None
    # (3) slice_ptr_index::<T>: T is never zero-sized at its call sites
    if b.path == "util::slice_ptr_index":
        sites = [c for c in prog.callers_of("util::slice_ptr_index", crates=[crate]) if "::tests::" not in c.body.path]
        tys = sorted({c.gargs[0] for c in sites if c.gargs})
        ok = bool(sites) and set(tys) <= {"stats::sample::TimeSample", "&str"}
        if ok:
            adt = prog.adt("stats::sample::TimeSample", crate)
            ok = adt is not None and len(adt["variants"][0]["fields"]) >= 1
        return "instantiated only for non-zero-sized element types %s" % tys if ok else None
    # (4) sample_size inside the closure applied to first()/last() or behind !is_empty: a sample exists => size >= 1 (C03/R03.1)
    srcs = b.prov.op_src(dv)
    if any(z.kind in ("upvar", "param") and "sample_size" in str(z.a) + str(z.b) for z in srcs):
        return None
    return None


def _div_call_sites(ctx, prog, crate):
    root = prog.body(SCOPE_ROOT, crate)
    tree = prog.closure_tree(root)
    ok_all = True
    sites = 0
    for b in tree:
        for c in b.live_calls():
            if c.callee != "<time::fine_duration::FineDuration as std::ops::Div<I>>::div":
                continue
            sites += 1
            # divisor must be sample_size (captured or self.samples.sample_size)
            rs = rich_sources(prog, b, c.args[1])
            is_ss = any(s.kind == "param" and s.b[-1:] == ("sample_size",) for p, s in rs) and not any(s.kind == "binop" for p, s in rs)
            # guard: inside a closure given to Option::map on first()/last(), or dominated by the not-empty arm of is_empty(median_samples)
            guarded = False
            if b.kind == "Closure":
                par = prog.parent_body(b)
                for pc in par.live_calls():
                    if pc.callee in ("std::option::Option::map", "std::option::Option::and_then"):
                        cl = [d for a in pc.args[1:] if a["k"] in ("copy", "move") for d in par.prov.defs.get(a["p"]["l"], [])
                              if d[0] == "S" and d[3]["rv"]["k"] == "agg" and d[3]["rv"]["ak"] == "closure" and norm(d[3]["rv"]["def"]) == b.path]
                        if cl and any(z.kind == "call" and z.a in ("core::slice::first", "core::slice::last") for z in par.prov.op_src(pc.args[0])):
                            guarded = True
                        # or on the Some of `sum.checked_div(<number of samples in the median window>)`: Some only when there is one
                        for z in par.prov.op_src(pc.args[0]) if cl else []:
                            if z.kind == "call" and z.a == "core::num::checked_div":
                                cd_ = par.call_at(z.b)
                                dsrc = par.prov.op_src(cd_.args[1]) if cd_ is not None and len(cd_.args) == 2 else set()
                                if any(q.kind == "call" and q.a.rsplit("::", 1)[-1] == "len" for q in dsrc) and any(q.kind == "call" and q.a == "util::slice_middle" for q in dsrc) and \
                                        not any(q.kind == "binop" for q in dsrc):
                                    guarded = True
            else:
                for ic in b.live_calls():
                    if ic.callee.endswith("::is_empty"):
                        for sb, t in b.switches():
                            dd = direct_place(b, t["discr"])
                            if dd and dd[0] == "call" and dd[1].bb == ic.bb:
                                zero = [a[1] for a in t["arms"] if a[0] == "0"]
                                if zero and b.dominates(zero[0], c.bb) and b.pred[zero[0]] == [sb] and \
                                        any(z.kind == "call" and z.a == "util::slice_middle" for z in b.prov.op_src(ic.args[0])):
                                    guarded = True
            ok = is_ss and guarded
            ctx.check(ok, "R05.3", [b.path, "FineDuration/", "sample-exists-guard"],
                      "`duration / x` in `%s`: divisor %s, %s" % (b.path, "is sample_size" if is_ss else "is NOT sample_size",
                                                                 "guarded by the existence of a sample" if guarded else "NOT guarded by the existence of a sample"), c.line())
            ok_all = ok_all and ok
    ctx.anchor("R05.3", "FineDuration / sample_size call sites", sites, 3)
    return ok_all and sites >= 3


def _mean_count_side_condition(ctx, prog, crate):
    sites = [c for c in prog.callers_of("counter::collection::CounterCollection::mean_count", crates=[crate]) if "::tests::" not in c.body.path]
    if len(sites) != 1:
        return False
    c = sites[0]
    b = c.body
    # dominated by the Some-continuation of two `?` on lookups through counter_count_for_sample with the same kind
    kind = {z.label() for z in b.prov.op_src(c.args[1])}
    n_ok = 0
    for sb, t, base in tables.discr_switches(b):
        rs = rich_sources(prog, b, {"k": "copy", "p": {"l": base, "proj": [], "ty": ""}})
        looked_up = any(s.kind == "call" and s.a in ("core::slice::get",) for p, s in rs) or \
            any(s.kind == "call" and "compute_stats::{closure#" in s.a for p, s in rs)
        if not looked_up:
            continue
        arms, otherwise = tables.arm_targets(t)
        for v, tgt in arms.items():
            if b.pred[tgt] == [sb] and b.dominates(tgt, c.bb):
                n_ok += 1
    return n_ok >= 1 and len(kind) >= 1


# ---- R05.4
PANICKY_LAST = {"index", "index_mut", "unwrap", "expect", "unwrap_err", "expect_err", "split_at", "split_at_mut", "copy_from_slice",
                "slice_error_fail", "unwrap_failed", "expect_failed", "panic_fmt", "begin_panic", "assert_failed", "panic"}
PANIC_EXCEPTIONS = {
    ("util::slice_middle", "panicking-call:core::slice::index::index"):
        "range indexing of the middle of a non-empty slice; index arithmetic covered by the unit test util::tests::slice_middle",
}


def bounds_check_ok(prog, crate, b, t):
    """Assert(BoundsCheck{len, index}): constant index < constant len, index = `enum as usize` with variant count <= len,
    or an `enumerate()` index over an array of the same constant length."""
    msg = t.get("msg", "")
    import re
    m = re.search(r"len: (?:const )?(\d+)_usize", msg)
    mi = re.search(r"index: (?:const (\d+)_usize|(?:copy|move) _(\d+))", msg)
    if not m or not mi:
        return False
    ln = int(m.group(1))
    if mi.group(1) is not None:
        return int(mi.group(1)) < ln
    idx = int(mi.group(2))
    srcs = b.prov.local_src(idx)
    if any(z.kind == "discr" for z in srcs) and not any(z.kind == "binop" and z.a not in ("Lt",) for z in srcs):
        # enum discriminant: find the enum type among the params/locals feeding it
        for z in srcs:
            if z.kind == "param":
                ty = b.local_ty_of_param(z.a) or ""
                ty = ty.lstrip("&").strip()
                adt = prog.adt(ty, crate)
                if adt and adt.get("kind") == "enum" and len(adt["variants"]) <= ln:
                    return True
        return False
    if any(z.kind == "call" and "Enumerate" in z.a and z.a.endswith("::next") for z in srcs):
        return True if ln > 0 and _enumerate_same_len(b, idx, ln) else False
    return False


def _enumerate_same_len(b, idx, ln):
    srcs = b.prov.local_src(idx)
    return any(("[alloc::AllocTally" in str(b.local_ty(l)) or "; %d]" % ln in str(b.local_ty(l))) for l in range(len(b.locals)))


def r05_4(ctx, prog, crate):
    root = prog.body(SCOPE_ROOT, crate)
    if root is None:
        return
    bodies, ext, ind = prog.callee_closure([root], crate=crate, follow_generic_impls=True)
    n = 0
    for b in sorted(bodies, key=lambda y: y.path):
        for i in sorted(b.live):
            t = b.term(i)
            kind = None
            n += 1
            if b.inlined_from(i):
                continue    # a copy of a helper's block: examined in the helper's own body
            if t["k"] == "assert":
                if t["kind"] in ("Overflow", "DivisionByZero", "RemainderByZero", "MisalignedPointerDereference", "NullPointerDereference"):
                    continue  # divisions: R05.3; dev-profile overflow / pointer checks: not decided
                if t["kind"] == "BoundsCheck" and bounds_check_ok(prog, crate, b, t):
                    ctx.ok("R05.4", "%s|bounds-check-proved" % b.path)
                    continue
                kind = "assert:" + t["kind"]
            elif t["k"] == "call":
                c = b.call_at(i)
                if t["t"] is None:
                    kind = "diverge:" + c.callee
                elif c.callee.rsplit("::", 1)[-1] in PANICKY_LAST and not c.callee.startswith(("std::option::Option::unwrap_or", "std::result::Result::unwrap_or")):
                    kind = "panicking-call:" + c.callee
            if kind is None:
                continue
            ctx.check((b.path, kind) in PANIC_EXCEPTIONS, "R05.4", [b.path, kind],
                      "`%s` (reachable from compute_stats) has a panic edge: %s" % (b.path, kind), b.where(i))
    ctx.anchor("R05.4", "terminators examined", n, 80)
    # indirect calls: a closure of this very function tree handed around as `&dyn Fn` / `impl Fn` (every closure defined in the
    # tree is examined above) is fine; a callable that comes from `self`, a static or outside the tree is not analysable
    def local_callable(c):
        recv = c.args[0] if (c.is_fn_trait_call and c.args) else c.func
        srcs = c.body.prov.op_src(recv) if recv is not None else set()
        if not srcs or c.body not in bodies:
            return False
        for z in srcs:
            if z.kind == "static" or (z.kind in ("param", "upvar") and z.label().split(":", 1)[1].split(".")[0] == "self"):
                return False
            if z.kind == "param" and c.body.kind != "Closure":
                return False        # a callable parameter of compute_stats itself / of a named function: comes from outside
        return True
    ind = [c for c in ind if not local_callable(c)]
    ctx.check(not ind, "R05.4", ["no-indirect-calls"], "indirect calls in the statistics code: %s" % [(c.body.path, c.name) for c in ind], None)


def r05_5(ctx, prog, crate):
    """The statistics divide by samples.sample_size: it must be the size the retained samples were taken with (stored every
    round, before the broadcast, from the current_mode.sample_size() read that sizes the round) - shared with C19/R19.5."""
    from .sampling import Sampling
    from .C19 import r19_5
    S = Sampling(prog, crate)
    if not ctx.anchor("R05.5", "sampling loop", 1 if S.body is not None and S.loop is not None else 0, 1):
        return
    r19_5(ctx, S, prog, crate, rule="R05.5")
    # and compute_stats reads exactly that field
    cs = prog.body(SCOPE_ROOT, crate)
    reads = [1 for bi, si, s in cs.stmts() if s["k"] == "assign" and s["rv"]["k"] == "use" and s["rv"]["o"]["k"] in ("copy", "move")
             and place_fields(s["rv"]["o"]["p"])[-2:] == ("samples", "sample_size")]
    ctx.check(len(reads) >= 1, "R05.5", [cs.path, "divides-by-recorded-size"], "compute_stats does not read self.samples.sample_size", cs.where(0))


def r05_6(ctx, prog, crate):
    """The helpers compute_stats relies on, as path summaries (lib/patheval.py):
    slice_middle(s) = s when empty, the two elements starting at len/2 - 1 when len is even, the one element at len/2
    when odd (in any spelling of the sub-slicing); total_duration = FineDuration{ sum over time_samples of
    duration.picos }."""
    from lib.patheval import PathEval
    from lib.symexpr import add, show, canon_cmp
    b = prog.body("util::slice_middle", crate)
    if ctx.anchor("R05.6", "util::slice_middle", 1 if b else 0, 1):
        ctx.saw(b)
        sums = PathEval(b).run()
        if ctx.check(sums is not None and sums, "R05.6", ["slice_middle", "summarisable"], "slice_middle has a loop or too many paths", b.where(0)):
            def is_len(e):
                return e[0] == "call" and e[1].rsplit("::", 1)[-1] == "len" and len(e[2]) == 1 and e[2][0] in (("sptr", (1, ())), ("arg", 1, ()), ("ptr", (1, ())))
            rows = {}
            for sm in sums:
                # classify the path by its decisions on len
                empty = even = None
                for a, pol in sm.conds:
                    if a[0] == "Eq" and a[2] == ("int", 0) and is_len(a[1]) or (a[0] == "Eq" and a[1] == ("int", 0) and is_len(a[2])):
                        empty = pol
                    elif a[0] == "Eq" and {a[1][0], a[2][0]} == {"int", "rem"}:
                        r_ = a[1] if a[1][0] == "rem" else a[2]
                        k_ = a[2] if a[1][0] == "rem" else a[1]
                        if is_len(r_[1]) and r_[2] == ("int", 2) and k_[1] in (0, 1):
                            even = pol if k_[1] == 0 else (not pol)
                # what is returned: the slice itself, or a window (offset, length) of it
                off, ln, bad = ("int", 0), None, None
                for callee, args, bb in sm.calls:
                    if not callee.endswith("::index"):
                        bad = callee
                        continue
                    rng = args[1]
                    if rng[0] != "adt":
                        bad = show(rng)
                        continue
                    kind = rng[1].rsplit("::", 1)[-1]
                    f = dict(zip(rng[4], rng[3]))
                    if kind == "RangeFrom":
                        off = add(off, f["start"])
                        ln = None if ln is None else add(ln, f["start"], -1)
                    elif kind == "RangeTo":
                        ln = f["end"]
                    elif kind == "Range":
                        off, ln = add(off, f["start"]), add(f["end"], f["start"], -1)
                    else:
                        bad = kind
                whole = not sm.calls and sm.ret in (("arg", 1, ()), ("sptr", (1, ())))
                case = "empty" if empty else ("even" if even else ("odd" if even is False else "?"))
                rows.setdefault(case, []).append(("whole" if whole else ("bad:%s" % bad if bad else (off, ln))))
            half = None
            for case, vals in rows.items():
                for v in vals:
                    if isinstance(v, tuple):
                        for t in (v[0],):
                            pass
            def want(case, v):
                if case == "empty":
                    return v == "whole"
                if not isinstance(v, tuple) or v[1] is None:
                    return False
                off, ln = v
                # offset = len/2 (- 1 when even); length = 2 / 1
                def is_half(e):
                    return e[0] == "div" and is_len(e[1]) and e[2] == ("int", 2)
                if case == "even":
                    ok_off = off[0] == "lin" and off[2] == -1 and len(off[1]) == 1 and off[1][0][1] == 1 and is_half(off[1][0][0])
                    return ok_off and ln == ("int", 2)
                if case == "odd":
                    return is_half(off) and ln == ("int", 1)
                return False
            for case in ("empty", "even", "odd"):
                vals = rows.get(case, [])
                ctx.check(len(vals) == 1 and want(case, vals[0]), "R05.6", ["slice_middle", case],
                          "for a slice of %s length slice_middle returns %s, expected %s" % (
                              case, [v if isinstance(v, str) else "slice[%s ..][.. %s]" % (show(v[0]), show(v[1]) if v[1] else "?") for v in vals],
                              {"empty": "the slice itself", "even": "slice[len/2 - 1 ..][.. 2]", "odd": "slice[len/2 ..][.. 1]"}[case]), b.where(0))
            ctx.check(set(rows) <= {"empty", "even", "odd"}, "R05.6", ["slice_middle", "only-three-cases"], "unclassified paths: %s" % sorted(set(rows) - {"empty", "even", "odd"}), b.where(0))
    td = prog.body("stats::sample::SampleCollection::total_duration", crate)
    if ctx.anchor("R05.6", "SampleCollection::total_duration", 1 if td else 0, 1):
        ctx.saw(td)
        sums = PathEval(td).run()
        ok = sums is not None and len(sums) == 1
        if ok:
            r = sums[0].ret
            ok = r[0] == "adt" and r[1] == "time::fine_duration::FineDuration" and len(r[3]) == 1
            e = r[3][0] if ok else None
            chain = []
            while ok and e[0] == "site":
                chain.append(e[1].rsplit("::", 1)[-1])
                e = e[3][0] if e[3] else ("opaque", "")
            ok = ok and chain == ["sum", "map", "iter"]
        ctx.check(ok, "R05.6", ["total_duration", "sum-over-all-samples"], "total_duration is not FineDuration { picos: time_samples.iter().map(..).sum() }", td.where(0))
        key = [x for x in prog.children(td) if x.kind == "Closure"]
        if ctx.check(len(key) == 1, "R05.6", ["total_duration", "map-closure"], "closures: %d" % len(key), td.where(0)):
            r = {z.label() for z in key[0].prov.local_src(0)}
            ctx.check(r == {"param:" + key[0].param_name(2) + ".duration.picos"}, "R05.6", ["total_duration", "summand-is-duration.picos"], "summand is %s" % sorted(r), key[0].where(0))
        srcs = td.prov.local_src(0)
        ctx.check(any(z.kind == "param" and z.b == ("time_samples",) for z in srcs) and not any(z.kind == "call" and z.a.endswith(("::rev", "::take", "::skip", "::filter", "::step_by")) for z in srcs),
                  "R05.6", ["total_duration", "all-time-samples"], "total_duration does not run over all of self.time_samples", td.where(0))


def r05_7(ctx, prog, crate):
    """The divisor of every mean: the total iteration count is formed in 64 bits (shared with R03.5)."""
    from .C03 import iter_count_rule
    iter_count_rule(ctx, "R05.7", prog, crate)


def r05_8(ctx, prog, crate):
    """What an input counter counts: XCount::of_iter(iter) is the number of items the iterator YIELDS - iter.into_iter()
    .count() - never an estimate (size_hint's upper bound is only a maximum for filter / take_while / chars ...)."""
    fns = [b for b in prog.lib_bodies(crate) if b.path.startswith("counter::") and b.path.endswith("::of_iter") and b.kind != "Closure" and "::tests::" not in b.path and "::benches::" not in b.path]
    if not ctx.anchor("R05.8", "counter constructors of_iter", fns, 2):
        return
    for b in fns:
        ctx.saw(b)
        bodies, ext, ind = prog.callee_closure([b], crate=crate, stop=lambda n: not n.startswith("counter::"))
        names = {c.callee for x in bodies for c in x.live_calls()}
        est = sorted(n for n in names if n.rsplit("::", 1)[-1] in ("size_hint", "len", "min_len", "max_len"))
        cnt = [c for c in b.live_calls() if c.callee.endswith("Iterator::count")]
        ok = len(cnt) == 1 and not est
        if ok:
            srcs = b.prov.op_src(cnt[0].args[0])
            ok = any(z.kind == "call" and "into_iter" in z.a for z in srcs) and {z.label() for z in srcs if z.kind == "param"} == {"param:" + b.param_name(1)}
        ctx.check(ok, "R05.8", [b.path, "counts-yielded-items"], "%s is not built from iter.into_iter().count() (estimates used: %s)" % (b.path, est or "none"), b.where(0))
        if cnt:
            # the count is what goes into the constructor
            fed = any(any(z.kind == "call" and z.b == cnt[0].bb for z in b.prov.op_src(a)) and nophi(b.prov.op_src(a)) for c in b.live_calls() if c is not cnt[0] for a in c.args)
            ctx.check(fed, "R05.8", [b.path, "count-feeds-the-counter"], "the count does not feed the counter's constructor", cnt[0].line())


def r05_10(ctx, prog, crate):
    """A per-input counter's per-iteration value is the sum over the sample's inputs divided by the sample size, taken in
    the width of the sum: the value handed to AnyCounter::known for an input-counted kind is `narrow(total / widen(size))`
    - the division happens before the narrowing cast (narrowing the 128-bit total first silently drops its high bits)."""
    from lib.symexpr import Sym, show
    n = 0
    for b in prog.owner_bodies(crate):
        if not b.path.startswith("benchmark::BenchContext::") or b.kind == "Closure":
            continue
        cs = [c for c in b.live_calls() if c.callee.endswith("AnyCounter::known") and b.loops_containing(c.bb)]
        if not cs:
            continue
        ctx.saw(b)
        S = Sym(b, keep_casts=True, site_args=True)
        WIDTH = {"u8": 8, "u16": 16, "u32": 32, "u64": 64, "usize": 64, "u128": 128}

        def find_div(e, depth=0):
            if not isinstance(e, tuple) or depth > 12:
                return None
            if e and e[0] == "div":
                return e
            if e and e[0] == "call" and isinstance(e[1], str) and e[1].endswith(("checked_div", "div_euclid", "wrapping_div", "saturating_div")) and len(e[2]) == 2:
                return ("div", e[2][0], e[2][1])
            for x in (e if (e and isinstance(e[0], tuple)) else e[1:]):
                if isinstance(x, tuple):
                    r = find_div(x, depth + 1)
                    if r is not None:
                        return r
            return None
        for c in cs:
            n += 1
            e = S.op(c.args[1])
            inner = find_div(e)
            ok = inner is not None
            why = "is not a quotient"
            if ok:
                num, den = inner[1], inner[2]
                # the numerator is not a narrowed value; the denominator is (a widening of) the sample size
                narrowed = num[0] == "cast" and WIDTH.get(num[1], 0) < 128
                ok = not narrowed and "sample_size" in show(den)
                why = "narrows the total before dividing" if narrowed else "does not divide by the sample size"
            ctx.check(ok, "R05.10", [b.path, "sum-divided-before-narrowing"],
                      "the per-iteration count stored for an input counter is `%s`: it %s" % (show(e), why), c.line())
    ctx.anchor("R05.10", "per-iteration counts built from per-input totals", n, 1)


def r05_12(ctx, prog, crate):
    """Averages are taken over the samples they describe: in compute_stats (and its closures) no length that ends up as a
    divisor is the length of a *filtered* collection - a list built through filter / filter_map / flatten / take_while and
    the like holds only the samples that happen to have a record (the allocation map is sparse), so dividing by its length
    averages over fewer samples than share the median or were recorded."""
    root = prog.body(SCOPE_ROOT, crate)
    if not ctx.anchor("R05.12", "compute_stats", 1 if root else 0, 1):
        return
    FILTERS = ("filter", "filter_map", "flatten", "flat_map", "take_while", "skip_while", "map_while", "dedup", "retain", "skip", "take", "step_by")
    n = 0
    for b in prog.closure_tree(root):
        lens = [c for c in b.live_calls() if c.callee.rsplit("::", 1)[-1] == "len" and c.callee.startswith(("core::slice::", "std::vec::Vec::", "std::collections::"))]
        divs = [(bi, s) for bi, si, s in b.stmts() if s["k"] == "assign" and s["rv"]["k"] == "binop" and s["rv"]["op"] in ("Div", "Rem")] + \
            [(c.bb, {"rv": {"b": c.args[1]}}) for c in b.live_calls() if c.callee.rsplit("::", 1)[-1] in ("checked_div", "div_euclid", "wrapping_div") and len(c.args) == 2]
        for c in lens:
            feeds = any(any(z.kind == "call" and z.b == c.bb and z.a == c.callee for z in b.prov.op_src(d["rv"]["b"])) for bi, d in divs)
            if not feeds:
                continue
            n += 1
            recv = set(b.prov.op_src(c.args[0]))
            # a captured collection: follow the capture into the enclosing function(s)
            cur, srcs_ = b, set(recv)
            for _ in range(3):
                ups = {z.a.lstrip("*").split(".")[0] for z in srcs_ if z.kind == "upvar"}
                if not ups or cur.kind != "Closure":
                    break
                nxt = set()
                par = None
                for u in ups:
                    cp = prog.capture_operand(cur, u)
                    if cp:
                        par = cp[0]
                        nxt |= set(cp[0].prov.op_src(cp[1]))
                if par is None:
                    break
                recv |= nxt
                cur, srcs_ = par, nxt
            bad = sorted({z.a for z in recv if z.kind == "call" and z.a.rsplit("::", 1)[-1] in FILTERS})
            ctx.check(not bad, "R05.12", [b.path.replace(root.path, "compute_stats"), "divisor-is-not-a-filtered-length"],
                      "a divisor in the statistics is the length of a collection built through %s: the average is taken over the samples that passed "
                      "the filter, not over the samples it describes" % bad, c.line())
    ctx.anchor("R05.12", "lengths used as divisors in compute_stats", n, 2)


def r05_11(ctx, prog, crate):
    """Counter values are kept per kind and every access addresses the kind it was asked about: info()/info_mut() index
    the per-kind array by their own kind argument; counts/uses_input_counts/mean_count/get_input_count look up the kind
    they were given; push_counter stores the pushed counter's own count in the slot of that same counter's kind;
    get_input_count returns what that kind's generator returns for the given input (None only without a generator)."""
    from lib.patheval import PathEval
    from lib.symexpr import Sym
    CC = "counter::collection::CounterCollection::"
    bodies = {n: prog.body(CC + n, crate) for n in ("info", "info_mut", "counts", "uses_input_counts", "mean_count", "get_input_count", "push_counter")}
    if not ctx.anchor("R05.11", "CounterCollection accessors", sum(1 for b in bodies.values() if b), 7):
        return
    for b in bodies.values():
        ctx.saw(b)
    for n in ("info", "info_mut"):
        b = bodies[n]
        S = Sym(b)
        refs = [s for bi, si, s in b.stmts() if s["k"] == "assign" and s["rv"]["k"] == "ref" and any(pr["k"] == "index" for pr in s["rv"]["p"]["proj"])]
        ok = len(refs) == 1 and refs[0]["rv"]["p"]["l"] == 1 and place_fields(refs[0]["rv"]["p"])[:1] == ("info",)
        idx = None
        if ok:
            pr = [p_ for p_ in refs[0]["rv"]["p"]["proj"] if p_["k"] == "index"][0]
            idx = S.local(pr["l"])
            ok = idx == ("discr", ("arg", 2, ()))
        ctx.check(ok and not b.loops and len([c for c in b.live_calls()]) == 0, "R05.11", [n, "indexed-by-own-kind"], "CounterCollection::%s indexes the per-kind array by %s, expected `counter_kind as usize`" % (n, idx), b.where(0))
    for n in ("counts", "uses_input_counts", "mean_count", "get_input_count"):
        b = bodies[n]
        sums = PathEval(b).run()
        if not ctx.check(bool(sums), "R05.11", [n, "readable"], "cannot summarise CounterCollection::%s" % n, b.where(0)):
            continue
        for s in sums:
            look = [c for c in s.calls if c[0] in (CC + "info", CC + "info_mut", CC + "counts")]
            ok = len(look) == 1 and look[0][1][1] == ("arg", 2, ()) and look[0][1][0] in (("sptr", (1, ())), ("arg", 1, ()), ("ptr", (1, ())))
            ctx.check(ok, "R05.11", [n, "looks-up-the-kind-it-was-given"], "CounterCollection::%s looks up %s" % (n, [c[1][1:] for c in look]), b.where(s.blocks[-1]))
        if n == "get_input_count":
            somes = [s for s in sums if s.ret[0] == "adt" and s.ret[2] == "Some"]
            ok = len(somes) == 1 and len(sums) == 2
            if ok:
                v = somes[0].ret[3][0]
                ok = v[0] == "site" and v[1].endswith("Fn<Args>>::call") and "count_input" in str(v[3][0]) and v[3][1] == ("tuple", (("ptr", (3, ())),)) or \
                    (v[0] == "site" and v[1].endswith("Fn<Args>>::call") and "count_input" in str(v[3][0]) and "3" in str(v[3][1]))
            ctx.check(ok, "R05.11", [n, "generator-of-that-kind-on-that-input"], "get_input_count returns %s" % ([s.ret for s in sums],), b.where(0))
        if n == "mean_count":
            r = sums[0].ret
            inner = r
            while inner[0] == "cast":
                inner = inner[2]
            lk = [c for c in sums[0].calls if c[0] in (CC + "info", CC + "info_mut", CC + "counts")] if len(sums) == 1 else []
            site = "%s', %d" % (lk[0][0].rsplit("::", 1)[-1], lk[0][2]) if len(lk) == 1 else "?"
            def regions(e, acc):
                if isinstance(e, tuple):
                    if len(e) == 3 and e[0] == "ret" and isinstance(e[1], str):
                        acc.add(e)
                    for x_ in e:
                        regions(x_, acc)
                return acc
            same = regions(inner[1], set()) & regions(inner[2], set()) if inner[0] == "div" else set()
            ok = len(sums) == 1 and inner[0] == "div" and "Iterator::sum" in str(inner[1]) and "len" in str(inner[2]) and \
                ((str(inner[1]).count(site) >= 1 and str(inner[2]).count(site) >= 1) or (len(lk) == 1 and bool(same)))
            ctx.check(ok, "R05.11", [n, "sum-over-len-of-the-same-list"], "mean_count returns %s" % (r,), b.where(0))
    b = bodies["push_counter"]
    sums = PathEval(b).run()
    if ctx.check(bool(sums) and len(sums) == 1, "R05.11", ["push_counter", "readable"], "cannot summarise push_counter", b.where(0)):
        s = sums[0]
        im = [c for c in s.calls if c[0] == CC + "info_mut"]
        pu = [c for c in s.calls if c[0] == "std::vec::Vec::push"]
        A = "counter::any_counter::AnyCounter::"
        ok = len(im) == 1 and len(pu) == 1 and im[0][1][1][0] == "site" and im[0][1][1][1] == A + "known_kind" and im[0][1][1][3] == (("arg", 2, ()),) and \
            pu[0][1][1][0] == "site" and pu[0][1][1][1] == A + "count" and pu[0][1][1][3] == (("arg", 2, ()),) and "info_mut" in str(pu[0][1][0]) and "counts" in str(pu[0][1][0])
        ctx.check(ok, "R05.11", ["push_counter", "own-count-into-own-kind"], "push_counter: info_mut(%s), push(%s)" % ([c[1][1] for c in im], [c[1] for c in pu]), b.where(0))


def r05_9(ctx, prog, crate):
    """Per-sample counter values stay aligned with the samples: installing an input counter empties its own kind's list
    unconditionally (a left-over constant count would shift every per-sample value by one) and touches no other kind;
    a constant counter replaces only its own kind (the rule is C15's R15.6, reported here under this property)."""
    from rules import C15
    from rules.common import Renamed
    C15.r15_6(Renamed(ctx, "R05.9"), prog, crate)


def r05_13(ctx, prog, crate):
    """The allocation figures under a time are those of the sample that supplied it: a sample's snapshot is stored unless
    *all* its tallies are zero - AllocOpMap::is_empty quantifies over the whole `values` array (every operation kind) and
    accepts a tally only when count and size are both zero: `all(count == 0 && size == 0)` or its De Morgan twin
    `!any(count != 0 || size != 0)`. A sample that only reallocates must keep its snapshot."""
    from lib.patheval import PathEval
    b = prog.body("alloc::AllocOpMap::is_empty", crate)
    if not ctx.anchor("R05.13", "AllocOpMap::is_empty", 1 if b else 0, 1):
        return
    ctx.saw(b)
    sums = PathEval(b).run()
    ok = bool(sums) and len(sums) == 1 and not sums[0].conds
    r = sums[0].ret if ok else None
    neg = False
    if ok and r[0] == "un" and r[1] == "Not":
        neg, r = True, r[2]
    quant = r[1].rsplit("::", 1)[-1] if ok and r[0] == "site" else None
    ok = ok and r[0] == "site" and quant in ("all", "any") and (quant == "any") == neg and r[3] and r[3][0][0] == "site" and \
        r[3][0][1].rsplit("::", 1)[-1] in ("iter", "into_iter") and r[3][0][3] and r[3][0][3][0] in (("sptr", (1, ("values",))), ("ptr", (1, ("values",))))
    ctx.check(ok, "R05.13", ["is_empty", "all-over-every-operation-kind"],
              "AllocOpMap::is_empty is not `self.values.iter().all(..)` (or `!any(..)`) over the whole array: a sample whose only operations "
              "are of a kind it does not look at loses its allocation snapshot", b.where(0))
    cl = [x for x in prog.children(b) if x.kind == "Closure"]
    if not ok or not ctx.check(len(cl) == 1, "R05.13", ["is_empty", "predicate"], "predicates: %d" % len(cl), b.where(0)):
        return
    # truth table of the predicate over (count == 0, size == 0)
    ps = PathEval(cl[0]).run() or []

    def atom(a):
        """('count'|'size', True if the atom says `field == 0`)"""
        if a[0] in ("Eq", "Ne", "cmp") and ("int", 0) in a:
            op = a[1] if a[0] == "cmp" else a[0]
            f = [x for x in ("count", "size") if "'%s'" % x in str(a)]
            if len(f) == 1 and op in ("Eq", "Ne"):
                return f[0], op == "Eq"
        return None
    table = {}
    readable = bool(ps)
    for cz in (True, False):
        for sz in (True, False):
            val = None
            for p_ in ps:
                env = {"count": cz, "size": sz}
                feasible = True
                for a, pol in p_.conds:
                    at = atom(a)
                    if at is None:
                        readable = False
                        continue
                    if (env[at[0]] == at[1]) != bool(pol):
                        feasible = False
                if not feasible:
                    continue
                if p_.ret[0] == "int":
                    val = bool(p_.ret[1])
                else:
                    at = atom(p_.ret)
                    if at is None:
                        readable = False
                    else:
                        val = env[at[0]] == at[1]
            table[(cz, sz)] = val
    want = {(True, True): not neg, (True, False): neg, (False, True): neg, (False, False): neg}
    ctx.check(readable and table == want, "R05.13", ["is_empty", "zero-count-and-zero-size"],
              "the predicate of is_empty over (count == 0, size == 0) is %s; expected %s" % (sorted(table.items()), sorted(want.items())), cl[0].where(0))


def run(ctx, prog, crate):
    r05_13(ctx, prog, crate)
    r05_8(ctx, prog, crate)
    r05_9(ctx, prog, crate)
    r05_10(ctx, prog, crate)
    r05_11(ctx, prog, crate)
    r05_12(ctx, prog, crate)
    r05_7(ctx, prog, crate)
    r05_6(ctx, prog, crate)
    r05_5(ctx, prog, crate)
    r05_1(ctx, prog, crate)
    r05_2(ctx, prog, crate)
    r05_3(ctx, prog, crate)
    r05_4(ctx, prog, crate)
