"""C03  sample_count, sample_size and threads fix the number of calls exactly."""
from lib.facts import direct_place, const_int, origins, place_fields, norm, nophi, place_root_fields
from lib import tables
from .sampling import Sampling, PAR_EXTEND
from .common import Recorder

INLINE = True      # crate-local helpers the rules do not know by name are inlined into their callers (lib/inline.py)
EXPLANATION = (
    "Necessary structure of the counting argument. R03.1 the early return on max_time == 0 || !has_samples() dominates "
    "every broadcast; has_samples() compares both sample_count and sample_size with Some(0). R03.2 in test mode the "
    "break is taken before any sample is stored (no push/insert/push_counter reachable on the test edge within the "
    "round), BenchMode::Test.sample_size() is the constant 1, and time_samples.reserve is confined to !is_test. R03.3 "
    "per round exactly one par_extend whose task calls the recorder exactly once with sample_size = "
    "current_mode.sample_size(); in the post-processing loop over the raw samples exactly one time_samples.push and "
    "exactly one saturating_sub(1) on the remaining-sample counter per iteration. R03.4 the counter is initialised from "
    "sample_count.unwrap_or(DEFAULT_SAMPLE_COUNT) at both sites and DEFAULT_SAMPLE_COUNT == 100. R03.5 the reported "
    "sample_count derives only from time_samples.len() and iter_count only from sample_size x len. One call per index "
    "per round is C06/R06.1; the loop condition is C04/R04.1."
    ' R03.5 also: iter_count widens both factors to 64 bits before multiplying. R03.6 every reported run starts from an empty sample store: the BenchContext wrapped by Bencher::new and read by compute_stats is built by the single constructor (SampleCollection::default(), did_run = false) in the same loop iteration as the run, or emptied by a reset call before each run. R03.7 test mode is what the entry point asked for (the action the SharedContext is built with). R03.8 BenchMode::is_test/is_tune/is_collect are true for exactly their variant and sample_size() is 1 for Test and the variant\'s own payload otherwise (per-variant return value from the discriminant tests on every path). R03.9 (= R14.7) the action the command line asks for is the documented function of --list/--test/--bench (truth table over the flag atoms on every path of config_with_args that stores self.action).')
EXPLANATION += (' R03.10 (= R15.1) the options the loop obeys are merged field by field: no time option can leak into another field of BenchOptions::overwrite.')
EXPLANATION += (' R03.11 (= R15.7) attribute options are emitted as written (threads = false is Some([1])).')
EXPLANATION += (' R03.12 the scalar thread-count conversion returns a constant list only for a tested value and [self] otherwise.')
NOT_DECIDED = ["the closed form s*T*ceil(n/T) itself (follows from R03.3 + R04.1 by induction; not mechanised)",
               "call counts under interleavings (C06)"]


def r03_1(ctx, S, prog, crate):
    b = S.body
    hs = [c for c in b.live_calls() if c.callee == "benchmark::options::BenchOptions::has_samples"]
    if ctx.check(len(hs) == 1, "R03.1", [b.path, "has_samples-test"], "has_samples() tests: %d" % len(hs), b.where(0)):
        h = hs[0]
        ok = False
        for bi, t in b.switches():
            d = direct_place(b, t["discr"])
            if d and d[0] == "call" and d[1].bb == h.bb:
                zero = [a[1] for a in t["arms"] if a[0] == "0"]
                # false edge (no samples) must not reach par_extend
                ok = bool(zero) and S.pe[0].bb not in b.reach(zero) and b.dominates(bi, S.pe[0].bb)
        ctx.check(ok, "R03.1", [b.path, "no-samples-returns-before-broadcast"],
                  "with sample_count or sample_size == 0 the benchmark can still be broadcast", h.line())
        ctx.check({z.label() for z in b.prov.op_src(h.args[0]) if z.kind == "param"} == {"param:self.options"}, "R03.1", [b.path, "has_samples-of-own-options"],
                  "has_samples is asked of %s" % sorted(z.label() for z in b.prov.op_src(h.args[0])), h.line())
    # max_time == 0
    ok = False
    for bi, t in b.switches():
        d = direct_place(b, t["discr"])
        # `max == 0`, `0 == max`, `max != 0`, `max > 0`, `max < 1` ...: which operand is the max_time variable, which edge means zero
        if d and d[0] == "rvalue" and d[1]["k"] == "binop" and d[1]["op"] in ("Eq", "Ne", "Gt", "Lt", "Ge", "Le"):
            op, x, y = d[1]["op"], d[1]["a"], d[1]["b"]
            if const_int(x) is not None:
                x, y = y, x
                op = {"Gt": "Lt", "Lt": "Gt", "Ge": "Le", "Le": "Ge"}.get(op, op)
            k = const_int(y)
            if x["k"] in ("copy", "move") and not x["p"]["proj"] and S.classify_local(S.root_local(x["p"]["l"])) == "max_time" and k is not None:
                zero_when = {("Eq", 0): True, ("Ne", 0): False, ("Gt", 0): False, ("Le", 0): True, ("Lt", 1): True, ("Ge", 1): False}.get((op, k))
                if zero_when is None:
                    continue
                f_t = [a[1] for a in t["arms"] if a[0] == "0"]
                f_t = f_t[0] if f_t else t["otherwise"]
                t_t = t["otherwise"] if f_t != t["otherwise"] else [a[1] for a in t["arms"] if a[0] == "1"][0]
                zero_t, nonzero_t = (t_t, f_t) if zero_when else (f_t, t_t)
                ok = S.pe[0].bb not in b.reach([zero_t], avoid=[nonzero_t]) and S.pe[0].bb in b.reach([nonzero_t])
    ctx.check(ok, "R03.1", [b.path, "zero-max_time-returns-before-broadcast"], "with max_time == 0 the benchmark can still be broadcast", b.where(0))
    hb = prog.body("benchmark::options::BenchOptions::has_samples", crate)
    if ctx.anchor("R03.1", "BenchOptions::has_samples", 1 if hb else 0, 1):
        ctx.saw(hb)
        fields = set()
        for c in hb.live_calls():
            if c.callee.endswith(("::ne", "::eq")):
                o = origins(hb, c.args[0])
                for x in o:
                    if x[0] == "place":
                        fields.add((tuple(x[2])[-1], c.callee.rsplit("::", 1)[-1]))
                # compared with Some(0)
                pr = hb.prov.op_src(c.args[1])
        for bi, si, s in hb.stmts():
            pass
        ctx.check(fields == {("sample_count", "ne"), ("sample_size", "ne")}, "R03.1", ["has_samples", "both-fields"],
                  "has_samples() compares %s, expected sample_count != Some(0) && sample_size != Some(0)" % sorted(fields), hb.where(0), detail=sorted(fields))
        # the constants compared with are Some(0): look into the promoted constants
        zeros = 0
        for (ck, pth, pr), pb in prog.bodies.items():
            if ck == crate and pth == hb.path and pr >= 0:
                for bi, si, s in pb.stmts(live_only=False):
                    if s["k"] == "assign" and s["rv"]["k"] == "agg" and s["rv"].get("variant") == "Some" and const_int(s["rv"]["ops"][0]) == 0:
                        zeros += 1
        ctx.check(zeros == 2, "R03.1", ["has_samples", "compared-with-Some(0)"], "Some(0) constants in has_samples: %d" % zeros, hb.where(0))
        # conjunction: result false if either comparison is false
        ret_false = [bi for bi, si, s in hb.stmts() if s["k"] == "assign" and s["p"]["l"] == 0 and s["rv"]["k"] == "use" and const_int(s["rv"]["o"]) == 0]
        ctx.check(len(ret_false) >= 1, "R03.1", ["has_samples", "conjunction"], "has_samples is not a conjunction (no short-circuit false)", hb.where(0))


def r03_2(ctx, S, prog, crate):
    b = S.body
    # the test break
    tb = None
    for x, outs in S.exits:
        d = direct_place(b, b.term(x)["discr"])
        if x != S.cond_switch and d and d[0] == "call" and d[1].callee == "benchmark::BenchMode::is_test":
            tb = (x, outs[0])
    if not ctx.check(tb is not None, "R03.2", [b.path, "test-break"], "no break on is_test in the sampling loop", b.where(S.loop["header"])):
        return
    x, out = tb
    stores = [c for c in b.live_calls() if c.bb in S.loop["body"] and c.callee in ("std::vec::Vec::push", "std::collections::HashMap::insert",
                                                                                     "counter::collection::CounterCollection::push_counter")]
    ctx.anchor("R03.2", "sample stores in the loop", stores, 3)
    for c in stores:
        ctx.check(b.dominates(x, c.bb) and c.bb not in b.reach([out]), "R03.2", [b.path, "nothing-stored-in-test-mode", c.callee.rsplit("::", 1)[-1]],
                  "`%s` can run before the test-mode break: a test run would store a sample" % c.callee, c.line())
    ctx.check(b.dominates(S.pe[0].bb, x), "R03.2", [b.path, "test-runs-one-round"], "the test-mode break precedes the broadcast", b.where(x))
    # reserve only when !is_test
    for c in b.live_calls():
        if c.callee == "std::vec::Vec::reserve" and c.gargs and "TimeSample" in c.gargs[0]:
            ok = False
            for bi, t in b.switches():
                d = direct_place(b, t["discr"])
                if d and d[0] == "call" and d[1].callee == "benchmark::BenchMode::is_test":
                    zero = [a[1] for a in t["arms"] if a[0] == "0"]
                    if zero and b.dominates(zero[0], c.bb) and b.pred[zero[0]] == [bi]:
                        ok = True
            ctx.check(ok, "R03.2", [b.path, "reserve-only-when-not-test"], "time_samples.reserve is not confined to !is_test", c.line())
    # BenchMode::sample_size(): Test -> 1
    ss = prog.body("benchmark::BenchMode::sample_size", crate)
    names = tables.variant_names(prog, "benchmark::BenchMode", crate)
    if ctx.anchor("R03.2", "BenchMode::sample_size + ADT", (1 if ss else 0) + (1 if names else 0), 2):
        sws = tables.discr_switches(ss)
        if ctx.check(len(sws) == 1, "R03.2", ["BenchMode::sample_size", "match"], "not a match on self", ss.where(0)):
            bi, t, _ = sws[0]
            vals = tables.return_values_per_arm(ss, bi, t)
            ti = names.index("Test")
            v = vals.get(ti) or vals.get("otherwise")
            ctx.check(v == {("const", 1)}, "R03.2", ["BenchMode::sample_size", "Test-is-1"], "BenchMode::Test.sample_size() = %s" % v, ss.where(0))
            arms, otherwise = tables.arm_targets(t)
            for nm in ("Tune", "Collect"):
                tgt = arms.get(names.index(nm), otherwise)
                reads = set()
                for x in tables.exclusive_blocks(ss, tgt, [y for y in list(arms.values()) + [otherwise] if y != tgt]):
                    for s in ss.blocks[x]["stmts"]:
                        if s["k"] == "assign" and s["rv"]["k"] == "use" and s["rv"]["o"]["k"] in ("copy", "move"):
                            pr = s["rv"]["o"]["p"]["proj"]
                            dc = [q.get("name") for q in pr if q["k"] == "downcast"]
                            fl = [q.get("name") for q in pr if q["k"] == "field"]
                            if s["rv"]["o"]["p"]["l"] == 1:
                                reads.add((tuple(dc), tuple(fl)))
                consts = [s for x in tables.exclusive_blocks(ss, tgt, [y for y in list(arms.values()) + [otherwise] if y != tgt]) for s in ss.blocks[x]["stmts"]
                          if s["k"] == "assign" and s["rv"]["k"] == "use" and s["rv"]["o"]["k"] == "const"]
                ctx.check(reads == {((nm,), ("sample_size",))} and not consts, "R03.2", ["BenchMode::sample_size", nm + "-own-field"],
                          "%s.sample_size() reads %s" % (nm, sorted(reads)), ss.where(0))
    imc, im = S.initial_mode_call()
    if ctx.anchor("R03.2", "initial mode function (the call producing the first BenchMode)", 1 if im else 0, 1):
        # Test iff action.is_test()
        cs = [c for c in im.live_calls() if c.callee == "config::Action::is_test"]
        ok = False
        if len(cs) == 1:
            for bi, t in im.switches():
                d = direct_place(im, t["discr"])
                if d and d[0] == "call" and d[1].bb == cs[0].bb:
                    zero = [a[1] for a in t["arms"] if a[0] == "0"]
                    tv = {s["rv"]["variant"] for x in tables.exclusive_blocks(im, t["otherwise"], zero) for s in im.blocks[x]["stmts"]
                          if s["k"] == "assign" and s["p"]["l"] == 0 and s["rv"]["k"] == "agg"}
                    fv = {s["rv"]["variant"] for x in im.reach(zero) for s in im.blocks[x]["stmts"]
                          if s["k"] == "assign" and s["p"]["l"] == 0 and s["rv"]["k"] == "agg"}
                    ok = tv == {"Test"} and "Test" not in fv
        ctx.check(ok, "R03.2", ["initial_mode", "Test-iff-action-is-test"], "initial_mode does not return Test exactly when the action is a test", im.where(0))


def r03_3(ctx, S, prog, crate):
    b = S.body
    ctx.check(len(S.pe) == 1 and b.once_per_iteration(S.pe[0].bb, S.loop), "R03.3", [b.path, "one-broadcast-per-round"],
              "par_extend is not executed exactly once per round", S.pe[0].line() if S.pe else None)
    pe = S.pe[0]
    # aux threads = thread_count - 1 (C08/R08.2), vector cleared before
    clr = [c for c in b.live_calls() if c.callee == "std::vec::Vec::clear" and c.bb in S.loop["body"] and c.gargs and "RawSample" in c.gargs[0]]
    ctx.check(len(clr) == 1 and b.dominates(clr[0].bb, pe.bb) and b.once_per_iteration(clr[0].bb, S.loop), "R03.3", [b.path, "raw-samples-cleared-each-round"],
              "raw_samples is not cleared before each broadcast", pe.line())
    # the task closure calls the record closure once; the record closure calls the recorder once with sample_size
    rec = Recorder(prog, crate)
    task = None
    if pe.args[3]["k"] in ("copy", "move"):
        for o in origins(b, pe.args[3]):
            pass
    cls = [x for x in prog.children(b) if x.kind == "Closure"]
    chain = []
    for x in cls:
        for c in x.live_calls():
            if c.is_fn_trait_call and rec.body is not None and c.name == rec.body.path:
                chain.append((x, c))
    if ctx.check(len(chain) == 1, "R03.3", [b.path, "one-recorder-call-site"], "recorder call sites: %d" % len(chain), b.where(0)):
        x, c = chain[0]
        ctx.saw(x)
        ctx.check(x.innermost_loop(c.bb) is None and not (set(x.returns) & x.reach([0], avoid=[c.bb])), "R03.3", [x.path, "recorder-once-per-task"],
                  "the per-thread task does not call the recorder exactly once", c.line())
        # sample_size argument = (captured) current_mode.sample_size() as usize
        a = x.prov.op_src(c.args[1], path=(0,))
        ups = {z.a.lstrip("*") for z in a if z.kind == "upvar"}
        cap = None
        for cn in x.captures or []:
            if cn.lstrip("*") in ups and cn.lstrip("*") == "sample_size":
                cap = prog.capture_operand(x, cn)
        ok = cap is not None
        if ok:
            d = direct_place(cap[0], cap[1])
            ok = d is not None and d[0] == "call" and d[1].callee == "benchmark::BenchMode::sample_size" and d[1].bb in S.loop["body"]
        ctx.check(ok, "R03.3", [x.path, "recorder-gets-current-sample_size"], "the recorder's sample size is not current_mode.sample_size() of this round", c.line())
        # the task closure given to par_extend calls x once
        tasks = [y for y in cls if any(cc.is_fn_trait_call and cc.name == x.path for cc in y.live_calls())]
        if ctx.check(len(tasks) == 1, "R03.3", [b.path, "task-closure"], "task closures: %d" % len(tasks), b.where(0)):
            y = tasks[0]
            cc = [q for q in y.live_calls() if q.is_fn_trait_call and q.name == x.path]
            ctx.check(len(cc) == 1 and y.innermost_loop(cc[0].bb) is None and not (set(y.returns) & y.reach([0], avoid=[cc[0].bb])), "R03.3",
                      [y.path, "one-sample-per-index"], "the task does not record exactly one sample per broadcast index", y.where(0))
    # samples.sample_size written from the same sample_size call
    for bi, si, s in b.stmts():
        if s["k"] == "assign" and s["p"]["proj"] and place_root_fields(b, s["p"]) == (1, ("samples", "sample_size")):
            d = direct_place(b, s["rv"]["o"]) if s["rv"]["k"] == "use" else None
            ctx.check(d is not None and d[0] == "call" and d[1].callee == "benchmark::BenchMode::sample_size" and bi in S.loop["body"], "R03.3",
                      [b.path, "stored-sample_size-is-this-rounds"], "samples.sample_size is not set from current_mode.sample_size()", b.where(bi))
    # post-processing loop
    push = [c for c in b.live_calls() if c.callee == "std::vec::Vec::push" and c.gargs and "TimeSample" in c.gargs[0]]
    dec = [c for c in b.live_calls() if c.callee == "core::num::saturating_sub" and c.bb in S.loop["body"]]
    mapdec = S.rem_map_decrements()
    if len(push) == 1 and not dec and len(mapdec) == 1:
        # idiom 2: `rem = rem.map(|r| r.saturating_sub(1))` - no guard needed, map leaves None alone
        mc, mcl, msub = mapdec[0]
        ctx.saw(mcl)
        lp = b.innermost_loop(push[0].bb)
        ok = lp is not None and lp["header"] != S.loop["header"] and b.once_per_iteration(push[0].bb, lp)
        ctx.check(ok, "R03.3", [b.path, "one-push-per-raw-sample"], "time_samples.push is not executed exactly once per raw sample", push[0].line())
        ctx.check(const_int(msub.args[1]) == 1, "R03.3", [b.path, "decrement-by-one"], "the remaining-sample counter is decreased by %s" % msub.args[1], msub.line())
        lp2 = b.innermost_loop(mc.bb)
        ctx.check(ok and lp2 is not None and lp2["header"] == lp["header"] and b.once_per_iteration(mc.bb, lp), "R03.3", [b.path, "one-decrement-per-raw-sample"],
                  "the remaining-sample counter is not decreased exactly once per recorded sample", mc.line())
        if ok:
            nx = [c for c in b.live_calls() if c.bb in lp["body"] and c.callee.endswith("::next") and b.innermost_loop(c.bb)["header"] == lp["header"]]
            if nx:
                srcs = b.prov.op_src(nx[0].args[0])
                ctx.check(any(z.kind == "call" and z.a == "std::slice::from_raw_parts" for z in srcs) and nophi(srcs), "R03.3", [b.path, "iterates-this-rounds-raw-samples"],
                          "the post-processing loop does not iterate the slice of this round's raw samples", nx[0].line())
        ctx.ok("R03.3", "%s|one-push-one-decrement" % b.path)
    elif ctx.check(len(push) == 1 and len(dec) == 1, "R03.3", [b.path, "one-push-one-decrement"], "push sites %d, decrement sites %d" % (len(push), len(dec)), b.where(0)):
        lp = b.innermost_loop(push[0].bb)
        ok = lp is not None and lp["header"] != S.loop["header"] and b.once_per_iteration(push[0].bb, lp)
        ctx.check(ok, "R03.3", [b.path, "one-push-per-raw-sample"], "time_samples.push is not executed exactly once per raw sample", push[0].line())
        per_round = ok and const_int(dec[0].args[1]) != 1 and _is_round_sample_count(b, dec[0].args[1])
        if per_round:
            # idiom 3: one decrement per round, by the number of raw samples of the round (saturating; a count beyond u32 clamps)
            ctx.ok("R03.3", "%s|decrement-by-round-size" % b.path)
            lp_dec = S.loop
        else:
            ctx.check(const_int(dec[0].args[1]) == 1, "R03.3", [b.path, "decrement-by-one"], "the remaining-sample counter is decreased by %s" % dec[0].args[1], dec[0].line())
            lp_dec = lp
        if ok:
            # decrement in the same loop, once per iteration whenever the counter is Some
            lp_push = lp
            lp = lp_dec
            lp2 = b.innermost_loop(dec[0].bb)
            same = lp2 is not None and lp2["header"] == lp["header"]
            guard_ok = False
            for bi, t, base in tables.discr_switches(b):
                if bi in lp["body"] and "Option<u32>" in b.local_ty(base):
                    arms, otherwise = tables.arm_targets(t)
                    some_t = arms.get(1)
                    if some_t is not None and b.dominates(some_t, dec[0].bb) and b.pred[some_t] == [bi] and b.once_per_iteration(bi, lp):
                        # on the Some arm the decrement is unavoidable before the latch
                        outside = set(range(len(b.blocks))) - lp["body"]
                        r = b.reach([some_t], avoid=outside | {dec[0].bb})
                        guard_ok = not any(l in r for l in lp["latches"])
            ctx.check(same and guard_ok, "R03.3", [b.path, "one-decrement-per-raw-sample"],
                      "the remaining-sample counter is not decreased exactly once per recorded sample", dec[0].line())
            lp = lp_push
            # the loop iterates the raw samples of this round (slice built from the vector par_extend filled)
            nx = [c for c in b.live_calls() if c.bb in lp["body"] and c.callee.endswith("::next") and b.innermost_loop(c.bb)["header"] == lp["header"]]
            if nx:
                srcs = b.prov.op_src(nx[0].args[0])
                ctx.check(any(z.kind == "call" and z.a == "std::slice::from_raw_parts" for z in srcs) and nophi(srcs), "R03.3", [b.path, "iterates-this-rounds-raw-samples"],
                          "the post-processing loop does not iterate the slice of this round's raw samples", nx[0].line())


def _is_round_sample_count(b, op):
    """The operand is the number of raw samples of this round as a u32: `len()` of the raw-sample vector / slice, converted
    by try_from(..).unwrap_or(u32::MAX) (clamping) or widening only."""
    from lib.symexpr import Sym
    e = Sym(b, site_args=True).op(op)

    def strip(e):
        if isinstance(e, tuple):
            if e and e[0] == "site" and len(e) > 3:
                return ("call", e[1], tuple(strip(x) for x in e[3]))
            return tuple(strip(x) for x in e)
        return e
    e = strip(e)
    for _ in range(4):
        if e[0] == "call" and e[1].rsplit("::", 1)[-1] == "unwrap_or" and len(e[2]) == 2 and e[2][1] == ("int", 2 ** 32 - 1):
            e = e[2][0]
        elif e[0] == "call" and e[1].rsplit("::", 1)[-1] in ("try_from", "try_into") and len(e[2]) == 1:
            e = e[2][0]
        else:
            break
    if not (e[0] == "call" and e[1].rsplit("::", 1)[-1] == "len" and len(e[2]) == 1):
        return False
    return "RawSample" in str(e) or "from_raw_parts" in str(e) or any(
        z.kind == "call" and z.a in ("std::slice::from_raw_parts", PAR_EXTEND_) for z in b.prov.op_src(op))


PAR_EXTEND_ = "util::thread::pool::ThreadPool::par_extend"


def r03_4(ctx, S, prog, crate):
    b = S.body
    rem = S.local_by_class("rem_samples")
    if not ctx.check(len(rem) == 1, "R03.4", [b.path, "rem_samples-variable"], "remaining-sample counters: %s" % rem, b.where(0)):
        return
    r = rem[0]
    inits = []
    decdest = {mc.dest["l"] for mc, _cl, _sub in S.rem_map_decrements()}
    for bi, si, s in b.stmts():
        if s["k"] == "assign" and s["p"]["l"] == r and not s["p"]["proj"] and s["rv"]["k"] in ("agg", "use"):
            if s["rv"]["k"] == "use" and s["rv"]["o"]["k"] in ("copy", "move") and s["rv"]["o"]["p"]["l"] in decdest:
                continue        # `rem = rem.map(|r| r - 1)`: the per-sample decrement (R03.3), not an initialisation
            inits.append((bi, si, s))
    somes = [(bi, si, s) for bi, si, s in inits if s["rv"]["k"] == "agg" and s["rv"].get("variant") == "Some" or s["rv"]["k"] == "use"]
    nones = [(bi, si, s) for bi, si, s in inits if s["rv"]["k"] == "agg" and s["rv"].get("variant") == "None"]
    real_somes = []
    for bi, si, s in inits:
        srcs = b.prov._rv(s["rv"], (), frozenset(), bi, si)
        if any(z.kind == "variant" and z.a == "std::option::Option::Some" for z in srcs):
            real_somes.append((bi, si, s, srcs))
    ctx.check(len(real_somes) == 2 and len(nones) == 1, "R03.4", [b.path, "initialisation-sites"],
              "Some(..) initialisations: %d (expected 2: collect start and tune->collect switch), None: %d" % (len(real_somes), len(nones)), b.where(0))
    for bi, si, s, srcs in real_somes:
        un = [z for z in srcs if z.kind == "call" and z.a == "std::option::Option::unwrap_or"]
        ok = len(un) == 1 and not any(z.kind in ("binop", "unop") for z in srcs)
        if ok and s["rv"]["k"] == "agg":
            dpay = direct_place(b, s["rv"]["ops"][0])
            ok = dpay is not None and dpay[0] == "call" and dpay[1].bb == un[0].b
        if ok:
            c = b.call_at(un[0].b)
            o = origins(b, c.args[0])
            ok = any(x[0] == "place" and tuple(x[2])[-1:] == ("sample_count",) for x in o) and const_int(c.args[1]) == 100 and \
                "DEFAULT_SAMPLE_COUNT" in c.args[1].get("c", {}).get("d", "")
        where = "in-loop" if bi in S.loop["body"] else "before-loop"
        ctx.check(ok, "R03.4", [b.path, "from-sample_count-or-100", where],
                  "the remaining-sample counter is not initialised from options.sample_count.unwrap_or(DEFAULT_SAMPLE_COUNT = 100) (%s)" % where, b.where(bi),
                  detail={"site": where})
    # before-loop init guarded by is_collect
    for bi, si, s, srcs in real_somes:
        if bi not in S.loop["body"]:
            ok = False
            for sb, t in b.switches():
                d = direct_place(b, t["discr"])
                if d and d[0] == "call" and d[1].callee == "benchmark::BenchMode::is_collect" and b.dominates(t["otherwise"], bi) and b.pred[t["otherwise"]] == [sb]:
                    ok = True
            ctx.check(ok, "R03.4", [b.path, "counted-from-start-iff-collect"], "the initial counter is not guarded by current_mode.is_collect()", b.where(bi))


def iter_count_rule(ctx, rule, prog, crate):
    """SampleCollection::iter_count = (sample_size as u64) * (time_samples.len() as u64): both factors are widened to 64 bits
    BEFORE the multiplication (a 32-bit product wraps or panics from 2^32 iterations on).  Shared by R03.5 and R05.6."""
    from lib.patheval import PathEval
    from lib.symexpr import show
    ic = prog.body("stats::sample::SampleCollection::iter_count", crate)
    if not ctx.anchor(rule, "SampleCollection::iter_count", 1 if ic else 0, 1):
        return
    ctx.saw(ic)
    sums = PathEval(ic, keep_casts=True).run()
    ok = sums is not None and len(sums) == 1
    e = sums[0].ret if ok else None

    def widened(x):
        # `x as u64`, `u64::from(x)`, `x.into()` with a 64-bit (or wider) result
        if x[0] == "cast" and x[1] in ("u64", "u128", "usize"):
            return x[2]
        if x[0] in ("site", "call") and x[1].endswith(("::from", "::into")):
            wide = "u64" in x[1] or "u128" in x[1]
            if not wide and x[0] == "site":
                c = ic.call_at(x[2])
                wide = c is not None and (c.dest or {}).get("ty") in ("u64", "u128")
            a = x[3] if x[0] == "site" else x[2]
            return a[0] if a and wide else None
        return None
    good = False
    if ok and e[0] == "mul" and len(e[1]) == 2:
        inner = [widened(f) for f in e[1]]
        if all(i is not None for i in inner):
            kinds = set()
            for i in inner:
                if i == ("arg", 1, ("sample_size",)):
                    kinds.add("size")
                elif i[0] == "call" and i[1].rsplit("::", 1)[-1] == "len" and i[2] and i[2][0] in (("sptr", (1, ("time_samples",))), ("ptr", (1, ("time_samples",)))):
                    kinds.add("count")
                elif i[0] == "cast" and i[2][0] == "call" and i[2][1].rsplit("::", 1)[-1] == "len":
                    kinds.add("narrowed-count")
            good = kinds == {"size", "count"}
    ctx.check(good, rule, ["iter_count", "widened-before-multiplying"],
              "iter_count is %s, expected (sample_size as u64) * (time_samples.len() as u64) - both factors 64 bits wide before the product" % (show(e) if e else "not a single path"),
              ic.where(0), detail=show(e) if e else None)
    ctx.check(ic.local_ty(0) in ("u64", "u128"), rule, ["iter_count", "returns-64-bits"], "iter_count returns %s" % ic.local_ty(0), ic.where(0))


def r03_5(ctx, prog, crate):
    iter_count_rule(ctx, "R03.5", prog, crate)
    cs = prog.body("benchmark::BenchContext::compute_stats", crate)
    if not ctx.anchor("R03.5", "compute_stats", 1 if cs else 0, 1):
        return
    aggs = [s for bi, si, s in cs.stmts() if s["k"] == "assign" and s["rv"]["k"] == "agg" and s["rv"]["ak"] == "adt" and norm(s["rv"]["adt"]) == "stats::Stats"]
    if not ctx.check(len(aggs) == 1, "R03.5", ["Stats", "one-aggregate"], "Stats aggregates: %d" % len(aggs), cs.where(0)):
        return
    rv = aggs[0]["rv"]
    o = rv["ops"][rv["fields"].index("sample_count")]
    srcs = cs.prov.op_src(o)
    ok = {z.a for z in srcs if z.kind == "call"} <= {"std::vec::Vec::len"} and any(z.kind == "param" and z.b[:2] == ("samples", "time_samples") for z in srcs) and \
        not any(z.kind == "binop" for z in srcs) and any(z.kind == "call" for z in srcs)
    ctx.check(ok, "R03.5", ["Stats.sample_count", "is-time_samples.len()"], "Stats.sample_count derives from %s" % sorted(z.label() for z in srcs), cs.where(0))
    o = rv["ops"][rv["fields"].index("iter_count")]
    d = direct_place(cs, o)
    ctx.check(d is not None and d[0] == "call" and d[1].callee == "stats::sample::SampleCollection::iter_count", "R03.5", ["Stats.iter_count", "is-iter_count()"],
              "Stats.iter_count is not samples.iter_count()", cs.where(0))
    ic = prog.body("stats::sample::SampleCollection::iter_count", crate)
    if ctx.anchor("R03.5", "SampleCollection::iter_count", 1 if ic else 0, 1):
        muls = [s for bi, si, s in ic.stmts() if s["k"] == "assign" and s["rv"]["k"] == "binop" and s["rv"]["op"] in ("Mul", "MulWithOverflow")]
        ok = len(muls) == 1
        if ok:
            a = ic.prov.op_src(muls[0]["rv"]["a"])
            c = ic.prov.op_src(muls[0]["rv"]["b"])
            both = {z.label() for z in a | c if z.kind == "param"}
            ok = both == {"param:self.sample_size", "param:self.time_samples"} and any(z.kind == "call" and z.a == "std::vec::Vec::len" for z in a | c)
        ctx.check(ok, "R03.5", ["iter_count", "sample_size-times-len"], "iter_count is not sample_size * time_samples.len()", ic.where(0))


def _root_local(b, op, fields=False):
    """Follow `&x` / copy / move chains of single-definition temporaries to the local they designate (with `fields`, also
    through `&x.f`: the local a part of which is designated)."""
    if op["k"] not in ("copy", "move"):
        return None
    l = op["p"]["l"]
    for _ in range(14):
        defs = [d for d in b.prov.defs.get(l, []) if d[0] != "S" or not d[3]["p"]["proj"]]     # whole-local definitions (writes through a pointer held in l do not redefine l)
        if len(defs) != 1 or defs[0][0] != "S":
            return l
        rv = defs[0][3]["rv"]
        src = rv["p"] if rv["k"] in ("ref", "rawptr") else (rv["o"]["p"] if rv["k"] == "use" and rv["o"]["k"] in ("copy", "move") else None)
        if src is None or any(p["k"] != "deref" and not (fields and p["k"] == "field") for p in src["proj"]):
            return l
        l = src["l"]
    return l


def _reset_before_run(prog, b, l, run_call, loop):
    """A call f(&mut ctx, ..) in the same loop iteration that dominates the run and whose body unconditionally empties the
    sample store (SampleCollection::clear on self.samples), the per-input counts and resets did_run."""
    for c in b.live_calls():
        if not c.args or _root_local(b, c.args[0]) != l or c.bb == run_call.bb:
            continue
        if not b.dominates(c.bb, run_call.bb):
            continue
        il = b.innermost_loop(c.bb)
        if (il["header"] if il else None) != (loop["header"] if loop else None):
            continue
        fb = prog.bodies.get((b.crate, c.callee, -1))
        if fb is None:
            continue
        rets = fb.returns
        def uncond(bb):
            return all(fb.dominates(bb, r) for r in rets)
        clears = [x for x in fb.live_calls() if x.callee.endswith("SampleCollection::clear") and uncond(x.bb)
                  and {z.label() for z in fb.prov.op_src(x.args[0]) if z.kind == "param"} == {"param:self.samples"}]
        counts = [x for x in fb.live_calls() if x.callee.endswith("clear_input_counts") and uncond(x.bb)]
        didrun = [(bi, s) for bi, si, s in fb.stmts() if s["k"] == "assign" and place_fields(s["p"]) == ("did_run",) and const_int(s["rv"].get("o", {"k": ""})) == 0 and uncond(bi)]
        if clears and counts and didrun:
            return True
    # the same reset written in place (or a reset helper spliced in by lib.inline): in this body, before the run, in the same
    # iteration, on the context `l` itself
    def here(bb):
        il = b.innermost_loop(bb)
        return b.dominates(bb, run_call.bb) and bb != run_call.bb and (il["header"] if il else None) == (loop["header"] if loop else None)
    clears = [x for x in b.live_calls() if x.callee.endswith("SampleCollection::clear") and here(x.bb) and x.args and _root_local(b, x.args[0], fields=True) == l]
    counts = [x for x in b.live_calls() if x.callee.endswith("clear_input_counts") and here(x.bb) and x.args and _root_local(b, x.args[0], fields=True) == l]
    didrun = [bi for bi, si, s in b.stmts() if s["k"] == "assign" and place_fields(s["p"])[-1:] == ("did_run",) and const_int(s["rv"].get("o", {"k": ""})) == 0 and here(bi) and
              _root_local(b, {"k": "copy", "p": {"l": s["p"]["l"], "proj": [], "ty": ""}}, fields=True) == l]
    return bool(clears and counts and didrun)


def r03_6(ctx, S, prog, crate):
    """Every run whose statistics are reported starts from an empty sample store: the BenchContext handed to the Bencher
    is built by the one constructor in the same loop iteration (or straight-line code) as the run and the compute_stats
    call that reports it; the constructor initialises `samples` with Default::default() and `did_run` with false."""
    cs_name = None
    for c in prog.callers_of("BenchContext::compute_stats", crates=[crate]):
        if "::tests::" in c.body.path or "::test::" in c.body.path:
            continue
        cs_name = c.callee
        b = c.body
        ctx.saw(b)
        l = _root_local(b, c.args[0])
        defs = b.prov.defs.get(l, []) if l is not None else []
        news = [b.call_at(d[1]) for d in defs if d[0] == "C"]
        ok = len(defs) == 1 and len(news) == 1
        key = [b.path, "context-of-compute_stats"]
        if not ctx.check(ok and news[0].callee.endswith("BenchContext::new"), "R03.6", key + ["built-by-the-constructor"],
                         "the context whose statistics are reported is not a local built by a single BenchContext::new call", c.line()):
            continue
        n = news[0]
        # the Bencher that runs the benchmark wraps this very context
        bn = [x for x in b.live_calls() if x.callee.endswith("Bencher::new")]
        okb = len(bn) == 1 and _root_local(b, bn[0].args[0]) == l
        if not ctx.check(okb, "R03.6", key + ["is-the-context-that-ran"], "Bencher::new does not wrap the context whose statistics are reported", c.line()):
            continue
        # same iteration: constructor, run and report share their innermost loop, in that order
        li = [b.innermost_loop(x.bb) for x in (n, bn[0], c)]
        heads = [x["header"] if x else None for x in li]
        same = heads[0] == heads[1] == heads[2]
        order = b.dominates(n.bb, bn[0].bb) and b.dominates(bn[0].bb, c.bb)
        if not (same and order) and b.dominates(n.bb, bn[0].bb) and heads[1] == heads[2]:
            # accepted idiom: one context reused, but emptied by a reset call in the same iteration before the run
            if _reset_before_run(prog, b, l, bn[0], li[1]):
                same = order = True
                ctx.note("R03.6: context reused across runs and emptied by a reset call before each run (accepted idiom)")
        ctx.check(same and order, "R03.6", key + ["fresh-per-run"],
                  "BenchContext::new (loop %s), the run (loop %s) and compute_stats (loop %s) are not in the same iteration: samples of an earlier run "
                  "would be reported again" % tuple(heads), n.line(), detail={"loops": heads})
        # nothing else writes the context's fields in this body
        wr = [(bi, si) for bi, si, s in b.stmts() if s["k"] == "assign" and s["p"]["l"] == l and s["p"]["proj"]]
        ctx.check(not wr, "R03.6", key + ["not-patched-after-construction"], "fields of the context are overwritten in %s" % b.path, b.where(wr[0][0]) if wr else None)
    if not ctx.anchor("R03.6", "non-test callers of BenchContext::compute_stats", 1 if cs_name else 0, 1):
        return
    # the constructor
    nb = prog.body("benchmark::BenchContext::new", crate)
    if ctx.anchor("R03.6", "BenchContext::new", 1 if nb else 0, 1):
        ctx.saw(nb)
        aggs = [(bi, s) for bi, si, s in nb.stmts() if s["k"] == "assign" and s["rv"]["k"] == "agg" and s["rv"]["ak"] == "adt" and norm(s["rv"]["adt"]) == "benchmark::BenchContext"]
        if ctx.check(len(aggs) == 1, "R03.6", ["BenchContext::new", "one-aggregate"], "BenchContext aggregates in new(): %d" % len(aggs), nb.where(0)):
            bi, s = aggs[0]
            rv = s["rv"]
            o = rv["ops"][rv["fields"].index("samples")]
            d = direct_place(nb, o)
            ctx.check(d is not None and d[0] == "call" and d[1].callee.endswith("Default>::default") or (d is not None and d[0] == "call" and d[1].callee.endswith("Default::default")),
                      "R03.6", ["BenchContext::new", "samples-empty"], "new() does not start with SampleCollection::default()", nb.where(bi))
            o = rv["ops"][rv["fields"].index("did_run")]
            ctx.check(const_int(o) == 0, "R03.6", ["BenchContext::new", "did_run-false"], "new() does not start with did_run = false", nb.where(bi))
    # who may construct: no BenchContext aggregate outside the constructor (tests excepted)
    others = []
    for x in prog.lib_bodies(crate):
        if x.path == "benchmark::BenchContext::new" or "::tests::" in x.path or "::test::" in x.path:
            continue
        for bi, si, s in x.stmts():
            if s["k"] == "assign" and s["rv"]["k"] == "agg" and s["rv"]["ak"] == "adt" and norm(s["rv"]["adt"]) == "benchmark::BenchContext":
                others.append(x.path)
    ctx.check(not others, "R03.6", ["BenchContext", "single-constructor"], "BenchContext is also built in %s" % sorted(set(others)), None)
    # SampleCollection::default is the derived (all-empty) one
    imp = [i for i in prog.impls(crate) if i.get("trait", "").endswith("Default") and "SampleCollection" in i.get("self", "")]
    ctx.check(len(imp) == 1 and imp[0].get("derived"), "R03.6", ["SampleCollection", "derived-Default"], "SampleCollection's Default is not the derived one: %s" % imp, None)


def r03_7(ctx, S, prog, crate):
    """Test mode is what the entry point asked for: the SharedContext that initial_mode reads is_test() from carries the
    action requested of run_action (shared with R14.2), and initial_mode selects Test exactly on that flag (R19.1)."""
    from .C14 import requested_action_governs
    requested_action_governs(ctx, "R03.7", prog, crate)


def bench_mode_tables(ctx, rule, prog, crate):
    """The mode predicates the sampling rules take at their word: is_test/is_tune/is_collect are true for exactly their
    variant, and sample_size() is 1 in test mode and the variant's own sample size otherwise."""
    from rules.common import variant_predicates, variant_table
    variant_predicates(ctx, rule, prog, crate, "benchmark::BenchMode", 3)
    b = prog.body("benchmark::BenchMode::sample_size", crate)
    if ctx.anchor(rule, "BenchMode::sample_size", 1 if b else 0, 1):
        ctx.saw(b)
        t = variant_table(prog, b, crate)
        if ctx.check(t is not None, rule, ["sample_size", "decided-by-variant"], "cannot read BenchMode::sample_size as a function of the variant", b.where(0)):
            for v, e in sorted(t.items()):
                adt = prog.adt("benchmark::BenchMode", crate)
                has_payload = any(x["fields"] for x in adt["variants"] if x["name"] == v)
                if has_payload:
                    ok = e[0] == "payload" and e[1] == v and "('arg', 1" in str(e[3])
                    ctx.check(ok, rule, ["sample_size", v, "own-payload"], "BenchMode::%s.sample_size() is %s, expected the variant's own sample size" % (v, e), b.where(0))
                else:
                    ctx.check(e == ("int", 1), rule, ["sample_size", v, "one"], "BenchMode::%s.sample_size() is %s, expected 1" % (v, e), b.where(0))


def r03_8(ctx, prog, crate):
    bench_mode_tables(ctx, "R03.8", prog, crate)


def r03_9(ctx, prog, crate):
    """Test mode is what the command line asked for: the CLI action table (C14's R14.7, reported here under this property)."""
    from rules.C14 import cli_action_table
    cli_action_table(ctx, "R03.9", prog, crate)


def r03_10(ctx, prog, crate):
    """(= R15.1) The options the sampling loop obeys are merged field by field: `BenchOptions::overwrite` takes each field
    from the same field of the other side only - a max_time that leaked into min_time (or into sample_count / sample_size)
    would change the number of recorded samples although no limit was reached."""
    from .C15 import r15_1
    from .common import Renamed
    r15_1(Renamed(ctx, "R03.10"), prog, crate)


def run_extra(ctx):
    """R03.11 (= R15.7) sample_count, sample_size and threads are in force as written: every option written in an
    attribute is emitted into the BenchOptions field of the same name with the value as written (`threads = false` is
    Some([1]), not an unset field that inherits an enclosing group's thread counts) - on the macro expansions (engine E3)."""
    from . import C15
    from .common import Renamed
    C15.run_extra(Renamed(ctx, "R03.11"))


def r03_12(ctx, prog, crate):
    """T is the thread count that was written: the conversion the macros emit for a scalar `threads = N`
    (<usize as IntoThreads<0>>::into_threads) answers with a borrowed constant only on a path that has tested `self == k`
    for that very k (the literals of the promoted arrays are exactly the tested values), and with an owned list built from
    `self` otherwise - no table looked up by a function of N (log2, clamping), which would round other counts."""
    from lib.patheval import PathEval
    path = "<usize as __private::IntoThreads<0>>::into_threads"
    b = prog.body(path, crate)
    if not ctx.anchor("R03.12", "IntoThreads<0> for usize", 1 if b else 0, 1):
        return
    ctx.saw(b)
    sums = PathEval(b).run()
    if not ctx.check(bool(sums), "R03.12", ["into_threads(usize)", "readable"], "cannot summarise", b.where(0)):
        return
    tested = set()
    owned = 0
    for sm in sums:
        vals = [a[2] for a, pol in sm.conds if a[0] == "val" and a[1] == ("arg", 1, ()) and pol]
        other = [a for a, pol in sm.conds if not (a[0] == "val" and a[1] == ("arg", 1, ()))]
        r = sm.ret
        if r[0] == "adt" and r[2] == "Borrowed":
            ok = len(vals) == 1 and isinstance(vals[0], int) and not other
            if ok:
                tested.add(vals[0])
            ctx.check(ok, "R03.12", ["into_threads(usize)", "constant-only-for-a-tested-value"],
                      "a borrowed constant list is returned on a path that did not test `self == k` (conditions %s)" % [str(c[0])[:50] for c in sm.conds][:3], b.where(sm.blocks[-1]))
        elif r[0] == "adt" and r[2] == "Owned":
            owned += 1
            srcs = set()
            for bi, si, st in b.stmts():
                if st["k"] == "assign" and st["rv"]["k"] == "agg" and st["rv"].get("ak") == "array":
                    for o in st["rv"]["ops"]:
                        srcs |= {x.label() for x in b.prov.op_src(o)}
            ctx.check(srcs == {"param:" + b.param_name(1)}, "R03.12", ["into_threads(usize)", "owned-list-is-[self]"],
                      "the owned list is built from %s, expected exactly [self]" % sorted(srcs), b.where(sm.blocks[-1]))
        else:
            ctx.fail("R03.12", ["into_threads(usize)", "result-shape"], "a path returns %s" % str(r)[:80], b.where(sm.blocks[-1]))
    lits = set()
    for k, pb in prog.bodies.items():
        if k[0] == crate and k[1] == path and k[2] >= 0:
            for bi, si, st in pb.stmts():
                if st["k"] == "assign" and st["rv"]["k"] == "agg" and st["rv"].get("ak") == "array":
                    lits.add(tuple(int(o["c"]["bits"]) for o in st["rv"]["ops"] if o["k"] == "const"))
    ctx.check(lits == {(v,) for v in tested} and owned >= 1, "R03.12", ["into_threads(usize)", "constants-are-the-tested-values"],
              "promoted constant lists %s vs tested values %s (owned paths: %d)" % (sorted(lits), sorted(tested), owned), b.where(0))


def run(ctx, prog, crate):
    r03_12(ctx, prog, crate)
    r03_10(ctx, prog, crate)
    r03_8(ctx, prog, crate)
    r03_9(ctx, prog, crate)
    S = Sampling(prog, crate)
    if not ctx.anchor("R03.1", "sampling loop", 1 if S.body is not None and S.loop is not None and S.cond_switch is not None else 0, 1):
        return
    ctx.saw(S.body)
    r03_1(ctx, S, prog, crate)
    r03_2(ctx, S, prog, crate)
    r03_3(ctx, S, prog, crate)
    r03_4(ctx, S, prog, crate)
    r03_5(ctx, prog, crate)
    r03_6(ctx, S, prog, crate)
    r03_7(ctx, S, prog, crate)
