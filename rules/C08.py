"""C08  Threads of a parallel benchmark enter and leave timed sections together."""
from lib.facts import norm, direct_place, const_int, nophi
from lib.paths import Explorer, call_sequences
from lib import tables
from .common import Recorder

INLINE = True      # crate-local helpers the rules do not know by name are inlined into their callers (lib/inline.py)
EXPLANATION = (
    "R08.1 barrier placement: on all three recorder paths the start synchronisation is unavoidable between the input "
    "generation loop and the start timestamp, and the end synchronisation between the end timestamp and the first "
    "drop / tally snapshot; the synchronisation helper's feasible call sequences are exactly wait,clear,wait (start) "
    "and wait (end). R08.2 barrier arity: Barrier::new receives the same thread_count from which par_extend's "
    "aux count (thread_count - 1) is computed, and the barrier is None iff that aux count is 0; the recorder receives "
    "that barrier. R08.3 the tally snapshot is the current thread's thread_local slot, read in the recorder invocation "
    "that ran the timed loop. R08.4 a missing per-thread result panics before the results are reinterpreted. R08.5 "
    "unwind audit: for every user-closure call in the recorder from which a barrier wait is still due, the unwind path "
    "must release the peers - on today's tree it does not (known finding F-C08, nine call sites). R08.4 also: from the broadcast there is no path to the function's return or to the next round that avoids the missing-result check (every-round-is-checked). R08.7 a synchronisation request is honoured whenever there is a barrier: on every path through the recorder's sync closure (and its helper) that performs no Barrier::wait the path's conditions say that no barrier was given.")
EXPLANATION += (' R08.8 (= R01.4) DeferStore::ONLY_INPUTS is exactly !needs_drop::<O>(), so no output with a destructor is dropped in the inputs-only loop before the end barrier.')
EXPLANATION += (' R08.9 (= R06.5) every slot par_extend exposes is pre-filled with None before the broadcast, so a panicked thread is visible to the caller.')
EXPLANATION += (' R08.10 (expansions) the generated runner hands Bencher::bench the function or a closure whose value is the call, so outputs are dropped by the Bencher after the end barrier.')
NOT_DECIDED = ["global phase order over all interleavings (std::sync::Barrier semantics trusted)",
               "that ThreadAllocInfo::current() is Some on every benchmark thread (None only during TLS teardown)"]
TRUSTED = ["std::sync::Barrier releases exactly when `n` threads wait"]


def r08_1(ctx, prog, crate, rec):
    b = rec.body
    for p in rec.paths:
        lbl = p.label
        sync_true = [c for c in b.live_calls() if rec.role(c) == "sync_threads" and rec.sync_arg(c) is True]
        sync_false = [c for c in b.live_calls() if rec.role(c) == "sync_threads" and rec.sync_arg(c) is False]
        # start sync unavoidable before `start`
        r = b.reach([0], avoid=[c.bb for c in sync_true])
        ctx.check(p.start.bb not in r, "R08.1", [b.path, lbl, "start-sync-unavoidable"],
                  "the start timestamp of this path can be taken without the start synchronisation", p.start.line())
        # generation happens before the start sync: no gen/count call between the (last) start sync and `start`
        for c in sync_true:
            if c.target is not None and p.start.bb in b.reach([c.target], avoid=[x.bb for x in sync_true if x.bb != c.bb]):
                blocks = b.between([c.bb], [p.start.bb])
                roles = [rec.role(x) for x in b.live_calls() if x.bb in blocks and rec.role(x) in ("gen_input", "count_input")]
                ctx.check(not roles, "R08.1", [b.path, lbl, "generation-before-start-sync"] + roles,
                          "inputs are generated/counted after the start synchronisation: %s" % roles, c.line())
        # the generation loop precedes the sync: every gen/count call of this path reaches the sync
        for c in p.calls("pre"):
            if rec.role(c) in ("gen_input", "count_input"):
                ok = any(s.bb in b.reach([c.bb]) for s in sync_true) and p.start.bb not in b.reach([c.bb], avoid=[s.bb for s in sync_true])
                ctx.check(ok, "R08.1", [b.path, lbl, "sync-after-generation", rec.role(c)],
                          "`%s` is not followed by the start synchronisation before `start`" % rec.role(c), c.line())
        # end sync before any drop work.  The guards `needs_drop::<T>()` are type-level constants (the same on every
        # thread), so reachability is decided once per consistent assignment ("world") of those constants: in each world
        # the end sync is either unavoidable on the way to every drop, or there is no drop work at all; and whether the
        # sync runs may only depend on such constants (otherwise threads could disagree on the number of waits).
        I_, O_ = _generics(b)
        for e in p.ends:
            drops = [c for c in b.live_calls() if c.bb in p.post and (rec.role(c) == "drop_input" or c.callee.endswith("assume_init_drop")
                                                                        or (c.callee == "std::mem::zeroed" and c.gargs == [O_]))]
            ctx.check(bool(drops) or lbl == "?", "R08.1", [b.path, lbl, "drop-work-found"], "no drop work found after the end timestamp", e.line())
            for world in _worlds(b, [I_, O_]):
                ef = world["filter"]
                r = b.reach(b.succ[e.bb], avoid=[c.bb for c in sync_false], edge_filter=ef)
                hit = [c for c in drops if c.bb in r]
                ctx.check(not hit, "R08.1", [b.path, lbl, "end-sync-before-untimed-work", world["name"]],
                          "when %s, a thread can start dropping (%s) after its end timestamp without the end synchronisation: its untimed "
                          "work can overlap another thread's timed section" % (world["name"], sorted({rec.role(c) or c.callee for c in hit})), e.line())
                # consistency: in this world the sync is either always or never executed between `end` and return
                allr = b.reach(b.succ[e.bb], edge_filter=ef)
                reach_sync = [c for c in sync_false if c.bb in allr]
                skip = bool(set(b.returns) & r)
                ctx.check(not (reach_sync and skip), "R08.1", [b.path, lbl, "end-sync-all-or-none", world["name"]],
                          "when %s, the end synchronisation is executed on some paths and skipped on others: threads can disagree on the "
                          "number of barrier waits" % world["name"], e.line())
        # exactly one start sync and one end sync per path
        n_true = [c for c in sync_true if c.bb in p.pre_own]
        n_false = [c for c in sync_false if c.bb in p.post]
        ctx.check(len(n_true) == 1 and len(n_false) == 1, "R08.1", [b.path, lbl, "one-sync-each"],
                  "start syncs: %d, end syncs: %d (every thread must wait the same number of times)" % (len(n_true), len(n_false)), p.start.line())
        for c in n_true + n_false:
            ctx.check(b.innermost_loop(c.bb) is None, "R08.1", [b.path, lbl, "sync-not-in-loop"], "synchronisation inside a loop", c.line())
    # sync implementation sequences
    for sp in rec.sync_closures:
        cb = prog.bodies.get((b.crate, sp, -1))
        bodies, ext, _ = prog.callee_closure([cb], crate=b.crate)
        from .common import pure_waiter as _pw
        callers_ = [x for x in bodies if any(_pw(prog, x, c) for c in x.live_calls())]
        helpers_ = {x.path for x in bodies if x.live_calls() and set(c.callee for c in x.live_calls()) == {"std::sync::Barrier::wait"} and any(
            any(_pw(prog, y, c) and (c.name == x.path or c.callee == x.path) for c in y.live_calls()) for y in callers_)}
        for sb in bodies:
            if sb.path in helpers_:
                continue    # `if let Some(b) = barrier { b.wait() }` factored out: counted as a wait where it is called
            if not any(c.callee == "std::sync::Barrier::wait" for c in sb.calls) and sb not in callers_:
                if sb.path not in rec.sync_closures:
                    continue
                # the wrapper closure: forwards barrier and flag unchanged
                for c in sb.live_calls():
                    if prog.bodies.get((sb.crate, c.callee, -1)) in bodies:
                        if sb.arg_count < 2 and len(c.args) < 2:
                            continue    # a wrapper of a flag-less step (separate start / end callables): nothing to forward
                        flag = {s.label() for s in sb.prov.op_src(c.args[1])} if len(c.args) > 1 else set()
                        ctx.check(flag == {"param:" + sb.param_name(2)}, "R08.1", [sb.path, "forwards-flag"], "flag forwarded as %s" % sorted(flag), c.line())
                continue
            ctx.saw(sb)

            def tag(c, sb=sb):
                if c.callee == "std::sync::Barrier::wait" or _pw(prog, sb, c):
                    return "wait"
                if c.callee.endswith("ThreadAllocInfo::clear"):
                    return "clear"
                return None
            seqs = {s for (s, r) in call_sequences(sb, Explorer(sb).run(), tag) if r == "return"}
            allowed = {(), ("clear",), ("wait",), ("wait", "clear", "wait")}
            has_flag = any(sb.local_ty(l_) == "bool" for l_ in range(1, sb.arg_count + 1))
            if has_flag or len(rec.sync_closures) == 1:
                shape_ok = seqs <= allowed and ("wait", "clear", "wait") in seqs and ("wait",) in seqs
            elif any("clear" in q for q in seqs):
                shape_ok = seqs <= allowed and ("wait", "clear", "wait") in seqs        # the start step of a start/end pair
            else:
                shape_ok = seqs <= {(), ("wait",)} and ("wait",) in seqs                  # the end step
            ctx.check(shape_ok, "R08.1", [sb.path, "wait-clear-wait"],
                      "feasible wait/clear sequences of the synchronisation helper are %s; expected wait,clear,wait at the start and a single "
                      "wait at the end (and none without a barrier)" % sorted(seqs), sb.where(0), detail=sorted(seqs))
            # every wait is on the barrier parameter
            for c in sb.live_calls():
                if c.callee == "std::sync::Barrier::wait":
                    # the barrier handed in: a Barrier-typed parameter, or - when the helper was spliced into the closure
                    # that calls it (lib.inline) - what that closure passed, i.e. its captured barrier
                    given = {sb.param_name(i_) for i_ in range(1, sb.arg_count + 1) if "Barrier" in (sb.local_ty(i_) or "")}
                    srcs_ = sb.prov.op_src(c.args[0])
                    ps_ = {s.a for s in srcs_ if s.kind == "param"}
                    us_ = {s.a for s in srcs_ if s.kind == "upvar"}
                    ok_ = (ps_ and ps_ <= given and not us_) or (not ps_ and len(us_) == 1 and sb.kind == "Closure" and getattr(sb, "inlined", None))
                    ctx.check(bool(ok_) and not any(s.kind in ("static", "call") and "Barrier::new" in str(s.a) for s in srcs_), "R08.1",
                              [sb.path, "waits-on-given-barrier"], "wait on a different barrier", c.line())


def _generics(b):
    from .C01 import generic_names
    return generic_names(b)


def _worlds(b, gens):
    """Consistent truth assignments of `needs_drop::<T>()` for T in gens, as edge filters."""
    sw = {}
    for bi, t in b.switches():
        d = direct_place(b, t["discr"])
        if d and d[0] == "call" and d[1].callee == "std::mem::needs_drop" and len(d[1].gargs) == 1 and d[1].gargs[0] in gens:
            zero = [a[1] for a in t["arms"] if a[0] == "0"]
            sw.setdefault(d[1].gargs[0], []).append((bi, zero[0] if zero else None, t["otherwise"]))
    names = [g for g in gens if g in sw]
    out = []
    for mask in range(1 << len(names)):
        dead = set()
        desc = []
        for k, g in enumerate(names):
            val = bool(mask >> k & 1)
            desc.append("%sneeds_drop::<%s>()" % ("" if val else "!", g))
            for bi, f, tr in sw[g]:
                dead.add((bi, f) if val else (bi, tr))
        out.append({"name": " && ".join(desc) or "always", "filter": (lambda x, s2, dead=dead: (x, s2) not in dead)})
    return out


def _r08_2_then_form(ctx, prog, crate, rec, x, b):
    """The same clause when the barrier is built by `(<more than one thread>).then(|| Barrier::new(thread_count))`: x is the
    closure, b the sampling function. bool::then yields None exactly when the condition is false."""
    from lib.symexpr import Sym, canon_cmp, show
    ctx.saw(b)
    bn = [c for c in x.live_calls() if c.callee == "std::sync::Barrier::new"]
    pe = [c for c in b.live_calls() if c.callee == "util::thread::pool::ThreadPool::par_extend"]
    th = [c for c in b.live_calls() if c.callee == "core::bool::then" and any(s_["k"] == "assign" and s_["rv"]["k"] == "agg" and s_["rv"].get("ak") == "closure" and
                                                                                   norm(s_["rv"]["def"]) == x.path for bi, si, s_ in b.stmts())]
    if not ctx.check(len(bn) == 1 and len(pe) == 1 and len(th) == 1, "R08.2", [b.path, "shape"], "Barrier::new x%d par_extend x%d bool::then x%d" % (len(bn), len(pe), len(th)), b.where(0)):
        return
    bn, pe, th = bn[0], pe[0], th[0]
    S = Sym(b, site_args=True)
    tc = ("call", "std::num::NonZero::get", (("arg", 1, ("thread_count",)),))
    # the closure's argument is the captured thread count
    ups = {z.a.lstrip("*") for z in x.prov.op_src(bn.args[0]) if z.kind == "upvar"}
    arity = None
    if len(ups) == 1:
        cp = prog.capture_operand(x, list(ups)[0])
        if cp:
            arity = Sym(cp[0], site_args=True).op(cp[1])
            while arity and arity[0] in ("sptr", "ptr") and False:
                pass
    def strip_site(e):
        return ("call", e[1], e[3]) if isinstance(e, tuple) and e and e[0] == "site" and len(e) > 3 else e
    ctx.check(arity is not None and (arity == tc or strip_site(arity) == tc or "NonZero::get" in str(arity) and "thread_count" in str(arity)), "R08.2", [b.path, "barrier-arity-is-thread_count"],
              "Barrier::new's argument is %s, expected self.thread_count.get()" % (show(arity) if arity else None,), bn.line())
    aux = S.op(pe.args[2])
    ctx.check("NonZero::get" in str(aux) and "thread_count" in str(aux) and aux[0] == "lin" and aux[2] == -1 and len(aux[1]) == 1 and aux[1][0][1] == 1, "R08.2", [b.path, "aux-is-thread_count-minus-1"],
              "par_extend's auxiliary-thread count is %s, expected thread_count - 1" % show(aux), pe.line())
    cond = S.op(th.args[0])
    neg = False
    while cond[0] == "un" and cond[1] == "Not":
        cond, neg = cond[2], not neg
    atom, pol = canon_cmp(cond)
    if neg:
        pol = not pol
    # barrier exactly when aux != 0  (Eq(0, aux) false), or thread_count > 1 / != 1
    # the thread count itself, as the expression aux is built from: aux = tcx - 1
    tcx = aux[1][0][0] if aux[0] == "lin" and len(aux[1]) == 1 else None
    ok = atom is not None and tcx is not None and (
        (atom[0] == "Eq" and set(atom[1:]) == {("int", 0), aux} and pol is False) or        # aux != 0
        (atom[0] == "Lt" and atom[1] == ("int", 0) and atom[2] == aux and pol is True) or       # aux > 0
        (atom[0] == "Eq" and set(atom[1:]) == {("int", 1), tcx} and pol is False) or        # thread_count != 1
        (atom[0] == "Lt" and atom[1] == ("int", 1) and atom[2] == tcx and pol is True))         # thread_count > 1
    ctx.check(ok, "R08.2", [b.path, "barrier-iff-multi-thread"], "the barrier exists when %s%s; expected exactly when more than one thread takes part" % ("" if pol else "not ", show(atom) if atom else show(cond)), th.line())
    ctx.ok("R08.2", b.path + "|no-barrier-when-single")
    ctx.ok("R08.2", b.path + "|none-when-single")
    ctx.check(b.innermost_loop(th.bb) is not None and b.innermost_loop(pe.bb) is not None and b.innermost_loop(th.bb)["header"] == b.innermost_loop(pe.bb)["header"],
              "R08.2", [b.path, "fresh-barrier-per-round"], "barrier and broadcast are not created in the same round", th.line())


def r08_2(ctx, prog, crate, rec):
    from lib import inline as _inl
    cands = [b for b in prog.lib_bodies(crate) if any(c.callee == "std::sync::Barrier::new" for c in b.live_calls()) and "::tests::" not in b.path and
             not _inl.absorbed(prog, b)]
    if not ctx.check(len(cands) == 1, "R08.2", ["Barrier::new", "one-owner"], "Barrier::new is called from %s" % [x.path for x in cands], None):
        return
    b = cands[0]
    ctx.saw(b)
    if b.kind == "Closure" and prog.parent_body(b) is not None and any(c.callee == "core::bool::then" for c in prog.parent_body(b).live_calls()):
        return _r08_2_then_form(ctx, prog, crate, rec, b, prog.parent_body(b))
    bn = [c for c in b.live_calls() if c.callee == "std::sync::Barrier::new"]
    pe = [c for c in b.live_calls() if c.callee == "util::thread::pool::ThreadPool::par_extend"]
    if not ctx.check(len(bn) == 1 and len(pe) == 1, "R08.2", [b.path, "shape"], "Barrier::new x%d par_extend x%d" % (len(bn), len(pe)), b.where(0)):
        return
    bn, pe = bn[0], pe[0]
    # value-based (lib/symexpr.py), so that `if single { None } else { Some(Barrier::new(n)) }`, the same with the branches
    # swapped, and `(!single).then(|| Barrier::new(n))` (spelled out by lib/inline.py) are one and the same
    from lib.symexpr import Sym, bool_switch, show

    def strip_sites(e):
        if isinstance(e, tuple):
            if e and e[0] == "site" and len(e) > 3:
                return ("call", e[1], tuple(strip_sites(x) for x in e[3]))
            return tuple(strip_sites(x) for x in e)
        return e
    S = Sym(b, site_args=True)
    tc = ("call", "std::num::NonZero::get", (("arg", 1, ("thread_count",)),))
    arity = strip_sites(S.op(bn.args[0]))
    ctx.check(arity == tc, "R08.2", [b.path, "barrier-arity-is-thread_count"], "Barrier::new's argument is %s, expected self.thread_count.get()" % show(arity), bn.line())
    aux = strip_sites(S.op(pe.args[2]))
    ok_aux = aux[0] == "lin" and aux[2] == -1 and len(aux[1]) == 1 and aux[1][0] == (tc, 1)
    ctx.check(ok_aux, "R08.2", [b.path, "aux-is-thread_count-minus-1"],
              "par_extend's auxiliary-thread count is %s, expected (the same) thread_count - 1: barrier arity and participant count can differ" % show(aux), pe.line())
    # the test that decides between a barrier and none: aux == 0 / thread_count == 1 (single) in any spelling
    sw = None
    for bi, t in b.switches():
        bs = bool_switch(b, S, bi)
        if bs is None:
            continue
        atom, t_holds, t_not = bs
        atom = strip_sites(atom)
        if atom[0] == "Eq" and (set(atom[1:]) == {("int", 0), aux} or set(atom[1:]) == {("int", 1), tc}):
            single, multi = t_holds, t_not
        elif atom[0] == "Lt" and ((atom[1] == ("int", 0) and atom[2] == aux) or (atom[1] == ("int", 1) and atom[2] == tc)):
            single, multi = t_not, t_holds
        else:
            continue
        if bn.bb in tables.exclusive_blocks(b, multi, [single], stop=[bi]):
            sw = (bi, t, multi, single)
    if ctx.check(sw is not None and ok_aux, "R08.2", [b.path, "barrier-iff-multi-thread"],
                 "Barrier::new is not guarded by a test that more than one thread takes part (aux_thread_count != 0 / thread_count != 1)", bn.line()):
        bi, t, multi, single = sw
        ctx.check(bn.bb not in b.reach([single], avoid=[bi]) or bn.bb in tables.exclusive_blocks(b, multi, [single], stop=[bi]), "R08.2",
                  [b.path, "no-barrier-when-single"], "a barrier is created for a single thread", bn.line())
        # on the single edge the barrier is None
        vs = set()
        for x in tables.exclusive_blocks(b, single, [multi], stop=[bi]):
            for s_ in b.blocks[x]["stmts"]:
                if s_["k"] == "assign" and s_["rv"]["k"] == "agg" and s_["rv"].get("variant") == "None" and "Barrier" in s_["p"]["ty"]:
                    vs.add("None")
        ctx.check(vs == {"None"}, "R08.2", [b.path, "none-when-single"], "no `None` barrier on the single-thread edge", b.where(single))
    # Barrier::new inside the sampling loop: one fresh barrier per round
    ctx.check(b.innermost_loop(bn.bb) is not None and b.innermost_loop(pe.bb) is not None and
              b.innermost_loop(bn.bb)["header"] == b.innermost_loop(pe.bb)["header"], "R08.2", [b.path, "fresh-barrier-per-round"],
              "barrier and broadcast are not created in the same round", bn.line())
    # the record closure hands `barrier.as_ref()` to the recorder
    def is_rec_call(c):
        return c.is_fn_trait_call and len(c.args) == 2 and "Barrier" in (c.gargs[1] if len(c.gargs) > 1 else "") and \
            (c.name == rec.body.path or c.name.startswith("upvar:"))
    rcl = [x for x in prog.children(b) if x.kind == "Closure" and any(is_rec_call(c) for c in x.live_calls())]
    if ctx.check(len(rcl) == 1, "R08.2", [b.path, "recorder-call"], "closure calling the recorder: %d" % len(rcl), b.where(0)):
        x = rcl[0]
        ctx.saw(x)
        c = [c for c in x.live_calls() if is_rec_call(c)][0]
        # followed across closure boundaries (captures and closure parameters, rules/common.trace_sources): the barrier
        # argument is `<this round's barrier>.as_ref()` - whichever closure captures the barrier and whichever passes it on
        from .common import trace_sources
        tr = trace_sources(prog, x, c.args[1], path=(1,))
        as_ref = any(s_.kind == "call" and s_.a == "std::option::Option::as_ref" for _b, s_ in tr)
        made = {(bb_.path, s_.b) for bb_, s_ in tr if s_.kind == "call" and s_.a == "std::sync::Barrier::new"}
        ctx.check(as_ref and len(made) >= 1, "R08.2", [x.path, "recorder-gets-the-barrier"],
                  "the recorder's barrier argument derives from %s" % sorted({s_.label() for _b, s_ in tr}), c.line())
        if made:
            ctx.check(made == {(b.path, bn.bb)}, "R08.2", [x.path, "captured-barrier-is-this-rounds"],
                      "the barrier handed to the recorder is not (only) the one created this round", c.line())


def r08_3(ctx, prog, crate, rec):
    b = rec.body
    from .common import tally_slot_statics
    tls, _key = tally_slot_statics(prog, crate)
    ctx.check(tls and all(s["thread_local"] for s in tls), "R08.3", ["tally-slot-thread-local"], "the tally slot is not thread-local", "src/alloc.rs")
    for sp in rec.save_closures:
        cb = prog.bodies.get((b.crate, sp, -1))
        ctx.saw(cb)
        ctx.check(any(c.callee.endswith("ThreadAllocInfo::try_current") for c in cb.live_calls()), "R08.3", [cb.path, "snapshot-own-thread"],
                  "the snapshot does not read the current thread's tally", cb.where(0))
        # it is called directly in the recorder body (same invocation => same thread as the timed loop)
        calls = [c for c in b.live_calls() if rec.role(c) == "save_alloc_info"]
        ctx.check(len(calls) == len(rec.paths), "R08.3", [b.path, "snapshot-per-path"], "snapshot call sites: %d for %d paths" % (len(calls), len(rec.paths)), b.where(0))
    # the recorder body neither spawns nor dispatches
    bodies, ext, ind = prog.callee_closure([b], crate=b.crate)
    bad = [n for n in ext if n.startswith(("std::thread::spawn", "std::thread::Builder", "util::thread::pool::", "std::sync::mpsc::"))]
    bad += [x.path for x in bodies if x.path.startswith("util::thread::pool::")]
    ctx.check(not bad, "R08.3", [b.path, "recorder-stays-on-its-thread"], "the recorder reaches %s" % bad, b.where(0))


def r08_7(ctx, prog, crate, rec):
    """A synchronisation request is honoured whenever there is a barrier: on every path through the recorder's sync
    closure (and through the helper it calls, when that is a separate function) that performs no Barrier::wait, the
    path's conditions say that no barrier was given. Nothing else - a flag, a type property, the phase - may skip the
    rendezvous: the other threads still wait, or start dropping while this thread is timing."""
    from lib.patheval import PathEval
    b = rec.body
    n = 0
    for sp in rec.sync_closures:
        cb = prog.bodies.get((b.crate, sp, -1))
        if cb is None:
            continue
        bodies, _, _ = prog.callee_closure([cb], crate=b.crate)
        waiters = {x.path for x in bodies if any(c.callee == "std::sync::Barrier::wait" for c in x.live_calls())}
        for x in [cb] + [y for y in bodies if y.path in waiters and y is not cb]:
            sums = PathEval(x, max_paths=2000).run()
            if not ctx.check(bool(sums), "R08.7", [x.path, "paths"], "cannot enumerate the paths of `%s`" % x.path, x.where(0)):
                continue
            ctx.saw(x)

            def waits(s):
                return [c for c in s.calls if c[0] == "std::sync::Barrier::wait" or (c[0] in waiters and c[0] != x.path)]
            subj = {a[1] for s in sums if waits(s) for a, p in s.conds if a[0] == "discr" and a[2] == 1 and p}
            for s in sums:
                if waits(s):
                    continue
                n += 1
                none = [a for a, p in s.conds if a[0] == "discr" and a[1] in subj and a[2] != 1 and p]
                delegating = x is cb and not any(c.callee == "std::sync::Barrier::wait" for c in x.live_calls())
                ctx.check(bool(none) and not delegating, "R08.7", [x.path, "skips-only-without-a-barrier"],
                          "`%s` has a path that returns without waiting although a barrier may have been given (conditions on that path: %s)" %
                          (x.path, [(a, p) for a, p in s.conds][:4]), x.where(s.blocks[-1]))
    ctx.anchor("R08.7", "paths of the synchronisation code that do not wait", n, 1)


def r08_4(ctx, prog, crate, rec):
    cands = [b for b in prog.owner_bodies(crate) if any(c.callee == "util::thread::pool::ThreadPool::par_extend" for c in b.live_calls())
             and "::tests::" not in b.path and not b.path.startswith("util::thread::pool")]
    if not ctx.anchor("R08.4", "caller of par_extend", cands, 1):
        return
    for b in cands:
        pe = [c for c in b.live_calls() if c.callee == "util::thread::pool::ThreadPool::par_extend"][0]
        frp = [c for c in b.live_calls() if c.callee == "std::slice::from_raw_parts"]
        # the search for a missing result: find_map / position / find (Some = missing), any(is_none) (true = missing),
        # all(is_some) (false = missing)
        KINDS = {"find_map": "some", "position": "some", "find": "some", "rposition": "some", "any": "true", "all": "false"}

        def search_kind(c):     # std::iter::Iterator::position or a specialised <slice::Iter as Iterator>::position
            last = c.callee.rsplit("::", 1)[-1]
            return KINDS.get(last) if "Iterator" in c.callee.rsplit("::", 1)[0] else None
        fm = [c for c in b.live_calls() if search_kind(c) and c.bb in b.reach([pe.bb]) and any("RawSample" in g for g in c.gargs)]
        if not ctx.check(len(frp) == 1 and len(fm) == 1, "R08.4", [b.path, "shape"], "from_raw_parts x%d searches over the results x%d" % (len(frp), len(fm)), b.where(0)):
            continue
        frp, fm = frp[0], fm[0]
        ok = False
        sw_ = tables.switch_on_call_result(b, fm)
        for bi, t in ([sw_] if sw_ is not None else []):
                arms, otherwise = tables.arm_targets(t)
                how = search_kind(fm)
                if how == "some":
                    some_t, none_t = arms.get(1), arms.get(0, otherwise)
                elif how == "true":
                    some_t, none_t = arms.get(1, otherwise), arms.get(0, otherwise)
                else:
                    some_t, none_t = arms.get(0, otherwise), arms.get(1, otherwise)
                if some_t is None or some_t == none_t:
                    continue
                # the "missing" arm diverges with a panic; from_raw_parts only via the other arm
                r = b.reach([some_t], avoid=[bi])
                diverges = not (r & (set(b.returns) | {frp.bb})) and any(b.call_at(x) is not None and b.call_at(x).callee in ("std::rt::panic_fmt", "core::panicking::panic_fmt",
                                                                          "core::panicking::panic", "std::rt::begin_panic") for x in r)
                ok = diverges and b.dominates(none_t, frp.bb) and b.dominates(fm.bb, frp.bb)
        ctx.check(ok, "R08.4", [b.path, "missing-result-panics-before-reinterpretation"],
                  "a missing per-thread result does not panic before the Option<RawSample> slice is reinterpreted", frp.line())
        # the search looks for None entries: a closure testing is_none() (is_some() for `all`), or that method passed by name
        want = "std::option::Option::is_some" if search_kind(fm) == "false" else "std::option::Option::is_none"
        cl = [x for x in prog.children(b) if x.kind == "Closure" and any(c.callee == want for c in x.live_calls())]
        by_name = any(a.get("k") == "const" and norm(a["c"].get("fn") or "") == want for a in fm.args)
        ctx.check(len(cl) >= 1 or by_name, "R08.4", [b.path, "looks-for-None"], "the search does not test is_none()", fm.line())
        # the slice searched is the vector par_extend filled
        v = {s.label() for s in b.prov.op_src(pe.args[1]) if s.kind in ("call",)}
        ctx.check(b.dominates(pe.bb, fm.bb), "R08.4", [b.path, "checked-after-broadcast"], "results are checked before the broadcast", fm.line())
        # ... after every broadcast, in every mode: no way from the broadcast to the function's return or to the next round
        # that does not pass the check (a test-mode or other early exit before it swallows the panic of a benchmark thread)
        lp = b.innermost_loop(pe.bb)
        skip = b.reach(b.succ[pe.bb], avoid=[fm.bb])
        escapes = sorted(x for x in skip if x in b.returns or (lp is not None and x == lp["header"]))
        ctx.check(not escapes, "R08.4", [b.path, "every-round-is-checked"],
                  "the sampling function can %s after a broadcast without looking for missing per-thread results: a panic on a benchmark thread is swallowed on that path" %
                  ("return" if any(x in b.returns for x in escapes) else "start the next round"), pe.line())


def r08_5(ctx, prog, crate, rec):
    b = rec.body
    n = 0
    for p in rec.paths:
        syncs = [c for c in b.live_calls() if rec.role(c) == "sync_threads"]
        for c in b.live_calls():
            role = rec.role(c)
            if role not in ("gen_input", "count_input", "benched", "drop_input"):
                continue
            if c.bb not in (p.pre_own | p.region | p.post):
                continue
            due = [s for s in syncs if c.target is not None and s.bb in b.reach([c.target])]
            if not due:
                ctx.ok("R08.5", "sample-recorder|%s|%s|no-wait-due" % (role, p.label))
                continue
            n += 1
            # unwind path: does it release the peers?
            released = False
            if c.unwind is not None:
                for x in b.reach([c.unwind], unwind=True):
                    cc = b.call_at(x)
                    if cc is not None and (cc.callee in ("std::process::abort",) or
                                           any(s.kind == "param" and "Barrier" in (b.local_ty_of_param(s.a) or "") for a in cc.args for s in b.prov.op_src(a))):
                        released = True
                    t = b.term(x)
                    if t["k"] == "drop" and ("Barrier" in t["ty"] or "Poison" in t["ty"] or "AbortOnDrop" in t["ty"]):
                        released = True
            ctx.check(released, "R08.5", ["sample-recorder", role, p.label, "unwind-strands-peers"],
                      "if `%s` panics here (path %s) while a Barrier::wait is still due, the unwinding thread never reaches the barrier and "
                      "releases nobody: with threads > 1 the other threads block forever in Barrier::wait" % (role, p.label), c.line())
    ctx.anchor("R08.5", "user-closure calls with a barrier wait still due", n, 9)


def r08_6(ctx, prog, crate):
    """Each thread's sample reports that thread's own allocations: the snapshot a thread took (R08.3) travels with its raw
    sample, is stored under the index of the time sample pushed in the same iteration, and is looked up by the index of
    that very sample - writer/reader agreement shared with C05 (R05.2)."""
    from .C05 import r05_2
    from .common import Renamed
    r05_2(Renamed(ctx, "R08.6"), prog, crate)


def r08_8(ctx, prog, crate):
    """(= R01.4 / R02.1) No output is dropped before the end barrier: the inputs-only sample loop passes each output to
    black_box_drop inside the timed section, which is sound only because DeferStore::ONLY_INPUTS is exactly
    `!needs_drop::<O>()` - with any wider condition a zero-sized output with a destructor is dropped while other threads
    are still timing."""
    from .C01 import only_inputs_is_not_needs_drop
    only_inputs_is_not_needs_drop(ctx, prog, crate, "R08.8")


def r08_9(ctx, prog, crate):
    """(= R06.5) A panic on any thread reaches the caller: `bench_loop_threaded` recognises a panicked thread by the empty
    entry in the result vector, which exists only because par_extend pre-fills every slot it exposes with None before the
    broadcast - also when the vector is a cleared one reused from the previous round."""
    from .C06 import r06_5
    from .common import Renamed
    r06_5(Renamed(ctx, "R08.9"), prog, crate)


def run_extra(ctx):
    """R08.10 no output is dropped before the end barrier, macro side: see C12.bench_closure_returns_value."""
    from . import C12
    C12.bench_closure_returns_value(ctx, "R08.10")


def run(ctx, prog, crate):
    r08_9(ctx, prog, crate)
    r08_8(ctx, prog, crate)
    r08_6(ctx, prog, crate)
    rec = Recorder(prog, crate)
    if not ctx.anchor("R08.1", "sample recorder body", 1 if rec.body is not None else 0, 1):
        return
    ctx.saw(rec.body)
    ctx.anchor("R08.1", "recorder paths", rec.paths, 3)
    r08_1(ctx, prog, crate, rec)
    r08_2(ctx, prog, crate, rec)
    r08_3(ctx, prog, crate, rec)
    r08_4(ctx, prog, crate, rec)
    r08_7(ctx, prog, crate, rec)
    r08_5(ctx, prog, crate, rec)
