"""C06  Pool broadcast runs the task once per index and publishes its effects."""
from lib.facts import norm, place_fields, direct_place, const_int, nophi, origins
from lib import tables

INLINE = True      # crate-local helpers the rules do not know by name are inlined into their callers (lib/inline.py)
EXPLANATION = (
    "Code-level necessary conditions of the broadcast protocol, each decided on every CFG path: R06.1 the reference "
    "count, the send loop bound and the result-slot count derive from the same aux_threads; one send per iteration; "
    "task.run(0) once on the caller, task.run(thread_id) once per received task, ids from threads.len()+1. R06.2 the "
    "worker's decrement uses Release (or stronger), the caller's wait-loop load Acquire (or stronger). R06.3 in the "
    "worker no operand derived from the task pointer is used after the decrement returns (pointer taint), the caller's "
    "Thread handle is cloned before the decrement and unpark is applied to the clone. R06.4 the caller can only return "
    "through the exit edge of the `load > 0` test; Task::run is only called inside closures given to catch_unwind; "
    "calls that can unwind between the first send and the wait loop are an enumerated list. R06.5 result slots are "
    "pre-filled with None and set_len'ed before the broadcast; the task writes slot ptr.add(index) for its own index. "
    "R06.6 spawn only from broadcast_task, under the lock, for the missing count; senders are only appended. R06.7 "
    "Sync/Send bounds of broadcast/par_extend and the exact list of unsafe Send/Sync impls."
    " R06.8 the type-erased hop hands the index through unchanged, once: Task::run makes exactly one call - the function pointer stored in its own task block, with that block and thread_id - and the stored pointer is the trampoline that calls the block's closure exactly once with the index it was given. R06.9 position p of the sender list belongs to the worker with index p+1: spawn appends the ids threads.len()+1.. in order (mapped by nothing but Iterator::map, or pushed once per iteration of a loop over that range) and what it appends for an id is the sender half of the channel whose receiver half and id the started worker captures.")
EXPLANATION += (" R06.5 also: the task closure's base pointer is vec.as_mut_ptr().add(old_len), old_len read before the vector grows.")
EXPLANATION += (" R06.10 util::defer's Drop calls its closure unconditionally (the worker loop's abort guard fires while unwinding).")
NOT_DECIDED = ["exactly-once / happens-before as properties of all interleavings (model-checking family)",
               "semantics of mpsc::sync_channel(0), park/unpark and atomics (trusted std)"]
TRUSTED = ["std::sync::mpsc rendezvous channel, std::thread::park/unpark token semantics, Atomic orderings"]

POOL = "util::thread::pool::"
REL_OK = {"Release", "AcqRel", "SeqCst"}
ACQ_OK = {"Acquire", "SeqCst"}
PTR_PRESERVING = {"std::ptr::NonNull::as_ref", "std::ptr::NonNull::as_ptr", "std::ptr::NonNull::cast", "std::ptr::NonNull::as_mut",
                  "std::ptr::const_ptr::cast", "std::ptr::mut_ptr::cast", "<std::ptr::NonNull<T> as std::clone::Clone>::clone",
                  "<util::thread::pool::Task as std::clone::Clone>::clone", "std::ops::Deref::deref"}


def ordering_of(b, c, idx):
    srcs = b.prov.op_src(c.args[idx])
    return {s.a.rsplit("::", 1)[-1] for s in srcs if s.kind == "variant" and "atomic::Ordering" in s.a}, \
        {s.label() for s in srcs if s.kind not in ("variant",)}


def field_of_arg(b, c, idx=0):
    """last field names the operand's place chain goes through."""
    out = set()
    for s in b.prov.op_src(c.args[idx]):
        if s.b and isinstance(s.b, tuple):
            out |= {f for f in s.b if isinstance(f, str)}
    d = direct_place(b, c.args[idx])
    if d and d[0] == "place":
        out |= {f for f in d[2] if isinstance(f, str)}
    return out


# the blocking receive of the next task: recv() in a while-let, or the receiver iterated by a for loop
RECV = ("std::sync::mpsc::Receiver::recv", "<std::sync::mpsc::Iter<'a, T> as std::iter::Iterator>::next",
        "<std::sync::mpsc::IntoIter<T> as std::iter::Iterator>::next")


def is_recv(c):
    return c.callee in RECV


def recv_arms(w, c):
    """(block taken with a received task, block taken when the channel is closed) after the receive call `c`."""
    sw_ = tables.switch_on_call_result(w, c)
    if sw_ is None:
        return None, None
    arms, otherwise = tables.arm_targets(sw_[1])
    if c.callee == RECV[0]:
        return arms.get(0), arms.get(1, otherwise)       # Result: Ok = 0, Err = 1
    return arms.get(1), arms.get(0, otherwise)           # Option: Some = 1, None = 0


def worker(prog, crate):
    """The worker closure: the body that calls Receiver::recv in a loop."""
    cands = [b for b in prog.owner_bodies(crate) if b.path.startswith(POOL) and any(is_recv(c) for c in b.live_calls())]
    return cands[0] if len(cands) == 1 else None


def taint(b, seeds):
    """Locals that may hold a pointer into the shared task block: closure under copies, refs, field/deref
    projections, casts and pointer-preserving calls."""
    t = set(seeds)
    changed = True
    while changed:
        changed = False
        for bi, si, s in b.stmts(live_only=False):
            if s["k"] != "assign":
                continue
            rv = s["rv"]
            src = None
            if rv["k"] == "use" and rv["o"]["k"] in ("copy", "move"):
                src = rv["o"]["p"]["l"]
            elif rv["k"] in ("ref", "rawptr"):
                src = rv["p"]["l"]
            elif rv["k"] == "cast" and rv["o"]["k"] in ("copy", "move"):
                src = rv["o"]["p"]["l"]
            elif rv["k"] == "agg":
                for o in rv["ops"]:
                    if o["k"] in ("copy", "move") and o["p"]["l"] in t and s["p"]["l"] not in t:
                        t.add(s["p"]["l"])
                        changed = True
            if src is not None and src in t and s["p"]["l"] not in t:
                # a plain copy of a non-pointer scalar read through the pointer (e.g. usize) is a value, not a pointer
                ty = b.local_ty(s["p"]["l"])
                if ty in ("usize", "bool", "u32", "u64", "()"):
                    continue
                t.add(s["p"]["l"])
                changed = True
        for c in b.calls:
            if c.callee in PTR_PRESERVING and c.args and c.args[0]["k"] in ("copy", "move") and c.args[0]["p"]["l"] in t:
                if c.dest["l"] not in t:
                    t.add(c.dest["l"])
                    changed = True
    return t


def reads_local(x, locals_):
    """Does statement/terminator operand set read one of the locals?"""
    def op(o):
        return o["k"] in ("copy", "move") and o["p"]["l"] in locals_
    return op(x)


def uses_in_block(b, bi, tl, from_stmt=0, include_term=True):
    hits = []
    bl = b.blocks[bi]
    for si, s in enumerate(bl["stmts"]):
        if si < from_stmt or s["k"] != "assign":
            continue
        rv = s["rv"]
        ops = []
        if rv["k"] in ("use", "cast", "unop"):
            ops = [rv["o"]]
        elif rv["k"] == "binop":
            ops = [rv["a"], rv["b"]]
        elif rv["k"] == "agg":
            ops = rv["ops"]
        places = [o["p"] for o in ops if o["k"] in ("copy", "move")]
        if rv["k"] in ("ref", "rawptr", "discr"):
            places.append(rv["p"])
        if s["p"]["proj"]:
            places.append(s["p"])
        for p in places:
            if p["l"] in tl:
                hits.append((bi, "stmt %d" % si))
    if include_term:
        t = bl["term"]
        places = []
        if t["k"] == "call":
            places = [a["p"] for a in t["args"] if a["k"] in ("copy", "move")]
            if t["func"]["k"] in ("copy", "move"):
                places.append(t["func"]["p"])
        elif t["k"] == "drop":
            places = [t["p"]]
        elif t["k"] == "switch" and t["discr"]["k"] in ("copy", "move"):
            places = [t["discr"]["p"]]
        for p in places:
            if p["l"] in tl:
                hits.append((bi, "terminator " + t["k"]))
    return hits


def r06_1(ctx, prog, crate):
    bt = prog.body(POOL + "ThreadPool::broadcast_task", crate)
    br = prog.body(POOL + "ThreadPool::broadcast", crate)
    ts = prog.body(POOL + "TaskShared::new", crate)
    if not ctx.anchor("R06.1", "broadcast, broadcast_task, TaskShared::new", sum(1 for x in (bt, br, ts) if x), 3):
        return
    for x in (bt, br, ts):
        ctx.saw(x)
    # TaskShared::new: ref_count = AtomicUsize::new(aux_threads)
    aggs = [s for bi, si, s in ts.stmts() if s["k"] == "assign" and s["rv"]["k"] == "agg" and s["rv"]["ak"] == "adt" and "TaskShared" in s["rv"]["adt"]]
    if ctx.check(len(aggs) == 1, "R06.1", ["TaskShared::new", "aggregate"], "aggregates: %d" % len(aggs), ts.where(0)):
        rv = aggs[0]["rv"]
        o = rv["ops"][rv["fields"].index("ref_count")]
        srcs = ts.prov.op_src(o)
        ctx.check({s.a for s in srcs if s.kind == "call"} == {"std::sync::atomic::Atomic::new"} and
                  {s.label() for s in srcs if s.kind == "param"} == {"param:" + ts.param_name(1)} and
                  not any(s.kind in ("binop", "unop", "const") for s in srcs),
                  "R06.1", ["TaskShared::new", "ref_count-is-aux_threads"], "ref_count initialised from %s" % sorted(s.label() for s in srcs), ts.where(0))
        o = rv["ops"][rv["fields"].index("main_thread")]
        ctx.check(any(s.kind == "call" and s.a == "std::thread::current" for s in ts.prov.op_src(o)) and nophi(ts.prov.op_src(o)), "R06.1", ["TaskShared::new", "main_thread-is-current"],
                  "main_thread is not thread::current()", ts.where(0))
    # broadcast: same aux_threads to TaskShared::new and to broadcast_task
    n = [c for c in br.live_calls() if c.callee == POOL + "TaskShared::new"]
    t = [c for c in br.live_calls() if c.callee == POOL + "ThreadPool::broadcast_task"]
    if ctx.check(len(n) == 1 and len(t) == 1, "R06.1", ["broadcast", "shape"], "TaskShared::new x%d broadcast_task x%d" % (len(n), len(t)), br.where(0)):
        a = {s.label() for s in br.prov.op_src(n[0].args[0])}
        bb = {s.label() for s in br.prov.op_src(t[0].args[1])}
        want = {"param:" + br.param_name(2)}
        ctx.check(a == want and bb == want, "R06.1", ["broadcast", "same-count"], "ref_count from %s, send bound from %s" % (sorted(a), sorted(bb)), t[0].line())
    # send loop
    sends = [c for c in bt.live_calls() if c.callee == "std::sync::mpsc::SyncSender::send"]
    if ctx.check(len(sends) == 1, "R06.1", ["broadcast_task", "one-send-site"], "send sites: %d" % len(sends), bt.where(0)):
        s = sends[0]
        lp = bt.innermost_loop(s.bb)
        if ctx.check(lp is not None and bt.once_per_iteration(s.bb, lp), "R06.1", ["broadcast_task", "one-send-per-iteration"],
                     "send is not executed exactly once per loop iteration", s.line()):
            nx = [c for c in bt.live_calls() if c.bb in lp["body"] and c.callee.endswith("::next")]
            ok = False
            for c in nx:
                srcs = bt.prov.op_src(c.args[0])
                idx = [x for x in srcs if x.kind == "call" and x.a.endswith("::index")]
                for x in idx:
                    ic = bt.call_at(x.b)
                    r = bt.prov.op_src(ic.args[1])
                    ok = any(y.kind == "variant" and y.a.endswith("RangeTo::RangeTo") for y in r) and \
                        {y.label() for y in r if y.kind == "param"} == {"param:" + bt.param_name(2)} and not any(y.kind == "binop" for y in r)
            ctx.check(ok, "R06.1", ["broadcast_task", "send-loop-bound"], "the send loop is not over threads[..aux_threads]", s.line())
            # sends the task parameter itself
            ctx.check({y.label() for y in bt.prov.op_src(s.args[1])} == {"param:" + bt.param_name(3)}, "R06.1", ["broadcast_task", "sends-the-task"],
                      "send() transmits something other than the task", s.line())
    # caller runs index 0 once
    cu = [c for c in bt.live_calls() if c.callee == "std::panic::catch_unwind"]
    if ctx.check(len(cu) == 1 and bt.innermost_loop(cu[0].bb) is None and not (set(bt.returns) & bt.reach([0], avoid=[cu[0].bb])),
                 "R06.1", ["broadcast_task", "caller-runs-once"], "the caller does not run the task exactly once on every path", bt.where(0)):
        cl = [x for x in prog.children(bt) if x.kind == "Closure"]
        runs = [(x, c) for x in cl for c in x.live_calls() if c.callee == POOL + "Task::run"]
        if ctx.check(len(runs) == 1, "R06.1", ["broadcast_task", "run-site"], "Task::run sites in caller closures: %d" % len(runs), bt.where(0)):
            x, c = runs[0]
            ctx.check(const_int(c.args[1]) == 0, "R06.1", ["broadcast_task", "caller-index-0"], "caller runs index %s" % c.args[1], c.line())
            ctx.check(x.innermost_loop(c.bb) is None, "R06.1", ["broadcast_task", "caller-run-not-in-loop"], "Task::run in a loop", c.line())
    # worker
    w = worker(prog, crate)
    if not ctx.anchor("R06.1", "worker closure (recv loop)", 1 if w else 0, 1):
        return
    ctx.saw(w)
    cu = [c for c in w.live_calls() if c.callee == "std::panic::catch_unwind"]
    rc = [c for c in w.live_calls() if is_recv(c)]
    if ctx.check(len(cu) == 1 and len(rc) == 1, "R06.1", ["worker", "shape"], "catch_unwind x%d recv x%d" % (len(cu), len(rc)), w.where(0)):
        lp = w.innermost_loop(cu[0].bb)
        ctx.check(lp is not None and rc[0].bb in lp["body"] and w.once_per_iteration(cu[0].bb, lp) and w.once_per_iteration(rc[0].bb, lp),
                  "R06.1", ["worker", "one-run-per-received-task"], "the worker does not run each received task exactly once", cu[0].line())
        runs = [(x, c) for x in prog.children(w) if x.kind == "Closure" for c in x.live_calls() if c.callee == POOL + "Task::run"]
        if ctx.check(len(runs) == 1, "R06.1", ["worker", "run-site"], "Task::run sites: %d" % len(runs), w.where(0)):
            x, c = runs[0]
            lab = {s.label() for s in x.prov.op_src(c.args[1])}
            ctx.check(lab == {"upvar:thread_id"} or (len(lab) == 1 and list(lab)[0].startswith("upvar:")), "R06.1", ["worker", "own-thread-id"],
                      "worker runs index %s" % sorted(lab), c.line())
            r0 = {s.label() for s in x.prov.op_src(c.args[0])}
            # the task run is the one just received
            cap = None
            for cn in x.captures or []:
                cp = prog.capture_operand(x, cn)
                if cp and cp[1]["k"] in ("copy", "move") and "pool::Task" in cp[0].local_ty(cp[1]["p"]["l"]):
                    cap = cp
            if cap:
                srcs = cap[0].prov.op_src(cap[1])
                ctx.check(any(s.kind == "call" and s.a in RECV for s in srcs) and nophi(srcs), "R06.1", ["worker", "runs-received-task"],
                          "the task run is not the one received", c.line())
    sp = prog.body(POOL + "spawn", crate)
    if ctx.anchor("R06.1", "spawn", 1 if sp else 0, 1):
        ctx.saw(sp)
        rng = [s for bi, si, s in sp.stmts() if s["k"] == "assign" and s["rv"]["k"] == "agg" and s["rv"].get("adt", "").endswith("ops::Range")]
        ok = False
        for s in rng:
            start = sp.prov.op_src(s["rv"]["ops"][0])
            end = sp.prov.op_src(s["rv"]["ops"][1])
            ok = any(x.kind == "call" and x.a == "std::vec::Vec::len" for x in start) and any(x.kind == "const" and x.a.startswith("1_") for x in start) \
                and any(x.kind == "binop" and x.a in ("Add", "AddWithOverflow") for x in start) and \
                any(x.kind == "call" and x.a == "std::num::NonZero::get" for x in end) and any(x.kind == "call" and x.a == "std::vec::Vec::len" for x in end)
        ctx.check(ok, "R06.1", ["spawn", "ids-from-len-plus-1"], "new thread ids are not (len+1)..(len+1+additional)", sp.where(0))


def r06_2(ctx, prog, crate):
    w = worker(prog, crate)
    bt = prog.body(POOL + "ThreadPool::broadcast_task", crate)
    if w is None or bt is None:
        return
    dec = [c for c in w.live_calls() if c.callee.startswith("std::sync::atomic::Atomic::fetch_") and "ref_count" in field_of_arg(w, c)]
    if ctx.check(len(dec) == 1 and dec[0].callee.endswith("fetch_sub"), "R06.2", ["worker", "decrement-site"], "ref_count RMW sites: %s" % [c.callee for c in dec], w.where(0)):
        o, other = ordering_of(w, dec[0], 2)
        ctx.check(len(o) == 1 and o <= REL_OK and not other, "R06.2", ["worker", "decrement-ordering"],
                  "the worker's decrement of ref_count uses Ordering::%s; Release (or stronger) is required to publish the task's writes" % sorted(o | other),
                  dec[0].line(), detail={"site": "fetch_sub", "ordering": sorted(o)})
        ctx.check(const_int(dec[0].args[1]) == 1, "R06.2", ["worker", "decrement-by-one"], "decrement amount %s" % dec[0].args[1], dec[0].line())
    ld = [c for c in bt.live_calls() if c.callee == "std::sync::atomic::Atomic::load" and "ref_count" in field_of_arg(bt, c)]
    if ctx.check(len(ld) == 1, "R06.2", ["caller", "load-site"], "ref_count load sites: %d" % len(ld), bt.where(0)):
        o, other = ordering_of(bt, ld[0], 1)
        ctx.check(len(o) == 1 and o <= ACQ_OK and not other, "R06.2", ["caller", "load-ordering"],
                  "the caller's wait-loop load of ref_count uses Ordering::%s; Acquire (or stronger) is required" % sorted(o | other), ld[0].line(),
                  detail={"site": "load", "ordering": sorted(o)})
    # no other access to ref_count anywhere in the module
    n = 0
    for b in prog.lib_bodies(crate):
        if not b.path.startswith(POOL) or ".tests" in b.path or "::tests::" in b.path:
            continue
        from lib import inline as _inl
        if _inl.absorbed(prog, b):
            continue    # a helper that only exists as copies inside its callers: its accesses are counted there
        for c in b.live_calls():
            if c.callee.startswith("std::sync::atomic::Atomic::") and not c.callee.endswith("::new") and "ref_count" in field_of_arg(b, c):
                n += 1
                ok = (b.path == w.path and c.callee.endswith("fetch_sub")) or (b.path == bt.path and c.callee.endswith("::load"))
                ctx.check(ok, "R06.2", ["ref_count-access", b.path, c.callee.rsplit("::", 1)[-1]], "unexpected access to ref_count", c.line())
    ctx.anchor("R06.2", "ref_count accesses", n, 2)


def r06_3(ctx, prog, crate):
    w = worker(prog, crate)
    if w is None:
        return
    dec = [c for c in w.live_calls() if c.callee.endswith("fetch_sub")]
    rc = [c for c in w.live_calls() if is_recv(c)]
    if not dec or not rc:
        return
    dec, rc = dec[0], rc[0]
    seeds = {l for l in range(len(w.locals)) if w.local_ty(l) == "util::thread::pool::Task" or "TaskShared" in w.local_ty(l)}
    tl = taint(w, seeds)
    ctx.anchor("R06.3", "task-pointer locals in the worker", tl, 3)
    region = w.reach([dec.target], avoid=[rc.bb]) if dec.target is not None else set()
    hits = []
    for bi in sorted(region):
        hits += uses_in_block(w, bi, tl)
    ctx.check(not hits, "R06.3", ["worker", "no-use-after-release"],
              "after the decrement of ref_count the worker still uses a value derived from the task pointer (%s): the caller may "
              "already have returned and freed the shared block" % ["bb%d %s @%s" % (h[0], h[1], w.where(h[0])) for h in hits],
              w.where(hits[0][0]) if hits else dec.line(), detail={"region_blocks": len(region), "tainted_locals": len(tl)})
    # also on the unwind edges leaving the region nothing derived from the task is dropped/used
    cl = set()
    for bi in region:
        u = w.unwind_of(bi)
        if u is not None:
            cl |= w.reach([u], unwind=True)
    chits = []
    for bi in sorted(cl):
        chits += uses_in_block(w, bi, tl)
    ctx.check(not chits, "R06.3", ["worker", "no-use-after-release-on-unwind"], "cleanup after the decrement touches the task: %s" % chits, dec.line())
    # clone of main_thread dominates the decrement; unpark on the clone
    cl_calls = [c for c in w.live_calls() if c.callee == "<std::thread::Thread as std::clone::Clone>::clone" and "main_thread" in field_of_arg(w, c)]
    if ctx.check(len(cl_calls) == 1 and w.dominates(cl_calls[0].bb, dec.bb), "R06.3", ["worker", "handle-cloned-before-release"],
                 "the caller's Thread handle is not cloned before the decrement", dec.line()):
        up = [c for c in w.live_calls() if c.callee == "std::thread::Thread::unpark"]
        for c in up:
            srcs = w.prov.op_src(c.args[0])
            d = direct_place(w, c.args[0])
            ok = d is not None and d[0] == "place" and d[1] == cl_calls[0].dest["l"] or (d and d[0] == "call" and d[1].bb == cl_calls[0].bb)
            if not ok:
                # `&_16` chain: operand is a ref to the clone local
                ok = any(s.kind == "call" and s.b == cl_calls[0].bb for s in srcs) and c.args[0]["p"]["l"] not in tl
            ctx.check(ok, "R06.3", ["worker", "unpark-on-clone"], "unpark is not applied to the cloned handle", c.line())


def r06_4(ctx, prog, crate):
    bt = prog.body(POOL + "ThreadPool::broadcast_task", crate)
    if bt is None:
        return
    ld = [c for c in bt.live_calls() if c.callee == "std::sync::atomic::Atomic::load"]
    if not ld:
        ctx.anchor("R06.4", "wait-loop load", 0, 1)
        return
    ld = ld[0]
    # the test of the loaded count against zero, in any spelling (`> 0`, `!= 0`, `== 0 { break }` ...): canonical atom Eq(0, load)
    from lib.symexpr import Sym, bool_switch
    SY = Sym(bt)
    want = ("Eq", ("int", 0), ("site", ld.callee, ld.bb))
    sw = None
    for bi, t in bt.switches():
        bs = bool_switch(bt, SY, bi)
        if bs is not None and bs[0] == want:
            sw = (bi, bs)
    if not ctx.check(sw is not None, "R06.4", ["caller", "wait-condition"], "no test of the loaded ref_count against zero", ld.line()):
        return
    bi, (_atom, exit_t, stay_t) = sw
    ok = bt.pred[exit_t] == [bi] and all(bt.dominates(exit_t, r) for r in bt.returns)
    ctx.check(ok, "R06.4", ["caller", "return-only-through-zero-count"],
              "broadcast_task can return without having observed ref_count == 0", bt.where(exit_t))
    ctx.check(ld.bb in bt.reach([stay_t]), "R06.4", ["caller", "reloads"], "the count is not re-loaded after waiting", ld.line())
    # drop(main_result) after the exit
    drops = [c for c in bt.live_calls() if c.callee == "std::mem::drop"]
    for c in drops:
        ctx.check(bt.dominates(exit_t, c.bb), "R06.4", ["caller", "result-dropped-after-wait"], "the caller's panic payload is dropped before the wait", c.line())
    for x in sorted(bt.live):
        tm = bt.term(x)
        if tm["k"] == "drop" and "Box<dyn std::any::Any" in tm["ty"]:
            ctx.check(bt.dominates(exit_t, x), "R06.4", ["caller", "result-dropped-after-wait", "drop-terminator"], "payload dropped before the wait", bt.where(x))
    # Task::run only inside closures handed to catch_unwind
    n = 0
    for c in prog.callers_of(POOL + "Task::run", crates=[crate]):
        if "::tests::" in c.body.path:
            continue
        n += 1
        par = prog.parent_body(c.body)
        ok = False
        if c.body.kind == "Closure" and par is not None:
            for pc in par.live_calls():
                if pc.callee == "std::panic::catch_unwind":
                    srcs = par.prov.op_src(pc.args[0])
                    for bi2, si2, s2 in par.stmts():
                        if s2["k"] == "assign" and s2["rv"]["k"] == "agg" and s2["rv"]["ak"] == "closure" and norm(s2["rv"]["def"]) == c.body.path:
                            # the closure local flows into catch_unwind's argument
                            ok = ok or any(True for _ in [0] if _flows(par, s2["p"]["l"], pc.args[0]))
        ctx.check(ok, "R06.4", ["Task::run-inside-catch_unwind", c.body.path], "Task::run is called outside catch_unwind in `%s`" % c.body.path, c.line())
    ctx.anchor("R06.4", "Task::run call sites", n, 2)
    # calls that may unwind out of broadcast_task after the first send
    sends = [c for c in bt.live_calls() if c.callee == "std::sync::mpsc::SyncSender::send"]
    allowed = {"std::sync::mpsc::SyncSender::send": "fails only if the worker exited, which needs its sender dropped (R07.3)",
               "std::result::Result::unwrap": "on the send result; same reason",
               "<std::slice::Iter<'a, T> as std::iter::Iterator>::next": "slice iterator, does not panic",
               "std::ptr::NonNull::as_ref": "pointer deref", "std::sync::atomic::Atomic::load": "atomic load",
               "std::thread::park": "park does not panic", "std::mem::drop": "after the wait"}
    if sends:
        region = bt.reach([sends[0].bb])
        for x in sorted(region):
            c = bt.call_at(x)
            if c is None or c.unwind is None:
                continue
            if bt.dominates(exit_t, x):
                continue
            ctx.check(c.callee in allowed, "R06.4", ["caller", "unwind-before-wait", c.callee],
                      "`%s` can unwind out of broadcast_task after tasks were sent and before the wait loop finished - workers would use a dead stack frame"
                      % c.callee, c.line())
    # TaskShared lives in broadcast's frame until broadcast_task returned
    br = prog.body(POOL + "ThreadPool::broadcast", crate)
    if br is not None:
        t = [c for c in br.live_calls() if c.callee == POOL + "ThreadPool::broadcast_task"]
        if t:
            shared_locals = [l for l in range(len(br.locals)) if br.local_ty(l).startswith("util::thread::pool::TaskShared<")]
            ctx.check(len(shared_locals) >= 1, "R06.4", ["broadcast", "shared-block-on-own-frame"], "no TaskShared local", br.where(0))
            for x in sorted(br.live):
                tm = br.term(x)
                if tm["k"] == "drop" and tm["p"]["l"] in shared_locals:
                    ctx.check(br.dominates(t[0].bb, x) and x in br.reach([t[0].target]), "R06.4", ["broadcast", "shared-block-dropped-after-wait"],
                              "the shared block is dropped before broadcast_task returned", br.where(x))
            for bi2, si2, s2 in br.stmts():
                if s2["k"] == "assign" and s2["rv"]["k"] == "use" and s2["rv"]["o"]["k"] == "move" and s2["rv"]["o"]["p"]["l"] in shared_locals \
                        and s2["p"]["l"] not in shared_locals:
                    ctx.fail("R06.4", ["broadcast", "shared-block-moved"], "TaskShared is moved after its address was taken", br.where(bi2))


def _flows(b, local, operand):
    """local's value reaches operand through aggregate/use chains."""
    seen = set()
    wl = [operand["p"]["l"]] if operand["k"] in ("copy", "move") else []
    while wl:
        l = wl.pop()
        if l == local:
            return True
        if l in seen:
            continue
        seen.add(l)
        for d in b.prov.defs.get(l, []):
            if d[0] != "S":
                continue
            rv = d[3]["rv"]
            ops = []
            if rv["k"] in ("use", "cast"):
                ops = [rv["o"]]
            elif rv["k"] == "agg":
                ops = rv["ops"]
            elif rv["k"] in ("ref", "rawptr"):
                wl.append(rv["p"]["l"])
            for o in ops:
                if o["k"] in ("copy", "move"):
                    wl.append(o["p"]["l"])
    return False


def _r06_5_loop_prefill(ctx, prog, crate, pe, bc, sl, rs):
    """The pre-fill written as a counting loop: `for i in 0..N { base.add(i).write(None) }` with N the number of slots
    set_len exposes (aux_threads + 1) and base = vec.as_mut_ptr().add(old_len)."""
    from lib.symexpr import Sym, show
    S = Sym(pe, site_args=True)
    lp = pe.loops[0]
    aux = ("arg", 3, ())
    want_n = S.op(rs.args[1])
    ctx.check(want_n == ("lin", ((aux, 1),), 1), "R06.5", ["par_extend", "reserve-aux+1"], "reserve argument is %s, expected aux_threads + 1" % show(want_n), rs.line())
    ln = S.op(sl.args[1])
    ok = ln[0] == "lin" and ln[2] == 1 and dict(ln[1]).get(aux) == 1 and len(ln[1]) == 2 and any(a[0] == "call" and a[1] == "std::vec::Vec::len" for a, c_ in ln[1])
    ctx.check(ok, "R06.5", ["par_extend", "set_len-old+aux+1"], "set_len argument is %s" % show(ln), sl.line())
    ctx.check(S.op(bc.args[1]) == aux, "R06.5", ["par_extend", "broadcast-same-count"], "broadcast gets %s" % show(S.op(bc.args[1])), bc.line())
    # the loop: range 0..N built before it, one write of None per iteration at base.add(i)
    rng = None
    for bi, si, s_ in pe.stmts():
        if s_["k"] == "assign" and s_["rv"]["k"] == "agg" and s_["rv"]["ak"] == "adt" and norm(s_["rv"]["adt"]) == "std::ops::Range" and bi not in lp["body"]:
            rng = S.rv(s_["rv"])
    wr = [c for c in pe.live_calls() if c.bb in lp["body"] and c.callee in ("std::ptr::mut_ptr::write", "std::ptr::write", "std::mem::MaybeUninit::write")]
    okr = rng is not None and rng[3][0] == ("int", 0) and rng[3][1] == want_n
    ctx.check(okr and len(wr) == 1 and pe.once_per_iteration(wr[0].bb, lp), "R06.5", ["par_extend", "prefill-covers-all-exposed-slots"],
              "the None pre-fill loop runs over %s with %d writes per iteration; expected 0..aux_threads + 1 (every slot set_len exposes): the entry of a "
              "panicking call could be uninitialised or stale instead of empty" % (show(rng) if rng else None, len(wr)), pe.where(lp["header"]))
    if len(wr) == 1:
        w = wr[0]
        vs = {z.a for z in pe.prov.op_src(w.args[1]) if z.kind == "variant"}
        ctx.check(vs == {"std::option::Option::None"}, "R06.5", ["par_extend", "prefill-None"], "slots pre-filled with %s" % sorted(vs), w.line())
        dst = S.op(w.args[0])
        txt = str(dst)
        ok = "as_mut_ptr" in txt and "std::vec::Vec::len" in txt and "::next" in txt and txt.count("::add'") >= 1
        ctx.check(ok, "R06.5", ["par_extend", "prefill-slot-is-base.add(i)"], "the pre-fill writes to %s, expected vec.as_mut_ptr().add(old_len).add(i)" % show(dst), w.line())
    ctx.check(pe.dominates(rs.bb, lp["header"]) and pe.dominates(lp["header"], sl.bb) and pe.dominates(sl.bb, bc.bb), "R06.5",
              ["par_extend", "prefill-then-set_len-then-broadcast"], "slots are not reserved, pre-filled and set_len'ed before the broadcast", bc.line())
    # the task closure (same checks as in the for_each form)
    cls = [x for x in prog.children(pe) if x.kind == "Closure"]
    task = [x for x in cls if any(c.callee in ("std::ptr::mut_ptr::write", "std::ptr::write") for c in x.live_calls())]
    if ctx.check(len(task) == 1, "R06.5", ["par_extend", "task-closure"], "task closures: %d" % len(task), pe.where(0)):
        x = task[0]
        ctx.saw(x)
        w2 = [c for c in x.live_calls() if c.callee in ("std::ptr::mut_ptr::write", "std::ptr::write")][0]
        dst = x.prov.op_src(w2.args[0])
        idx = "param:" + x.param_name(2)
        ctx.check(any(z.kind == "call" and z.a.endswith("::add") for z in dst) and idx in {z.label() for z in dst}, "R06.5",
                  ["par_extend", "slot-is-ptr.add(index)"], "the result is written to %s" % sorted(z.label() for z in dst), w2.line())
        val = x.prov.op_src(w2.args[1])
        ctx.check(any(z.kind == "variant" and z.a == "std::option::Option::Some" for z in val) and idx in {z.label() for z in val}, "R06.5",
                  ["par_extend", "value-is-Some(task(index))"], "the value written derives from %s" % sorted(z.label() for z in val), w2.line())
        for c in [c for c in x.live_calls() if c.callee.endswith("::add")]:
            ctx.check({z.label() for z in x.prov.op_src(c.args[1])} == {idx}, "R06.5", ["par_extend", "offset-is-own-index"],
                      "pointer offset is %s" % sorted(z.label() for z in x.prov.op_src(c.args[1])), c.line())


def _r06_5_base_pointer(ctx, pe, bc, grow):
    """The slot of call `index` is the `index`-th entry *appended* by this call: the base pointer handed to the task closure
    is vec.as_mut_ptr().add(old_len) with old_len = vec.len() read before the vector grows (or the start of the spare
    capacity / of the tail slice), taken after the last call that can reallocate. A base without the old length makes the
    calls overwrite the entries already in the vector and leaves the appended ones empty."""
    src = pe.prov.op_src(bc.args[2])
    calls = [pe.call_at(x.b) for x in src if x.kind == "call"]
    calls = [c for c in calls if c is not None]
    names = {c.callee for c in calls}
    amp = [c for c in calls if c.callee.rsplit("::", 1)[-1] == "as_mut_ptr"]
    adds = [c for c in calls if c.callee.rsplit("::", 1)[-1] in ("add", "offset", "wrapping_add") and "ptr" in c.callee]
    spare = [c for c in calls if c.callee == "std::vec::Vec::spare_capacity_mut"]
    tail = [c for c in calls if c.callee.endswith("::index_mut") or c.callee.endswith("::get_unchecked_mut") or c.callee.endswith("::split_at_mut")]
    key = ["par_extend", "base-is-as_mut_ptr.add(old_len)"]
    if spare and not amp:
        # base = start of the spare capacity, taken before the new length is set
        ctx.check(all(pe.dominates(c.bb, grow.bb) for c in spare), "R06.5", key,
                  "the base pointer is the spare capacity's start but is taken after the length was set", spare[0].line())
        return
    if not ctx.check(len(amp) == 1 and (len(adds) == 1 or tail), "R06.5", key,
                     "the task closure's base pointer derives from %s: expected vec.as_mut_ptr().add(old_len) - without the old "
                     "length the calls overwrite the entries already in the vector" % sorted(n.rsplit("::", 2)[-2] + "::" + n.rsplit("::", 1)[-1] for n in names),
                     bc.line()):
        return
    if tail and not adds:
        # base = vec[old_len..].as_mut_ptr(): the range starts at the length read before the vector grows
        rng = pe.prov.op_src(tail[0].args[1]) if len(tail[0].args) > 1 else []
        lens = [pe.call_at(x.b) for x in rng if x.kind == "call" and x.a == "std::vec::Vec::len"]
        recv = {x.label() for c_ in lens for x in pe.prov.op_src(c_.args[0])}
        other = [x.label() for x in rng if (x.kind == "param" and x.label() not in recv) or x.kind == "binop" or
                 (x.kind == "const" and x.a.split("_")[0].isdigit() and not x.a.startswith("0_"))]
        ok = len(lens) == 1 and not other and pe.dominates(lens[0].bb, grow.bb) and pe.dominates(grow.bb, tail[0].bb)
        ctx.check(ok, "R06.5", key, "the tail slice the base pointer is taken from starts at %s, expected exactly the vector's length "
                  "read before it grows" % sorted(x.label() for x in rng), tail[0].line())
        return
    if adds:
        off = pe.prov.op_src(adds[0].args[1])
        lens = [pe.call_at(x.b) for x in off if x.kind == "call" and x.a == "std::vec::Vec::len"]
        recv = {x.label() for c_ in lens for x in pe.prov.op_src(c_.args[0])}
        other = [x.label() for x in off if (x.kind == "param" and x.label() not in recv) or x.kind == "binop" or
                 (x.kind == "const" and not x.a.startswith("0_"))]
        ok = len(lens) == 1 and not other and pe.dominates(lens[0].bb, grow.bb) and lens[0].bb != grow.bb
        ctx.check(ok, "R06.5", key, "the base pointer's offset derives from %s, expected exactly the vector's length read before it "
                  "grows" % sorted(x.label() for x in off), adds[0].line())


def _r06_5_task_closure(ctx, prog, pe):
    cls = [x for x in prog.children(pe) if x.kind == "Closure"]
    task = [x for x in cls if any(c.callee in ("std::ptr::mut_ptr::write", "std::ptr::write") for c in x.live_calls())]
    if ctx.check(len(task) == 1, "R06.5", ["par_extend", "task-closure"], "task closures: %d" % len(task), pe.where(0)):
        x = task[0]
        ctx.saw(x)
        w2 = [c for c in x.live_calls() if c.callee in ("std::ptr::mut_ptr::write", "std::ptr::write")][0]
        dst = x.prov.op_src(w2.args[0])
        idx = "param:" + x.param_name(2)
        ctx.check(any(z.kind == "call" and z.a.endswith("::add") for z in dst) and idx in {z.label() for z in dst}, "R06.5",
                  ["par_extend", "slot-is-ptr.add(index)"], "the result is written to %s" % sorted(z.label() for z in dst), w2.line())
        val = x.prov.op_src(w2.args[1])
        ctx.check(any(z.kind == "variant" and z.a == "std::option::Option::Some" for z in val) and idx in {z.label() for z in val}, "R06.5",
                  ["par_extend", "value-is-Some(task(index))"], "the value written derives from %s" % sorted(z.label() for z in val), w2.line())
        for c in [c for c in x.live_calls() if c.callee.endswith("::add")]:
            ctx.check({z.label() for z in x.prov.op_src(c.args[1])} == {idx}, "R06.5", ["par_extend", "offset-is-own-index"],
                      "pointer offset is %s" % sorted(z.label() for z in x.prov.op_src(c.args[1])), c.line())


def _r06_5_resize_with(ctx, prog, crate, pe, bc, rw):
    """The empty slots appended by the safe `vec.resize_with(old_len + aux_threads + 1, || None)`: every slot the tasks write
    to exists and holds None before the broadcast; base = vec.as_mut_ptr().add(old_len) taken afterwards."""
    from lib.symexpr import Sym, show
    from lib.patheval import PathEval
    S = Sym(pe, site_args=True)
    aux = ("arg", 3, ())
    ln = S.op(rw.args[1])
    ok = ln[0] == "lin" and ln[2] == 1 and dict(ln[1]).get(aux) == 1 and len(ln[1]) == 2 and any(a[0] in ("call", "site") and a[1] == "std::vec::Vec::len" for a, c_ in ln[1])
    ctx.check(ok, "R06.5", ["par_extend", "set_len-old+aux+1"], "resize_with's new length is %s, expected old_len + aux_threads + 1" % show(ln), rw.line())
    ctx.check(S.op(bc.args[1]) == aux, "R06.5", ["par_extend", "broadcast-same-count"], "broadcast gets %s" % show(S.op(bc.args[1])), bc.line())
    # the filler yields None
    fill = None
    a = rw.args[2] if len(rw.args) > 2 else None
    if a is not None and a.get("k") in ("copy", "move") and not a["p"]["proj"]:
        for d in pe.prov.defs.get(a["p"]["l"], []):
            if d[0] == "S" and d[3]["rv"]["k"] == "agg" and d[3]["rv"].get("ak") == "closure":
                fill = prog.bodies.get((pe.crate, norm(d[3]["rv"]["def"]), -1))
    sums = PathEval(fill).run() if fill is not None else None
    okf = bool(sums) and all(s_.ret[0] == "adt" and s_.ret[1] == "std::option::Option" and s_.ret[2] == "None" for s_ in sums)
    ctx.check(okf, "R06.5", ["par_extend", "prefill-None"], "resize_with does not fill the new slots with None", rw.line())
    ctx.ok("R06.5", "par_extend|prefill-covers-all-exposed-slots (resize_with initialises every slot up to the new length)")
    # the vector is not touched between the resize and the broadcast other than to take the base pointer; the old length
    # used for the base pointer is read before the resize
    lens = [c for c in pe.live_calls() if c.callee == "std::vec::Vec::len"]
    ctx.check(all(pe.dominates(c.bb, rw.bb) for c in lens) and pe.dominates(rw.bb, bc.bb), "R06.5", ["par_extend", "prefill-then-set_len-then-broadcast"],
              "slots are not appended before the broadcast (or the old length is read after the resize)", bc.line())
    amp = [c for c in pe.live_calls() if c.callee == "std::vec::Vec::as_mut_ptr"]
    ctx.check(len(amp) == 1 and pe.dominates(rw.bb, amp[0].bb), "R06.5", ["par_extend", "base-pointer-after-resize"],
              "the base pointer is taken before the vector may have been reallocated by the resize", (amp[0] if amp else rw).line())
    _r06_5_base_pointer(ctx, pe, bc, rw)
    _r06_5_task_closure(ctx, prog, pe)


def r06_5(ctx, prog, crate):
    pe = prog.body(POOL + "ThreadPool::par_extend", crate)
    if not ctx.anchor("R06.5", "ThreadPool::par_extend", 1 if pe else 0, 1):
        return
    ctx.saw(pe)
    bc = [c for c in pe.live_calls() if c.callee == POOL + "ThreadPool::broadcast"]
    sl = [c for c in pe.live_calls() if c.callee == "std::vec::Vec::set_len"]
    rw = [c for c in pe.live_calls() if c.callee == "std::vec::Vec::resize_with"]
    if len(bc) == 1 and not sl and len(rw) == 1:
        return _r06_5_resize_with(ctx, prog, crate, pe, bc[0], rw[0])
    fe = [c for c in pe.live_calls() if c.callee.endswith("::for_each")]
    rs = [c for c in pe.live_calls() if c.callee in ("std::vec::Vec::reserve_exact", "std::vec::Vec::reserve")]
    if len(bc) == 1 and len(sl) == 1 and len(fe) == 0 and len(rs) == 1 and len(pe.loops) == 1:
        return _r06_5_loop_prefill(ctx, prog, crate, pe, bc[0], sl[0], rs[0])
    if not ctx.check(len(bc) == 1 and len(sl) == 1 and len(fe) == 1 and len(rs) == 1, "R06.5", ["par_extend", "shape"],
                     "broadcast x%d set_len x%d for_each x%d reserve x%d" % (len(bc), len(sl), len(fe), len(rs)), pe.where(0)):
        return
    ctx.check(pe.dominates(fe[0].bb, sl[0].bb) and pe.dominates(sl[0].bb, bc[0].bb) and pe.dominates(rs[0].bb, fe[0].bb), "R06.5",
              ["par_extend", "prefill-then-set_len-then-broadcast"], "slots are not reserved, pre-filled and set_len'ed before the broadcast", bc[0].line())
    # set_len(old_len + (aux_threads + 1)); reserve(aux_threads + 1)
    aux = "param:" + pe.param_name(3)
    s = pe.prov.op_src(sl[0].args[1])
    ok = any(x.kind == "call" and x.a == "std::vec::Vec::len" for x in s) and aux in {x.label() for x in s} and \
        any(x.kind == "const" and x.a.startswith("1_") for x in s) and all(x.a in ("Add", "AddWithOverflow") for x in s if x.kind == "binop")
    ctx.check(ok, "R06.5", ["par_extend", "set_len-old+aux+1"], "set_len argument derives from %s" % sorted(x.label() for x in s), sl[0].line())
    r = pe.prov.op_src(rs[0].args[1])
    ok = aux in {x.label() for x in r} and any(x.kind == "const" and x.a.startswith("1_") for x in r) and \
        all(x.a in ("Add", "AddWithOverflow") for x in r if x.kind == "binop") and not any(x.kind == "call" for x in r)
    ctx.check(ok, "R06.5", ["par_extend", "reserve-aux+1"], "reserve argument derives from %s" % sorted(x.label() for x in r), rs[0].line())
    ctx.check({x.label() for x in pe.prov.op_src(bc[0].args[1])} == {aux}, "R06.5", ["par_extend", "broadcast-same-count"],
              "broadcast gets %s" % sorted(x.label() for x in pe.prov.op_src(bc[0].args[1])), bc[0].line())
    # the pre-fill covers every slot that set_len exposes: it walks the whole spare capacity (>= aux+1 after the
    # reserve), or is limited by exactly the reserved count
    chain = pe.prov.op_src(fe[0].args[0])
    calls = {x.a for x in chain if x.kind == "call"}
    limited = [x for x in chain if x.kind == "call" and x.a.rsplit("::", 1)[-1] in ("take", "skip", "step_by", "filter", "take_while", "skip_while",
                                                                                       "rev", "chain", "zip", "map_while", "nth", "split_at_mut")]
    okc = "std::vec::Vec::spare_capacity_mut" in calls
    for x in limited:
        lc = pe.call_at(x.b)
        if lc.callee.endswith("::take") and len(lc.args) == 2:
            lim = pe.prov.op_src(lc.args[1])
            same = {y.label() for y in lim if y.kind in ("param", "const", "binop")} == {y.label() for y in r if y.kind in ("param", "const", "binop")}
            okc = okc and same
        else:
            okc = False
    ctx.check(okc, "R06.5", ["par_extend", "prefill-covers-all-exposed-slots"],
              "the None pre-fill does not cover all aux_threads + 1 slots exposed by set_len (iterator chain: %s): the entry of a panicking "
              "call could be uninitialised or stale instead of empty" % sorted(calls), fe[0].line())
    # pre-fill closure writes None
    cls = [x for x in prog.children(pe) if x.kind == "Closure"]
    fill = [x for x in cls if any(c.callee == "std::mem::MaybeUninit::write" for c in x.live_calls())]
    if ctx.check(len(fill) == 1, "R06.5", ["par_extend", "prefill-closure"], "pre-fill closures: %d" % len(fill), pe.where(0)):
        x = fill[0]
        c = [c for c in x.live_calls() if c.callee == "std::mem::MaybeUninit::write"][0]
        vs = {s2.a for s2 in x.prov.op_src(c.args[1]) if s2.kind == "variant"}
        ctx.check(vs == {"std::option::Option::None"}, "R06.5", ["par_extend", "prefill-None"], "slots pre-filled with %s" % sorted(vs), c.line())
    task = [x for x in cls if any(c.callee in ("std::ptr::mut_ptr::write", "std::ptr::write") for c in x.live_calls())]
    if ctx.check(len(task) == 1, "R06.5", ["par_extend", "task-closure"], "task closures: %d" % len(task), pe.where(0)):
        x = task[0]
        ctx.saw(x)
        wr = [c for c in x.live_calls() if c.callee in ("std::ptr::mut_ptr::write", "std::ptr::write")][0]
        dst = x.prov.op_src(wr.args[0])
        idx = "param:" + x.param_name(2)
        ctx.check(any(s2.kind == "call" and s2.a.endswith("::add") for s2 in dst) and idx in {s2.label() for s2 in dst}, "R06.5",
                  ["par_extend", "slot-is-ptr.add(index)"], "the result is written to %s" % sorted(s2.label() for s2 in dst), wr.line())
        val = x.prov.op_src(wr.args[1])
        ctx.check(any(s2.kind == "variant" and s2.a == "std::option::Option::Some" for s2 in val) and idx in {s2.label() for s2 in val}, "R06.5",
                  ["par_extend", "value-is-Some(task(index))"], "the value written derives from %s" % sorted(s2.label() for s2 in val), wr.line())
        adds = [c for c in x.live_calls() if c.callee.endswith("::add")]
        for c in adds:
            ctx.check({s2.label() for s2 in x.prov.op_src(c.args[1])} == {idx}, "R06.5", ["par_extend", "offset-is-own-index"],
                      "pointer offset is %s" % sorted(s2.label() for s2 in x.prov.op_src(c.args[1])), c.line())
    _r06_5_base_pointer(ctx, pe, bc[0], sl[0])
    return


def r06_6(ctx, prog, crate):
    bt = prog.body(POOL + "ThreadPool::broadcast_task", crate)
    if bt is None:
        return
    sites = [c for c in prog.callers_of(POOL + "spawn", crates=[crate]) if "::tests::" not in c.body.path]
    ctx.check(len(sites) == 1 and sites[0].body.path == bt.path, "R06.6", ["spawn", "only-from-broadcast_task"],
              "spawn is called from %s" % [c.body.path for c in sites], sites[0].line() if sites else None)
    if not sites or sites[0].body.path != bt.path:
        return
    sp = sites[0]
    lock = [c for c in bt.live_calls() if c.callee == "std::sync::Mutex::lock"]
    ctx.check(len(lock) == 1 and bt.dominates(lock[0].bb, sp.bb), "R06.6", ["spawn", "under-lock"], "spawn is not dominated by the lock", sp.line())
    srcs = bt.prov.op_src(sp.args[0])
    # NonZero::new(aux.saturating_sub(len)) or aux.checked_sub(len).and_then(NonZero::new): the positive difference, if any
    nonzero = any(s.kind in ("call", "fnitem") and s.a == "std::num::NonZero::new" for s in srcs)
    diff = any(s.kind == "call" and s.a in ("core::num::saturating_sub", "core::num::checked_sub") for s in srcs)
    ok = nonzero and diff and any(s.kind == "call" and s.a == "std::vec::Vec::len" for s in srcs) and "param:" + bt.param_name(2) in {s.label() for s in srcs} and \
        not any(s.kind == "binop" for s in srcs)
    ctx.check(ok, "R06.6", ["spawn", "count-is-missing-threads"], "spawn count derives from %s" % sorted(s.label() for s in srcs), sp.line())
    ss = [c for c in bt.live_calls() if c.callee in ("core::num::saturating_sub", "core::num::checked_sub")]
    if ss:
        a0 = {s.label() for s in bt.prov.op_src(ss[0].args[0])}
        a1 = {s.a for s in bt.prov.op_src(ss[0].args[1]) if s.kind == "call"}
        ctx.check(a0 == {"param:" + bt.param_name(2)} and "std::vec::Vec::len" in a1, "R06.6", ["spawn", "aux-minus-existing"],
                  "missing = %s.saturating_sub(%s)" % (sorted(a0), sorted(a1)), ss[0].line())
    # control dependent on Some
    nz = [c for c in bt.live_calls() if c.callee == "std::num::NonZero::new"] or \
        [c for c in bt.live_calls() if c.callee == "std::option::Option::and_then" and any(a.get("k") == "const" and norm(a["c"].get("fn") or "") == "std::num::NonZero::new" for a in c.args)]
    if ctx.check(bool(nz), "R06.6", ["spawn", "missing-count-is-an-option"], "the spawn count is not NonZero::new of the difference", sp.line()):
        ok = False
        sw_ = tables.switch_on_call_result(bt, nz[0])
        if sw_ is not None:
            bi, t = sw_
            arms, otherwise = tables.arm_targets(t)
            some_t = arms.get(1)
            ok = some_t is not None and bt.dominates(some_t, sp.bb) and bt.pred[some_t] == [bi]
        ctx.check(ok, "R06.6", ["spawn", "only-when-missing"], "spawn is not guarded by the missing count being non-zero", sp.line())
    # the sender vector only grows
    bad = ("::remove", "::pop", "::clear", "::truncate", "::swap_remove", "::drain", "::retain", "::dedup", "::split_off")
    for b in prog.lib_bodies(crate):
        if not b.path.startswith(POOL) or "::tests::" in b.path:
            continue
        for c in b.live_calls():
            if c.callee.startswith("std::vec::Vec::") and c.callee.endswith(bad) and c.gargs and "SyncSender" in c.gargs[0]:
                ctx.fail("R06.6", ["senders-only-appended", b.path, c.callee], "a worker's sender is removed from the pool", c.line())
    spb = prog.body(POOL + "spawn", crate)
    if spb is not None:
        ctx.check(any(c.callee.endswith("::extend") or c.callee.endswith("::push") for c in spb.live_calls()), "R06.6", ["spawn", "appends-senders"],
                  "spawn does not append the new senders", spb.where(0))


def r06_7(ctx, prog, crate):
    for fn, want in ((POOL + "ThreadPool::broadcast", ["F: std::marker::Sync", "F: Fn(usize)"]),
                     (POOL + "ThreadPool::par_extend", ["F: std::marker::Sync", "T: std::marker::Sync", "T: std::marker::Send"]),
                     (POOL + "TaskShared::new", ["F: std::marker::Sync"])):
        f = prog.fn_fact(fn, crate)
        if not ctx.anchor("R06.7", "predicates of " + fn, 1 if f else 0, 1):
            continue
        preds = set(f["preds"])
        for w in want:
            ok = w in preds
            ctx.check(ok, "R06.7", [fn, w], "`%s` no longer requires `%s` (predicates: %s)" % (fn, w, sorted(preds)), None, detail={"fn": fn, "bound": w})
    unsafe = sorted((i["trait"].rsplit("::", 1)[-1], norm(i["self"])) for i in prog.impls(crate)
                    if i["unsafe"] and i["trait"] in ("std::marker::Send", "std::marker::Sync") and "thread::pool" in i["self"])
    ctx.check(unsafe == [("Send", "util::thread::pool::Task"), ("Sync", "util::thread::pool::Task")], "R06.7", ["unsafe-impls", "exactly-Task"],
              "unsafe Send/Sync impls in the pool module: %s" % unsafe, "src/util/thread/pool.rs", detail=unsafe)


class SpawnModel:
    """How `spawn` starts workers, in either idiom: `threads.extend((first..last).map(|id| { ..; sender }))` (starter =
    the map closure) or `for id in first..last { ..; threads.push(sender) }` (starter = spawn itself, one loop iteration).
    Fields: form, starter (body), ok_shape, why, channel (call), thread_spawn (call), worker_caps (direct places of the
    worker closure's captures), id_place (the place holding this worker's id in the starter), sender_goes_to_list (bool),
    range_start (canonical expression of the first id), extra_sources (anything but map between the range and the list)."""

    def __init__(self, prog, crate):
        from lib.symexpr import Sym
        self.ok_shape, self.why = False, "spawn not found"
        sp = self.sp = prog.body(POOL + "spawn", crate)
        if sp is None:
            return
        S = Sym(sp, site_args=True)
        tl = "param:" + sp.param_name(2)
        app = [c for c in sp.live_calls() if c.callee.endswith(("::extend", "Vec::push", "::extend_from_slice", "Vec::insert", "::append")) and
               any(z.label() == tl for z in sp.prov.op_src(c.args[0]))]
        self.appends = app
        self.channel = self.thread_spawn = None
        self.worker_caps, self.id_place, self.range_start, self.sender_goes_to_list = [], None, None, False
        if len(app) != 1:
            self.why = "spawn appends to the sender list %d times" % len(app)
            return
        a = app[0]
        if a.callee.endswith("::extend") and not sp.loops:
            self.form = "map"
            e = S.op(a.args[1])
            if not (e[0] == "site" and e[1] == "std::iter::Iterator::map" and len(e[3]) == 2 and e[3][0][0] == "adt" and e[3][0][1] in ("std::ops::Range",)):
                self.why = "the senders appended by spawn come from %s; expected (threads.len()+1 ..).map(<start a worker>) and no other adaptor or source" % (e[:2],)
                return
            self.range_start = e[3][0][3][0]
            cl = [x for x in prog.children(sp) if x.kind == "Closure"]
            if len(cl) != 1:
                self.why = "closures of spawn: %d" % len(cl)
                return
            st = self.starter = cl[0]
            blocks = set(st.live)
            self.id_place = ("place", 2, ())
            ret = direct_place(st, {"k": "move", "p": {"l": 0, "proj": [], "ty": ""}})
            ch = [c for c in st.live_calls() if c.callee in ("std::sync::mpsc::sync_channel", "std::sync::mpsc::channel")]
            self.channels = ch
            self.sender_goes_to_list = len(ch) == 1 and ret == ("place", ch[0].dest["l"], (0,))
            self.sender_desc = ret
        elif a.callee.endswith("Vec::push") and len(sp.loops) == 1:
            self.form = "loop"
            lp = sp.loops[0]
            st = self.starter = sp
            blocks = set(lp["body"])
            if a.bb not in blocks or not sp.once_per_iteration(a.bb, lp):
                self.why = "the push of the sender is not executed exactly once per loop iteration"
                return
            nx = [c for c in sp.live_calls() if c.bb in blocks and c.callee.endswith("::next") and "range" in c.callee.lower() or (c.bb in blocks and c.callee == "std::iter::range::next")]
            if len(nx) != 1:
                self.why = "the loop of spawn is not a loop over an id range"
                return
            it = S.op(nx[0].args[0])
            while it[0] in ("ptr", "sptr") and False:
                pass
            rng = None
            for bi, si, s_ in sp.stmts():
                if s_["k"] == "assign" and s_["rv"]["k"] == "agg" and s_["rv"]["ak"] == "adt" and norm(s_["rv"]["adt"]) == "std::ops::Range" and bi not in blocks:
                    rng = S.rv(s_["rv"])
            if rng is None:
                self.why = "no id range is built before the loop of spawn"
                return
            self.range_start = rng[3][0]
            # the loop item: payload of next()
            item = None
            for bi, si, s_ in sp.stmts():
                if bi in blocks and s_["k"] == "assign" and s_["rv"]["k"] == "use" and s_["rv"]["o"]["k"] in ("copy", "move") and s_["rv"]["o"]["p"]["l"] == nx[0].dest["l"] and \
                        any(pr["k"] == "downcast" for pr in s_["rv"]["o"]["p"]["proj"]):
                    item = direct_place(sp, {"k": "copy", "p": {"l": s_["p"]["l"], "proj": [], "ty": s_["p"].get("ty", "")}}) or ("place", s_["p"]["l"], ())
            self.id_place = item
            ch = [c for c in sp.live_calls() if c.bb in blocks and c.callee in ("std::sync::mpsc::sync_channel", "std::sync::mpsc::channel")]
            self.channels = ch
            pushed = direct_place(sp, a.args[1])
            self.sender_goes_to_list = len(ch) == 1 and pushed == ("place", ch[0].dest["l"], (0,))
            self.sender_desc = pushed
        else:
            self.why = "spawn appends with %s%s" % (a.callee.rsplit("::", 1)[-1], " in %d loops" % len(sp.loops) if sp.loops else "")
            return
        self.blocks = blocks
        self.channel = self.channels[0] if len(self.channels) == 1 else None
        spn = [c for c in st.live_calls() if c.bb in blocks and (c.callee == "std::thread::Builder::spawn" or c.callee == "std::thread::spawn")]
        self.thread_spawns = spn
        self.thread_spawn = spn[0] if len(spn) == 1 else None
        for bi, si, s_ in st.stmts():
            if bi in blocks and s_["k"] == "assign" and s_["rv"]["k"] == "agg" and s_["rv"]["ak"] == "closure":
                wb = prog.bodies.get((st.crate, norm(s_["rv"]["def"]), -1))
                if wb is not None and any(is_recv(c) for c in wb.live_calls()):
                    self.worker_caps.append([direct_place(st, o) for o in s_["rv"]["ops"]])
        self.ok_shape, self.why = True, ""


def r06_9(ctx, prog, crate):
    """Position p of the sender list belongs to the worker with index p+1 (broadcast_task sends to threads[..n] and counts
    on it): spawn appends the ids threads.len()+1.. in order - mapped by nothing but Iterator::map, or pushed once per
    iteration of a loop over that range - and what it appends for an id is the sender half of the channel whose
    receiver half, together with that id, is what the worker it starts captures."""
    m = SpawnModel(prog, crate)
    if not ctx.anchor("R06.9", "spawn", 1 if m.sp else 0, 1):
        return
    ctx.saw(m.sp)
    if not ctx.check(m.ok_shape, "R06.9", ["spawn", "senders-in-id-order"], m.why + " (the order of arrival of anything else is not the order of the ids)", m.sp.where(0)):
        return
    ctx.saw(m.starter)
    start = m.range_start
    ok = start is not None and start[0] == "lin" and start[2] == 1 and len(start[1]) == 1 and start[1][0][1] == 1 and start[1][0][0][0] == "call" and \
        start[1][0][0][1] == "std::vec::Vec::len" and start[1][0][0][2] == (("arg", 2, ()),)
    ctx.check(ok, "R06.9", ["spawn", "first-id-is-len-plus-one"], "the first new id is %s, expected threads.len() + 1" % (start,), m.sp.where(0))
    ctx.check(m.sender_goes_to_list, "R06.9", ["worker-starter", "returns-its-own-sender"],
              "what is appended for a new worker is %s, expected the sender half of the channel created for it" % (m.sender_desc,), m.starter.where(0))
    ok = len(m.worker_caps) == 1 and m.channel is not None and ("place", m.channel.dest["l"], (1,)) in m.worker_caps[0] and m.id_place in m.worker_caps[0]
    ctx.check(ok, "R06.9", ["worker-starter", "worker-gets-own-receiver-and-id"],
              "the worker closure captures %s, expected the receiver half of the same channel and this worker's id" % (m.worker_caps,), m.starter.where(0))
    ctx.check(m.thread_spawn is not None and len(m.worker_caps) == 1, "R06.9", ["worker-starter", "starts-one-worker"],
              "a new id starts %d threads (worker closures: %d)" % (len(m.thread_spawns), len(m.worker_caps)), m.starter.where(0))


def r06_8(ctx, prog, crate):
    """The type-erased hop hands the index through unchanged, once: Task::run(thread_id) makes exactly one call - the
    function pointer stored in its own task block, with that block and thread_id - and the stored pointer is the
    monomorphic trampoline that makes exactly one call of the block's closure with the index it was given."""
    run = prog.body(POOL + "Task::run", crate)
    new = prog.body(POOL + "TaskShared::new", crate)
    if not ctx.anchor("R06.8", "Task::run, TaskShared::new", sum(1 for x in (run, new) if x), 2):
        return
    ctx.saw(run)
    ctx.saw(new)
    ind = [c for c in run.live_calls() if c.decl is None]
    other = [c for c in run.live_calls() if c.decl is not None and c.callee not in PTR_PRESERVING]
    if ctx.check(len(ind) == 1 and not other and not run.loops, "R06.8", ["Task::run", "one-indirect-call"],
                 "Task::run makes %d indirect calls and calls %s; expected exactly one call, through the stored function pointer" % (len(ind), sorted(c.callee for c in other)), run.where(0)):
        c = ind[0]
        ctx.check(all(run.dominates(c.bb, r) for r in run.returns),
                  "R06.8", ["Task::run", "call-on-every-path"], "Task::run can return without calling the task", c.line())
        f = direct_place(run, c.func)
        srcs = {z.label() for z in run.prov.op_src(c.func) if not (z.kind == "call" and z.a in PTR_PRESERVING)}
        ok = f is not None and f[0] == "place" and f[2] and f[2][-1] == "task_fn_ptr" and srcs and all(x.startswith("param:self") for x in srcs)
        ctx.check(ok, "R06.8", ["Task::run", "calls-its-own-blocks-fn-pointer"],
                  "the function Task::run calls is %s (from %s), expected the task_fn_ptr of self's task block" % (f, sorted(srcs)), c.line())
        a0 = {z.label() for z in run.prov.op_src(c.args[0]) if not (z.kind == "call" and z.a in PTR_PRESERVING)} if len(c.args) == 2 else set()
        d1 = direct_place(run, c.args[1]) if len(c.args) == 2 else None
        ctx.check(len(c.args) == 2 and a0 and all(x.startswith("param:self") for x in a0) and d1 == ("place", 2, ()), "R06.8", ["Task::run", "passes-own-block-and-thread-id"],
                  "Task::run calls the task with (%s, %s); expected (its own task block, thread_id unchanged)" % (sorted(a0), d1), c.line())
    # the stored pointer
    aggs = [(bi, s) for bi, si, s in new.stmts() if s["k"] == "assign" and s["rv"]["k"] == "agg" and s["rv"]["ak"] == "adt" and norm(s["rv"]["adt"]).endswith("TaskShared")]
    if not ctx.check(len(aggs) == 1, "R06.8", ["TaskShared::new", "aggregate"], "aggregates: %d" % len(aggs), new.where(0)):
        return
    rv = aggs[0][1]["rv"]
    fld = dict(zip(rv["fields"], rv["ops"]))
    tf = direct_place(new, fld["task_fn"])
    ctx.check(tf == ("place", 2, ()), "R06.8", ["TaskShared::new", "stores-the-given-task"], "task_fn is initialised from %s, expected the task_fn parameter" % (tf,), new.where(aggs[0][0]))
    tramp = None
    for o in origins(new, fld["task_fn_ptr"]):
        if o[0] == "const":
            nm = norm(o[1]["c"].get("fn") or o[1]["c"]["d"])
            cand = [b for b in prog.lib_bodies(crate) if b.kind == "Fn" and norm(b.path) == nm or b.path == nm]
            tramp = cand[0] if len(cand) == 1 else None
    if not ctx.check(tramp is not None, "R06.8", ["TaskShared::new", "trampoline"], "cannot resolve the function stored in task_fn_ptr", new.where(aggs[0][0])):
        return
    ctx.saw(tramp)
    fn = [c for c in tramp.live_calls() if c.is_fn_trait_call]
    other = [c for c in tramp.live_calls() if not c.is_fn_trait_call and c.callee not in PTR_PRESERVING]
    if ctx.check(len(fn) == 1 and not other and not tramp.loops and all(tramp.dominates(fn[0].bb, r) for r in tramp.returns), "R06.8", ["trampoline", "one-call-of-the-task"],
                 "`%s` calls the task closure %d times (other calls: %s); expected exactly once on every path" % (tramp.path, len(fn), sorted(c.callee for c in other)), tramp.where(0)):
        c = fn[0]
        f = direct_place(tramp, c.args[0])
        srcs = {z.label() for z in tramp.prov.op_src(c.args[0]) if not (z.kind == "call" and z.a in PTR_PRESERVING)}
        ctx.check(f is not None and f[0] == "place" and f[2] and f[2][-1] == "task_fn" and srcs == {"param:" + tramp.param_name(1)}, "R06.8", ["trampoline", "calls-the-blocks-closure"],
                  "the trampoline calls %s (from %s), expected the task_fn stored in the block it was given" % (f, sorted(srcs)), c.line())
        t = direct_place(tramp, c.args[1])
        el = None
        if t and t[0] == "rvalue" and t[1]["k"] == "agg" and t[1]["ak"] == "tuple" and len(t[1]["ops"]) == 1:
            el = direct_place(tramp, t[1]["ops"][0])
        ctx.check(el == ("place", 2, ()), "R06.8", ["trampoline", "passes-the-index-unchanged"],
                  "the trampoline calls the task with %s, expected the thread index it was given" % (el,), c.line())


def defer_guard_fires(ctx, rule, prog, crate):
    """A pooled worker never dies while its channel stays in the pool: the worker loop arms `defer(|| abort())` around the
    drop of a caught panic payload and relies on the guard firing *during unwinding*. util::defer's Drop therefore calls the
    closure on its only path, unconditionally (no `thread::panicking()` test) - a disarmed guard lets the worker thread exit,
    and the next broadcast unwinds out of send() while other workers still run the task on freed state."""
    from lib.patheval import PathEval
    b = prog.body("<util::defer::Defer<F> as std::ops::Drop>::drop", crate)
    if not ctx.anchor(rule, "Drop for util::defer::Defer", 1 if b else 0, 1):
        return
    ctx.saw(b)
    sums = PathEval(b).run()
    ok = bool(sums) and len(sums) == 1 and not sums[0].conds and \
        any(c[0].rsplit("::", 1)[-1] in ("call_once", "call_mut", "call") for c in sums[0].calls)
    ctx.check(ok, rule, ["Defer::drop", "calls-the-closure-unconditionally"],
              "util::defer's guard does not call its closure on every drop (%s paths, conditions %s): a guard that must fire while "
              "unwinding is disarmed" % (len(sums) if sums else "?", [str(c[0])[:50] for s_ in (sums or []) for c in s_.conds][:3]), b.where(0))


def r06_10(ctx, prog, crate):
    defer_guard_fires(ctx, "R06.10", prog, crate)


def run(ctx, prog, crate):
    r06_10(ctx, prog, crate)
    r06_8(ctx, prog, crate)
    r06_9(ctx, prog, crate)
    r06_1(ctx, prog, crate)
    r06_2(ctx, prog, crate)
    r06_3(ctx, prog, crate)
    r06_4(ctx, prog, crate)
    r06_5(ctx, prog, crate)
    r06_6(ctx, prog, crate)
    r06_7(ctx, prog, crate)
