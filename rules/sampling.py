"""Shared structural view of the sampling loop (C03, C04, C19): the loop of bench_loop_threaded that broadcasts one
round of samples per iteration."""
from lib.facts import direct_place, const_int, origins, place_fields, norm
from lib.paths import Explorer
from lib import tables

PAR_EXTEND = "util::thread::pool::ThreadPool::par_extend"


class Sampling:
    def __init__(self, prog, crate="divan"):
        self.prog = prog
        self.body = None
        cands = [b for b in prog.owner_bodies(crate) if any(c.callee == PAR_EXTEND for c in b.live_calls())
                 and "::tests::" not in b.path and not b.path.startswith("util::thread::pool")]
        if len(cands) != 1:
            return
        b = self.body = cands[0]
        self.pe = [c for c in b.live_calls() if c.callee == PAR_EXTEND]
        lp = b.innermost_loop(self.pe[0].bb) if self.pe else None
        # the sampling loop is the outermost loop containing par_extend
        ls = [l for l in b.loops if self.pe and self.pe[0].bb in l["body"]]
        self.loop = max(ls, key=lambda l: len(l["body"])) if ls else None
        if self.loop is None:
            return
        H = self.loop["header"]
        # the final switch of the loop condition: the switch inside the loop with one successor outside the loop,
        # reached from the header before any call other than Option::unwrap_or
        self.cond_switch = None
        self.exits = []
        for x in sorted(self.loop["body"]):
            t = b.term(x)
            if t["k"] == "switch":
                outs = [s for s in b.succ[x] if s not in self.loop["body"]]
                if outs:
                    self.exits.append((x, outs))
        # condition switch = the exit switch that dominates par_extend
        for x, outs in self.exits:
            if b.dominates(x, self.pe[0].bb):
                self.cond_switch = x

    def initial_mode_call(self):
        """The call before the loop that produces the initial BenchMode: (Call, Body) or (None, None)."""
        b = self.body
        cs = [c for c in b.live_calls() if c.dest["ty"] == "benchmark::BenchMode" and c.bb not in self.loop["body"]]
        if len(cs) != 1:
            return None, None
        return cs[0], self.prog.bodies.get((b.crate, cs[0].callee, -1))

    def local_wrapper(self):
        """The single-threaded wrapper: the non-closure body (other than the sampling function) that calls it."""
        b = self.body
        out = []
        for x in self.prog.lib_bodies(b.crate):
            if x.path != b.path and x.kind != "Closure" and "::tests::" not in x.path and any(c.callee == b.path for c in x.live_calls()):
                # entry points (methods of Bencher) call it too; the wrapper is the method of the same receiver type
                if x.arg_count >= 1 and x.local_ty(1) == b.local_ty(1):
                    out.append(x)
        return out[0] if len(out) == 1 else None

    def body_entry(self):
        """First block of the loop body proper: where this round's sample size is read (the condition region before it
        contains no call other than the pure ones of the condition itself)."""
        b = self.body
        ssz = [c.bb for c in b.live_calls() if c.callee == "benchmark::BenchMode::sample_size" and c.bb in self.loop["body"]]
        return ssz[0] if len(ssz) == 1 and b.dominates(ssz[0], self.pe[0].bb) else None

    def cond_rows(self):
        """Rows of the loop condition's decision DAG: list of (decisions{atom_key: bool}, result) with result a bool or
        an atom key.  Atom keys: (op, classA, classB). The result of a path is where it ends: in the loop body (continue)
        or outside the loop (stop) - whether the condition is computed into a flag tested once or branches straight out
        of a short-circuit `a && (b || c)`."""
        b = self.body
        entry = self.body_entry()
        if entry is None:
            return self._cond_rows_flag()
        exits = {s_ for x in self.loop["body"] for s_ in b.succ[x] if s_ not in self.loop["body"] and not b.blocks[s_].get("cleanup")}
        ex = Explorer(b, stop_at=[entry] + sorted(exits))
        ps = ex.run(start=self.loop["header"])
        rows = []
        for (path, reason), (dec, env) in zip(ps, ex.states):
            if reason != "stop":
                rows.append((None, "path-leaves-condition:" + reason))
                continue
            d = {}
            for key, choice in dec.items():
                d[self.atom(key)] = (choice != 0)
            rows.append((d, path[-1] == entry))
        return rows

    def _cond_rows_flag(self):
        b = self.body
        ex = Explorer(b, stop_at=[self.cond_switch])
        ps = ex.run(start=self.loop["header"])
        rows = []
        t = b.term(self.cond_switch)
        dl = t["discr"]["p"]["l"]
        for (path, reason), (dec, env) in zip(ps, ex.states):
            if reason != "stop":
                rows.append((None, "path-leaves-condition:" + reason))
                continue
            d = {}
            for key, choice in dec.items():
                d[self.atom(key)] = (choice != 0)
            val = env.get(dl)
            if val is None:
                res = "unknown"
            elif val[0] == "k":
                res = bool(val[1])
            else:
                res = self.atom(val[1])
            rows.append((d, res))
        return rows

    def classify_value(self, v):
        """Abstract value (from the explorer) -> semantic class of the operand."""
        b = self.body
        if v[0] == "k":
            return "const:%d" % v[1]
        key = v[1]
        if key[0] == "init":
            return self.classify_local(key[1])
        if key[0] == "call":
            c = b.call_at(key[1])
            if c is not None and c.callee == "std::option::Option::unwrap_or" and len(c.args) == 2:
                cls = "?"
                if c.args[0]["k"] in ("copy", "move"):
                    cls = self.classify_local(self.root_local(c.args[0]["p"]["l"]))
                return "unwrap_or(%s,%s)" % (cls, const_int(c.args[1]))
            return "call:" + (c.callee if c else "?")
        return "?"

    def root_local(self, l):
        """Follow single-definition whole-local copies/moves back to the variable they copy."""
        b = self.body
        for _ in range(10):
            defs = b.prov.defs.get(l, [])
            if len(defs) != 1 or defs[0][0] != "S":
                return l
            rv = defs[0][3]["rv"]
            if rv["k"] == "use" and rv["o"]["k"] in ("copy", "move") and not rv["o"]["p"]["proj"]:
                l = rv["o"]["p"]["l"]
                continue
            return l
        return l

    def classify_local(self, l):
        b = self.body
        os_ = origins(b, {"k": "copy", "p": {"l": l, "proj": [], "ty": ""}})
        calls = {o[1].callee for o in os_ if o[0] == "call"}
        fields = set()
        for o in os_:
            if o[0] == "place":
                fields.add(tuple(o[2]))
        srcs = b.prov.local_src(l)
        names = {s.a for s in srcs if s.kind == "call"}
        if "benchmark::options::BenchOptions::max_time" in names and "benchmark::options::BenchOptions::min_time" not in names and \
                "time::timestamp::Timestamp::duration_since" not in names:
            return "max_time"
        if "benchmark::options::BenchOptions::min_time" in names and "benchmark::options::BenchOptions::max_time" not in names and \
                "time::timestamp::Timestamp::duration_since" not in names:
            return "min_time"
        if "time::timestamp::Timestamp::duration_since" in names and "core::num::saturating_add" in names:
            return "elapsed"
        ty = b.local_ty(l)
        if ty == "std::option::Option<u32>" and "core::num::saturating_sub" in {s.a for s in self._pointee_writers(l)} | names:
            return "rem_samples"
        if ty == "std::option::Option<u32>":
            # rem_samples is decremented through a `&mut` to its payload
            return "rem_samples" if self._is_rem(l) else "option-u32"
        return "?"

    def _pointee_writers(self, l):
        return []

    def rem_map_decrements(self, l=None):
        """`rem = rem.map(|r| r.saturating_sub(1))` sites in the loop: [(map Call, closure body, saturating_sub Call)]."""
        b = self.body
        out = []
        for c in b.live_calls():
            if c.callee != "std::option::Option::map" or c.bb not in self.loop["body"] or len(c.args) != 2:
                continue
            if "Option<u32>" not in b.local_ty(c.dest["l"]) or c.dest["proj"]:
                continue
            src = self.root_local(c.args[0]["p"]["l"]) if c.args[0]["k"] in ("copy", "move") and not c.args[0]["p"]["proj"] else None
            # the result is stored back into the variable it was computed from (directly or through one temporary)
            back = {c.dest["l"]}
            for bi, si, s in b.stmts():
                if s["k"] == "assign" and not s["p"]["proj"] and s["rv"]["k"] == "use" and s["rv"]["o"]["k"] in ("copy", "move") and \
                        not s["rv"]["o"]["p"]["proj"] and s["rv"]["o"]["p"]["l"] == c.dest["l"]:
                    back.add(s["p"]["l"])
            if src not in back or (l is not None and src != l):
                continue
            cl = None
            for o in origins(b, c.args[1]):
                if o[0] == "rvalue" and o[1]["k"] == "agg" and o[1]["ak"] == "closure":
                    cl = self.prog.bodies.get((b.crate, norm(o[1]["def"]), -1))
            if cl is None:
                continue
            subs = [x for x in cl.live_calls() if x.callee == "core::num::saturating_sub"]
            if len(subs) == 1 and len(cl.live_calls()) == 1 and subs[0].dest["l"] == 0 and \
                    {z.label() for z in cl.prov.op_src(subs[0].args[0])} == {"param:" + cl.param_name(2)}:
                out.append((c, cl, subs[0]))
        return out

    def _is_rem(self, l):
        b = self.body
        if self.rem_map_decrements(l):
            return True
        # some `&mut (l as Some).0` pointer is written with saturating_sub(.., 1)
        for bi, si, s in b.stmts():
            if s["k"] == "assign" and s["rv"]["k"] in ("ref", "rawptr") and s["rv"]["p"]["l"] == l:
                ptr = s["p"]["l"]
                # follow copies of the pointer
                ptrs = {ptr}
                changed = True
                while changed:
                    changed = False
                    for bj, sj, s2 in b.stmts():
                        if s2["k"] == "assign" and s2["rv"]["k"] in ("use", "ref") :
                            src = s2["rv"]["o"]["p"]["l"] if s2["rv"]["k"] == "use" and s2["rv"]["o"]["k"] in ("copy", "move") else \
                                (s2["rv"]["p"]["l"] if s2["rv"]["k"] == "ref" else None)
                            if src in ptrs and s2["p"]["l"] not in ptrs and not s2["p"]["proj"]:
                                ptrs.add(s2["p"]["l"])
                                changed = True
                for bj, sj, s2 in b.stmts():
                    if s2["k"] == "assign" and s2["p"]["l"] in ptrs and s2["p"]["proj"] and s2["p"]["proj"][0]["k"] == "deref":
                        if any(z.kind == "call" and z.a == "core::num::saturating_sub" for z in b.prov._rv(s2["rv"], (), frozenset(), bj, sj)):
                            return True
        return False

    def atom(self, key):
        if isinstance(key, tuple) and key and key[0] == "cmp":
            return (key[1], self.classify_value(key[2]), self.classify_value(key[3]))
        if isinstance(key, tuple) and key and key[0] == "call":
            # `rem_samples == Some(0)` / `!= Some(0)`: no samples remaining, the same event as rem.unwrap_or(1) == 0
            b = self.body
            c = b.call_at(key[1])
            if c is not None and c.callee.rsplit("::", 1)[-1] in ("eq", "ne") and "PartialEq" in c.callee and len(c.args) == 2 and \
                    c.gargs and "Option<u32>" in c.gargs[0]:
                sides = []
                for a in c.args:
                    srcs = b.prov.op_src(a)
                    # the variable a reference operand points at: `&rem_samples` through single-definition temporaries
                    tgt_, l_ = None, (a["p"]["l"] if a.get("k") in ("copy", "move") and not a["p"]["proj"] else None)
                    for _ in range(4):
                        defs_ = b.prov.defs.get(l_, []) if l_ is not None else []
                        if len(defs_) != 1 or defs_[0][0] != "S":
                            break
                        rv_ = defs_[0][3]["rv"]
                        if rv_["k"] == "ref" and not rv_["p"]["proj"]:
                            tgt_ = rv_["p"]["l"]
                            break
                        l_ = rv_["o"]["p"]["l"] if rv_["k"] == "use" and rv_["o"]["k"] in ("copy", "move") and not rv_["o"]["p"]["proj"] else None
                    if tgt_ is not None and self.classify_local(tgt_) == "rem_samples":
                        sides.append("rem")
                    elif {z.a for z in srcs if z.kind == "variant"} == {"std::option::Option::Some"} and \
                            {str(z.a) for z in srcs if z.kind == "const"} == {"0_u32"} and not any(z.kind in ("param", "call", "phi") for z in srcs):
                        sides.append("some0")
                    else:
                        sides.append("?")
                if sorted(sides) == ["rem", "some0"]:
                    return ("Eq" if c.callee.endswith("::eq") else "Ne", "const:0", "unwrap_or(rem_samples,1)")
        if isinstance(key, tuple) and key and key[0] == "not":
            return ("not", self.atom(key[1][1]) if key[1][0] == "s" else key[1])
        return ("?", str(key)[:60])

    def local_by_class(self, cls):
        b = self.body
        # user variables only (locals with a debug name), not compiler temporaries
        # (not the variables of helpers spliced in by lib.inline: their debug names carry an `@helper` suffix)
        return [l for l in sorted(b.names) if "@" not in b.names[l] and b.local_ty(l) in ("u128", "std::option::Option<u32>") and self.classify_local(l) == cls]


def slowest_duration(prog, b, op):
    """Is the operand the longest timed section among this round's raw samples - `max_by_key(duration).unwrap().duration()`
    or `map(duration).max().unwrap()`, the key / mapping being RawSample::duration itself or a closure that calls nothing
    else? Returns (ok, description of what was found)."""
    from lib.facts import nophi
    DUR = "stats::sample::RawSample::duration"
    srcs = b.prov.op_src(op)
    calls = {z.a for z in srcs if z.kind == "call"}
    sites = {z.b for z in srcs if z.kind == "call"}
    desc = sorted(calls)
    if not nophi(srcs) or any(n.rsplit("::", 1)[-1] in ("min", "min_by_key", "min_by", "precision", "last", "first", "nth") for n in calls):
        return False, desc

    def is_duration_fn(c, arg):
        if arg.get("k") == "const":
            return norm(arg["c"].get("fn") or "") == DUR
        if arg.get("k") in ("copy", "move") and not arg["p"]["proj"]:
            for d in b.prov.defs.get(arg["p"]["l"], []):
                if d[0] == "S" and d[3]["rv"]["k"] == "agg" and d[3]["rv"].get("ak") == "closure":
                    cb = prog.bodies.get((b.crate, norm(d[3]["rv"]["def"]), -1))
                    return cb is not None and [q.callee for q in cb.live_calls()] == [DUR]
        return False
    for c in b.live_calls():
        if c.bb not in sites:
            continue
        last = c.callee.rsplit("::", 1)[-1]
        if last == "max_by_key" and "Iterator" in c.callee and len(c.args) == 2:
            return (DUR in calls and is_duration_fn(c, c.args[1])), desc
        if last == "max" and "Iterator" in c.callee and len(c.args) == 1:
            maps = [m for m in b.live_calls() if m.bb in sites and m.callee.rsplit("::", 1)[-1] == "map" and "Iterator" in m.callee and len(m.args) == 2]
            return (len(maps) == 1 and is_duration_fn(maps[0], maps[0].args[1])), desc
    return False, desc
