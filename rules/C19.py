"""C19  Automatic sample size: first power of two outlasting 100x timer precision."""
from lib.facts import direct_place, const_int, origins, place_fields, norm, nophi
from lib import tables
from .sampling import Sampling

INLINE = True      # crate-local helpers the rules do not know by name are inlined into their callers (lib/inline.py)
EXPLANATION = (
    "R19.1 mode machine constants and control dependence: initial_mode returns Collect{s} iff sample_size is Some(s), else "
    "Tune{1}; on the is_tune edge of each round the mode becomes Tune{sample_size * 2} when "
    "slowest_time.picos / timer_precision.picos <= 100 (operator Le, constant 100) and Collect{sample_size} with the same "
    "size otherwise, re-initialising the remaining-sample counter; slowest_time comes from max_by_key(duration). R19.2 on "
    "every tuning round samples.clear() and counters.clear_input_counts() run before that round's pushes; "
    "SampleCollection::clear clears every collection field of the struct (ADT-enumerated). R19.3 the passing round is "
    "recorded: no exit/continue lies between the mode switch and the push loop of the same round. R19.4 "
    "timer.precision() is read only on the is_tune edge and before the loop; the single loop header (C04/R04.2) governs "
    "tuning and collecting rounds alike, so max_time covers tuning."
    " R19.5 tuning rounds are discarded with their allocation and counter data. R19.6 (= R11.3) the precision the threshold divides by is a measured minimum, never the sentinel. R19.7 (= R03.8) BenchMode predicates and sample_size() tables.")
EXPLANATION += (' R19.8 (= R08.1) the start barrier precedes the start timestamp on every recorder path.')
NOT_DECIDED = ["the sizes actually reached for a given cost profile", "non-zero-ness of the measured timer precision (runtime)"]


def r19_1(ctx, S, prog, crate):
    b = S.body
    imc, im = S.initial_mode_call()
    if ctx.anchor("R19.1", "initial mode function (the call producing the first BenchMode)", 1 if im else 0, 1):
        ctx.saw(im)
        aggs = {}
        for bi, si, s in im.stmts():
            if s["k"] == "assign" and s["p"]["l"] == 0 and s["rv"]["k"] == "agg" and s["rv"]["ak"] == "adt":
                aggs.setdefault(s["rv"]["variant"], []).append((bi, s))
        ctx.check(sorted(aggs) == ["Collect", "Test", "Tune"], "R19.1", ["initial_mode", "three-modes"], "initial_mode builds %s" % sorted(aggs), im.where(0))
        if "Tune" in aggs:
            bi, s = aggs["Tune"][0]
            ctx.check(const_int(s["rv"]["ops"][0]) == 1, "R19.1", ["initial_mode", "tuning-starts-at-1"],
                      "tuning starts at sample size %s, expected 1" % s["rv"]["ops"][0].get("c", {}).get("d"), im.where(bi), detail={"Tune.sample_size": 1})
        if "Collect" in aggs:
            bi, s = aggs["Collect"][0]
            o = origins(im, s["rv"]["ops"][0])
            ok = any(x[0] == "place" and "sample_size" in tuple(x[2]) for x in o) and not any(x[0] in ("call", "const", "rvalue") for x in o)
            ctx.check(ok, "R19.1", ["initial_mode", "collect-with-given-size"], "Collect's size does not come from options.sample_size", im.where(bi))
            # Collect only on the Some arm of options.sample_size
            ok = False
            for sb, t, base in tables.discr_switches(im):
                defs = [d for d in im.prov.defs.get(t["discr"]["p"]["l"], []) if d[0] == "S" and d[3]["rv"]["k"] == "discr"]
                if defs and "sample_size" in [pr.get("name") for pr in defs[0][3]["rv"]["p"]["proj"] if pr["k"] == "field"]:
                    arms, otherwise = tables.arm_targets(t)
                    some_t = arms.get(1)
                    none_t = arms.get(0, otherwise)
                    ok = some_t is not None and im.dominates(some_t, bi) and "Tune" in aggs and im.dominates(none_t, aggs["Tune"][0][0])
            ctx.check(ok, "R19.1", ["initial_mode", "collect-iff-size-given"], "Collect/Tune are not selected by options.sample_size being Some/None", im.where(0))
    # in-loop transition
    tune_sw = None
    for bi, t in b.switches():
        d = direct_place(b, t["discr"])
        if bi in S.loop["body"] and d and d[0] == "call" and d[1].callee == "benchmark::BenchMode::is_tune" and d[1].bb in S.loop["body"]:
            tune_sw = (bi, t, d[1])
    if tune_sw is None:
        # or a match on the mode itself: `if let BenchMode::Tune { .. } = current_mode`
        names_ = tables.variant_names(prog, "benchmark::BenchMode", crate) or []
        ssz_ = [c for c in b.live_calls() if c.callee == "benchmark::BenchMode::sample_size" and c.bb in S.loop["body"]]
        mode_var_ = S.root_local(ssz_[0].args[0]["p"]["l"]) if ssz_ and ssz_[0].args[0]["k"] in ("copy", "move") else None
        for bi, t, base in tables.discr_switches(b):
            if bi in S.loop["body"] and "Tune" in names_ and (b.local_ty(base) or "").endswith("benchmark::BenchMode") and mode_var_ is not None and S.root_local(base) == mode_var_ \
                    and ssz_ and b.dominates(ssz_[0].bb, bi):
                arms, otherwise = tables.arm_targets(t)
                tune_t_ = arms.get(names_.index("Tune"), otherwise)
                others_ = {x_ for x_ in list(arms.values()) + [otherwise] if x_ != tune_t_ and not (b.blocks[x_]["term"]["k"] == "unreachable" and not b.blocks[x_]["stmts"])}
                if len(others_) == 1:
                    tune_sw = (bi, {"k": "switch", "arms": [["0", list(others_)[0]]], "otherwise": tune_t_, "discr": t["discr"]}, None)
    if not ctx.check(tune_sw is not None, "R19.1", [b.path, "is_tune-branch"], "no per-round branch on current_mode.is_tune()", b.where(S.loop["header"])):
        return None
    bi, t, tc = tune_sw
    tune_t = t["otherwise"]
    zero = [a[1] for a in t["arms"] if a[0] == "0"][0]
    tune_blocks = tables.exclusive_blocks(b, tune_t, [zero], stop=[S.loop["header"]])
    # the threshold test
    thr = None
    for x in sorted(tune_blocks):
        tt = b.term(x)
        if tt["k"] == "switch":
            d = direct_place(b, tt["discr"])
            if d and d[0] == "rvalue" and d[1]["k"] == "binop" and d[1]["op"] in ("Le", "Lt", "Ge", "Gt"):
                thr = (x, tt, d[1])
    if not ctx.check(thr is not None, "R19.1", [b.path, "threshold-test"], "no threshold comparison on the tuning edge", b.where(tune_t)):
        return tune_sw
    x, tt, cmp_ = thr
    # canonical form of the test, whatever its spelling (`m <= 100`, `m > 100`, `100 < m`, `m < 101` ...): Lt(100, m)
    from lib.symexpr import Sym, bool_switch, show as _show
    SY = Sym(b)
    bs = bool_switch(b, SY, x)
    okthr = bs is not None and bs[0][0] == "Lt" and bs[0][1] == ("int", 100)
    ctx.check(okthr, "R19.1", [b.path, "threshold-is-le-100"],
              "the threshold test is %s, expected: keep tuning while multiple <= 100, i.e. until 100 < multiple" % (_show(("cmp",) + bs[0]) if bs else "not a comparison"), b.where(x),
              detail={"canonical": "Lt(100, multiple)"})
    if not okthr:
        return tune_sw
    # multiple = slowest_time.picos / timer_precision.picos
    mop = cmp_["a"] if const_int(cmp_["a"]) is None else cmp_["b"]
    dm = direct_place(b, mop)
    ok = dm is not None and dm[0] == "rvalue" and dm[1]["k"] == "binop" and dm[1]["op"] == "Div"
    if ctx.check(ok, "R19.1", [b.path, "multiple-is-quotient"], "the compared quantity is not a quotient", b.where(x)):
        num = b.prov.op_src(dm[1]["a"])
        den = b.prov.op_src(dm[1]["b"])
        from .sampling import slowest_duration
        ok_sl, found_sl = slowest_duration(prog, b, dm[1]["a"])
        ctx.check(ok_sl and not any(z.kind == "call" and z.a == "time::timer::Timer::precision" for z in num), "R19.1", [b.path, "numerator-is-slowest-sample"],
                  "the numerator is not the slowest thread's sample duration (%s)" % found_sl, b.where(x))
        ctx.check(any(z.kind == "call" and z.a == "time::timer::Timer::precision" for z in den) and not any(z.kind == "call" and z.a.rsplit("::", 1)[-1] in ("max_by_key", "max") for z in den),
                  "R19.1", [b.path, "denominator-is-timer-precision"], "the denominator is not the timer precision", b.where(x))
    gt_t, le_t = bs[1], bs[2]
    le_blocks = tables.exclusive_blocks(b, le_t, [gt_t], stop=[S.loop["header"]])
    gt_blocks = tables.exclusive_blocks(b, gt_t, [le_t], stop=[S.loop["header"]])
    modes = {"le": [], "gt": []}
    for name, blocks in (("le", le_blocks), ("gt", gt_blocks)):
        for y in sorted(blocks):
            for s in b.blocks[y]["stmts"]:
                if s["k"] == "assign" and s["rv"]["k"] == "agg" and s["rv"]["ak"] == "adt" and norm(s["rv"]["adt"]) == "benchmark::BenchMode":
                    modes[name].append((y, s))
    if ctx.check(len(modes["le"]) == 1 and modes["le"][0][1]["rv"]["variant"] == "Tune", "R19.1", [b.path, "keep-tuning-when-le"],
                 "within the threshold the mode becomes %s" % [m[1]["rv"]["variant"] for m in modes["le"]], b.where(le_t)):
        y, s = modes["le"][0]
        e = SY.op(s["rv"]["ops"][0])
        # 2 * size, size * 2, size + size, size << 1 written as a product: canonical linear form with coefficient 2
        ssz0_ = [c for c in b.live_calls() if c.callee == "benchmark::BenchMode::sample_size" and c.bb in S.loop["body"]]
        mv_ = S.root_local(ssz0_[0].args[0]["p"]["l"]) if ssz0_ and ssz0_[0].args[0]["k"] in ("copy", "move") else None
        # this round's size: the sample_size() call of the round, or the size bound by `if let Tune { sample_size } = <mode>`
        # (the mode variable itself, not yet advanced: R19.5 size-read-before-mode-switch)
        from_pattern = ("payload", "Tune", "sample_size", ("phi", mv_)) if mv_ is not None else None
        ok = e[0] == "lin" and e[2] == 0 and len(e[1]) == 1 and e[1][0][1] == 2 and ((e[1][0][0][0] == "site" and
            e[1][0][0][1] == "benchmark::BenchMode::sample_size" and e[1][0][0][2] in S.loop["body"]) or e[1][0][0] == from_pattern)
        ctx.check(ok, "R19.1", [b.path, "doubles"], "the next tuning size is not this round's sample_size * 2", b.where(y), detail={"factor": 2})
    if ctx.check(len(modes["gt"]) == 1 and modes["gt"][0][1]["rv"]["variant"] == "Collect", "R19.1", [b.path, "collect-when-gt"],
                 "past the threshold the mode becomes %s" % [m[1]["rv"]["variant"] for m in modes["gt"]], b.where(gt_t)):
        y, s = modes["gt"][0]
        dd = direct_place(b, s["rv"]["ops"][0])
        ssz1_ = [c for c in b.live_calls() if c.callee == "benchmark::BenchMode::sample_size" and c.bb in S.loop["body"]]
        mv1_ = S.root_local(ssz1_[0].args[0]["p"]["l"]) if ssz1_ and ssz1_[0].args[0]["k"] in ("copy", "move") else None
        same = (dd is not None and dd[0] == "call" and dd[1].callee == "benchmark::BenchMode::sample_size" and dd[1].bb in S.loop["body"]) or \
            (dd is not None and dd[0] == "place" and mv1_ is not None and dd[1] == mv1_ and tuple(dd[2]) == ("sample_size",))
        ctx.check(same, "R19.1",
                  [b.path, "collect-with-same-size"], "collection does not continue with the size that passed the threshold", b.where(y))
        # rem_samples re-initialised on this edge
        rem = S.local_by_class("rem_samples")
        w = [bi2 for bi2, si2, s2 in b.stmts() if s2["k"] == "assign" and s2["p"]["l"] in rem and not s2["p"]["proj"] and bi2 in gt_blocks]
        if not w:
            # or after the two arms have joined, under a test that the mode just chosen is Collect:
            # `current_mode = <new mode>; if current_mode.is_collect() { rem_samples = Some(..) }`
            for bi2, si2, s2 in b.stmts():
                if not (s2["k"] == "assign" and s2["p"]["l"] in rem and not s2["p"]["proj"] and bi2 in tune_blocks and
                        any(z.kind == "variant" and z.a == "std::option::Option::Some" for z in b.prov._rv(s2["rv"], (), frozenset(), bi2, si2))):
                    continue
                for sb, t2 in b.switches():
                    d2 = direct_place(b, t2["discr"])
                    if d2 and d2[0] == "call" and d2[1].callee == "benchmark::BenchMode::is_collect" and sb in tune_blocks and \
                            b.dominates(t2["otherwise"], bi2) and b.pred[t2["otherwise"]] == [sb] and all(b.reach([x_]) & {sb} for x_ in (le_t, gt_t)):
                        w.append(bi2)
        ctx.check(len(w) == 1, "R19.1", [b.path, "counter-restarts-on-switch"], "the remaining-sample counter is not re-initialised when switching to Collect", b.where(gt_t))
    # both mode values are stored into the loop-carried mode variable that the next round's sample_size() reads
    for name in ("le", "gt"):
        for y, s in modes[name]:
            tgt = s["p"]["l"]
            stored = False
            ssz = [c for c in b.live_calls() if c.callee == "benchmark::BenchMode::sample_size" and c.bb in S.loop["body"]]
            mode_var = S.root_local(ssz[0].args[0]["p"]["l"]) if ssz else None
            # the value built here travels to the loop-carried mode variable through plain moves (directly, or through the
            # return slot of a spliced helper and the temporary that receives its result)
            front, seen_ = {tgt}, set()
            while front and mode_var is not None and not stored:
                cur = front.pop()
                seen_.add(cur)
                for bi3, si3, s3 in b.stmts():
                    if s3["k"] == "assign" and not s3["p"]["proj"] and s3["rv"]["k"] == "use" and s3["rv"]["o"]["k"] in ("move", "copy") and \
                            not s3["rv"]["o"]["p"]["proj"] and s3["rv"]["o"]["p"]["l"] == cur and bi3 in b.reach([y]) | {y}:
                        if s3["p"]["l"] == mode_var:
                            stored = True
                        elif s3["p"]["l"] not in seen_:
                            front.add(s3["p"]["l"])
            ctx.check(stored, "R19.1", [b.path, "mode-stored", name], "the new mode is not stored into the variable the next round reads", b.where(y))
    return (tune_sw, tune_blocks, thr)


def r19_2(ctx, S, prog, crate, info):
    b = S.body
    if info is None:
        return
    (bi, t, tc), tune_blocks, thr = info
    clears = [c for c in b.live_calls() if c.callee == "stats::sample::SampleCollection::clear" and c.bb in S.loop["body"]]
    cic = [c for c in b.live_calls() if c.callee == "counter::collection::CounterCollection::clear_input_counts" and c.bb in S.loop["body"]]
    push = [c for c in b.live_calls() if c.callee == "std::vec::Vec::push" and c.gargs and "TimeSample" in c.gargs[0]]
    pc = [c for c in b.live_calls() if c.callee == "counter::collection::CounterCollection::push_counter"]
    if not ctx.check(len(clears) == 1 and len(cic) == 1 and len(push) == 1 and len(pc) == 1, "R19.2", [b.path, "shape"],
                     "samples.clear x%d clear_input_counts x%d push x%d push_counter x%d" % (len(clears), len(cic), len(push), len(pc)), b.where(0)):
        return
    for c, what in ((clears[0], "samples.clear"), (cic[0], "clear_input_counts")):
        # unavoidable on the tuning edge, before the pushes of the round
        r = b.reach([t["otherwise"]], avoid=[c.bb, S.loop["header"]])
        ctx.check(push[0].bb not in r and pc[0].bb not in r, "R19.2", [b.path, what, "before-this-rounds-pushes"],
                  "on a tuning round samples can be stored without `%s` having run first" % what, c.line())
        ctx.check(c.bb in tune_blocks, "R19.2", [b.path, what, "only-on-tuning-rounds"], "`%s` also runs on collecting rounds (recorded samples would be lost)" % what, c.line())
        recv = {(o[1], tuple(o[2])) for o in origins(b, c.args[0]) if o[0] == "place"}
        want = (1, ("samples",)) if what == "samples.clear" else (1, ("counters",))
        ctx.check(recv == {want}, "R19.2", [b.path, what, "receiver"], "`%s` is applied to %s" % (what, sorted(recv)), c.line())
    # SampleCollection::clear clears every collection field
    sc = prog.body("stats::sample::SampleCollection::clear", crate)
    adt = prog.adt("stats::sample::SampleCollection", crate)
    if ctx.anchor("R19.2", "SampleCollection::clear + ADT", (1 if sc else 0) + (1 if adt else 0), 2):
        coll = [f["name"] for f in adt["variants"][0]["fields"] if f["ty"].startswith(("std::vec::Vec<", "std::collections::HashMap<", "std::collections::BTreeMap<",
                                                                                          "std::collections::VecDeque<", "std::collections::HashSet<"))]
        cleared = set()
        for c in sc.live_calls():
            if c.callee.endswith("::clear"):
                for o in origins(sc, c.args[0]):
                    if o[0] == "place" and o[1] == 1 and o[2]:
                        cleared.add(o[2][0])
        ctx.check(set(coll) == cleared and len(coll) >= 2, "R19.2", ["SampleCollection::clear", "all-collections"],
                  "SampleCollection::clear clears %s, the struct's collections are %s" % (sorted(cleared), sorted(coll)), sc.where(0), detail={"fields": coll})
    ci = prog.body("counter::collection::CounterCollection::clear_input_counts", crate)
    if ctx.anchor("R19.2", "CounterCollection::clear_input_counts", 1 if ci else 0, 1):
        cl = [c for c in ci.live_calls() if c.callee.endswith("::clear")]
        lp = ci.innermost_loop(cl[0].bb) if cl else None
        ctx.check(len(cl) == 1 and lp is not None, "R19.2", ["clear_input_counts", "per-kind-loop"], "clear_input_counts does not clear inside a per-kind loop", ci.where(0))
        # guarded by count_input.is_some()
        ok = False
        if cl:
            for sb, tt in ci.switches():
                d = direct_place(ci, tt["discr"])
                if d and d[0] == "call" and d[1].callee == "std::option::Option::is_some" and ci.dominates(tt["otherwise"], cl[0].bb):
                    o = origins(ci, d[1].args[0])
                    ok = any(x[0] == "place" and tuple(x[2])[-1:] == ("count_input",) for x in o) or \
                        any(z.kind in ("param", "call") for z in ci.prov.op_src(d[1].args[0]))
        ctx.check(ok, "R19.2", ["clear_input_counts", "only-per-input-counters"], "clear_input_counts is not limited to counters fed by inputs", ci.where(0))


def r19_3(ctx, S, info):
    b = S.body
    if info is None:
        return
    (bi, t, tc), tune_blocks, thr = info
    push = [c for c in b.live_calls() if c.callee == "std::vec::Vec::push" and c.gargs and "TimeSample" in c.gargs[0]]
    if not push:
        return
    lp = b.innermost_loop(push[0].bb)
    if lp is None:
        return
    # from the is_tune switch, every path (within the round) reaches the push loop header: no exit / latch before it
    outside = set(range(len(b.blocks))) - S.loop["body"]
    r = b.reach([bi], avoid={lp["header"]})
    escaped = [x for x in r if x in S.loop["latches"] or (x in outside and (set(b.returns) & b.reach([x])))]
    ctx.check(not escaped, "R19.3", [b.path, "passing-round-is-recorded"],
              "between the mode switch and the push loop a path leaves the round (continue/break): the round that passed the threshold would not be recorded",
              b.where(bi))
    ctx.check(b.dominates(bi, lp["header"]), "R19.3", [b.path, "switch-before-push-loop"], "the push loop can run before the mode switch", b.where(lp["header"]))


def r19_4(ctx, S, prog, crate):
    b = S.body
    pr = [c for c in b.live_calls() if c.callee == "time::timer::Timer::precision"]
    if ctx.check(len(pr) == 1, "R19.4", [b.path, "one-precision-read"], "timer.precision() reads: %d" % len(pr), b.where(0)):
        c = pr[0]
        ctx.check(c.bb not in S.loop["body"] and S.loop["header"] in b.reach([c.bb]), "R19.4", [b.path, "precision-before-loop"], "precision is measured inside the loop", c.line())
        ok = False
        for sb, t in b.switches():
            d = direct_place(b, t["discr"])
            if d and d[0] == "call" and d[1].callee == "benchmark::BenchMode::is_tune" and d[1].bb not in S.loop["body"]:
                ok = b.dominates(t["otherwise"], c.bb) and b.pred[t["otherwise"]] == [sb]
        ctx.check(ok, "R19.4", [b.path, "precision-only-when-tuning"], "precision is measured although the sample size is given", c.line())
    # one loop header for tuning and collecting rounds: the mode switch is inside the sampling loop whose only condition is R04.1
    imc, imb = S.initial_mode_call()
    ctx.check(imc is not None, "R19.4", [b.path, "mode-initialised-once"], "the initial mode is not computed exactly once before the loop", b.where(0))
    nloops = [l for l in b.loops if any(c.callee == "util::thread::pool::ThreadPool::par_extend" for c in b.live_calls() if c.bb in l["body"])]
    ctx.check(len(nloops) == 1, "R19.4", [b.path, "single-sampling-loop"], "loops containing the broadcast: %d (tuning must not have a loop of its own)" % len(nloops), b.where(0))


def r19_5(ctx, S, prog, crate, rule="R19.5"):
    """'All reported samples use that final size': the size recorded with the samples (samples.sample_size, which
    compute_stats divides by and multiplies into `iters`) is stored in the same round, from the same
    current_mode.sample_size() call that sizes the round's samples, before the round is broadcast - so whenever the loop
    stops, the recorded size is the one the retained samples were taken with."""
    b = S.body
    from lib.facts import place_root_fields
    stores = [(bi, si, s) for bi, si, s in b.stmts() if s["k"] == "assign" and s["p"]["proj"] and place_root_fields(b, s["p"]) == (1, ("samples", "sample_size"))]
    if not ctx.check(len(stores) == 1, rule, [b.path, "one-store"], "stores to samples.sample_size: %d" % len(stores), b.where(0)):
        return
    bi, si, s = stores[0]
    d = direct_place(b, s["rv"]["o"]) if s["rv"]["k"] == "use" else None
    ok = d is not None and d[0] == "call" and d[1].callee == "benchmark::BenchMode::sample_size"
    ctx.check(ok and bi in S.loop["body"] and b.dominates(bi, S.pe[0].bb) and b.once_per_iteration(bi, S.loop), rule, [b.path, "recorded-size-is-this-rounds"],
              "samples.sample_size is not stored every round, before the broadcast, from current_mode.sample_size(): if sampling stops while tuning "
              "(max_time), the reported size can differ from the size the retained samples were taken with", b.where(bi))
    if ok:
        ssz = d[1]
        # the same call result sizes the round (captured by the record closure) - C03/R03.3 checks the capture; here: the mode
        # read is the loop-carried mode and happens before this round's mode switch
        ctx.check(ssz.bb in S.loop["body"] and b.once_per_iteration(ssz.bb, S.loop), rule, [b.path, "size-read-once-per-round"],
                  "current_mode.sample_size() is not read exactly once per round", ssz.line())
        tune = [c for c in b.live_calls() if c.callee == "benchmark::BenchMode::is_tune" and c.bb in S.loop["body"]]
        # (when the tuning step is `if let BenchMode::Tune { .. } = mode` there is no is_tune() call: the switch of the mode is
        #  the store into the loop-carried mode variable itself)
        mv2_ = S.root_local(ssz.args[0]["p"]["l"]) if ssz.args[0]["k"] in ("copy", "move") else None
        mode_writes = [bi2 for bi2, si2, s2 in b.stmts() if s2["k"] == "assign" and not s2["p"]["proj"] and s2["p"]["l"] == mv2_ and bi2 in S.loop["body"]]
        ctx.check((bool(tune) and b.dominates(ssz.bb, tune[0].bb)) or (not tune and bool(mode_writes) and all(b.dominates(ssz.bb, w_) for w_ in mode_writes)), rule, [b.path, "size-read-before-mode-switch"],
                  "the round's size is read after the mode may already have been advanced", ssz.line())


def r19_6(ctx, prog, crate):
    """The threshold's unit: the timer precision that slowest/precision divides by is the smallest non-zero step the
    timer observed, never the sentinel FineDuration::MAX (a quotient of 0 would keep tuning forever) - clause shared
    with C11 (R11.3)."""
    from .C11 import r11_3
    from .common import Renamed
    r11_3(Renamed(ctx, "R19.6"), prog, crate)


def r19_7(ctx, prog, crate):
    from rules.C03 import bench_mode_tables
    bench_mode_tables(ctx, "R19.7", prog, crate)


def r19_8(ctx, prog, crate):
    """(= R08.1) What tuning compares with 100 x precision is the time of the sample loop only: on each of the recorder's
    paths the start barrier precedes the start timestamp (and the end timestamp the end barrier), so a thread's sample never
    includes its wait for the other threads' input generation - which alone would pass the threshold at size 1."""
    from .C08 import Recorder, r08_1
    from .common import Renamed
    rec = Recorder(prog, crate)
    if not ctx.anchor("R19.8", "sample recorder body", 1 if rec.body is not None else 0, 1):
        return
    r08_1(Renamed(ctx, "R19.8"), prog, crate, rec)


def run(ctx, prog, crate):
    r19_8(ctx, prog, crate)
    r19_6(ctx, prog, crate)
    r19_7(ctx, prog, crate)
    S = Sampling(prog, crate)
    if not ctx.anchor("R19.1", "sampling loop", 1 if S.body is not None and S.loop is not None and S.cond_switch is not None else 0, 1):
        return
    ctx.saw(S.body)
    info = r19_1(ctx, S, prog, crate)
    if isinstance(info, tuple) and len(info) == 3 and isinstance(info[1], set):
        r19_2(ctx, S, prog, crate, info)
        r19_3(ctx, S, info)
    else:
        ctx.fail("R19.2/ANCHOR", ["tuning-edge"], "the tuning edge could not be identified", None)
    r19_4(ctx, S, prog, crate)
    r19_5(ctx, S, prog, crate)
