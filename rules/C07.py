"""C07  The thread pool never deadlocks, loses a wake-up or leaks workers."""
from lib.facts import norm, direct_place, const_int
from lib import tables
from .C06 import POOL, worker, field_of_arg, is_recv, RECV, recv_arms

INLINE = True      # crate-local helpers the rules do not know by name are inlined into their callers (lib/inline.py)
EXPLANATION = (
    "The three mechanisms the property names, as code-level necessary conditions: R07.1 thread::park is inside a natural "
    "loop that re-loads ref_count on every iteration (a spurious or stale token cannot end the wait; nothing else "
    "blocks in the loop). R07.2 unpark is control-dependent on fetch_sub(..) == 1 and unavoidable on that edge. R07.3 "
    "the worker's recv-Err edge reaches Return passing only mem::forget(panic_guard); the abort guard is created before "
    "the loop and forgotten only there; SyncSender<Task> values are stored only in ThreadPool.threads, never cloned, "
    "forgotten or leaked, and ThreadPool has no Drop impl - so dropping the pool closes every channel and every worker "
    "leaves its loop. R07.4 while the `threads` mutex guard is live no blocking callee other than the rendezvous sends "
    "is called. Necessary, not sufficient: liveness over all schedules is not decided."
    ' R07.5 the wake-up targets the caller of this broadcast: the shared block carries exactly one Thread handle, initialised with thread::current() by the constructor that the broadcasting thread itself calls, and every unpark in the worker is applied to (a clone of) that field of the task just received and to nothing else.')
EXPLANATION += (" R07.7 nothing on the pool's task path has a non-unwinding ABI (a panicking task unwinds to its thread's catch_unwind).")
NOT_DECIDED = ["absence of deadlock / lost wake-up over all schedules and histories (liveness over interleavings; model-checking family)"]
TRUSTED = ["park/unpark token semantics; a rendezvous send returns once the receiver took the value"]

BLOCKING = ("std::sync::Mutex::lock", "std::sync::mpsc::Receiver::recv", "<std::sync::mpsc::Iter<'a, T> as std::iter::Iterator>::next", "<std::sync::mpsc::IntoIter<T> as std::iter::Iterator>::next", "std::thread::park", "std::sync::Barrier::wait",
            "std::thread::JoinHandle::join", "std::thread::sleep", "std::sync::Condvar::wait", "std::sync::RwLock::read",
            "std::sync::RwLock::write", "std::sync::mpsc::SyncSender::send", "std::sync::mpsc::Sender::send",
            "std::thread::park_timeout", "std::sync::OnceLock::get_or_init", "std::io::_print", "std::io::_eprint")


def r07_1(ctx, prog, crate):
    bt = prog.body(POOL + "ThreadPool::broadcast_task", crate)
    if not ctx.anchor("R07.1", "broadcast_task", 1 if bt else 0, 1):
        return
    ctx.saw(bt)
    parks = [c for c in bt.live_calls() if c.callee in ("std::thread::park", "std::thread::park_timeout")]
    if not ctx.check(len(parks) == 1, "R07.1", ["caller", "one-park-site"], "park sites: %d" % len(parks), bt.where(0)):
        return
    p = parks[0]
    lp = bt.innermost_loop(p.bb)
    if not ctx.check(lp is not None, "R07.1", ["caller", "park-in-loop"],
                     "thread::park is not inside a loop: a spurious wake-up or a stale token ends the wait early", p.line()):
        return
    loads = [c for c in bt.live_calls() if c.callee == "std::sync::atomic::Atomic::load" and c.bb in lp["body"] and "ref_count" in field_of_arg(bt, c)]
    ok = len(loads) == 1 and bt.once_per_iteration(loads[0].bb, lp)
    ctx.check(ok, "R07.1", ["caller", "loop-reloads-ref_count"], "the park loop does not re-load ref_count on every iteration", p.line())
    if ok:
        # after park, the next thing decided is the re-loaded count: park's successor reaches the load before any exit
        exits = {s for x in lp["body"] for s in bt.succ[x] if s not in lp["body"]}
        r = bt.reach([p.target], avoid=[loads[0].bb]) if p.target is not None else set()
        ctx.check(not (r & exits), "R07.1", ["caller", "no-exit-between-park-and-reload"], "the loop can be left after park without re-checking the count", p.line())
        # the load precedes the park in each iteration (check-then-park: a wake-up sent before parking leaves a token)
        ctx.check(bt.dominates(loads[0].bb, p.bb), "R07.1", ["caller", "check-before-park"], "park is reached without first checking the count", p.line())
    others = [c.callee for c in bt.live_calls() if c.bb in lp["body"] and c.callee in BLOCKING and c.bb != p.bb]
    ctx.check(not others, "R07.1", ["caller", "nothing-else-blocks-in-wait-loop"] + others, "the wait loop also calls %s" % others, p.line())


def r07_2(ctx, prog, crate):
    w = worker(prog, crate)
    if not ctx.anchor("R07.2", "worker closure", 1 if w else 0, 1):
        return
    ctx.saw(w)
    dec = [c for c in w.live_calls() if c.callee.endswith("fetch_sub")]
    up = [c for c in w.live_calls() if c.callee == "std::thread::Thread::unpark"]
    if not ctx.check(len(dec) == 1 and len(up) == 1, "R07.2", ["worker", "shape"], "fetch_sub x%d unpark x%d" % (len(dec), len(up)), w.where(0)):
        return
    dec, up = dec[0], up[0]
    sw = None
    for bi, t in w.switches():
        d = direct_place(w, t["discr"])
        if d and d[0] == "rvalue" and d[1]["k"] == "binop" and d[1]["op"] == "Eq":
            a, b2 = d[1]["a"], d[1]["b"]
            da, db = direct_place(w, a), direct_place(w, b2)
            for x, y in ((da, b2), (db, a)):
                if x and x[0] == "call" and x[1].bb == dec.bb and const_int(y) == 1:
                    sw = (bi, t)
    if not ctx.check(sw is not None, "R07.2", ["worker", "last-one-test"], "no `fetch_sub(..) == 1` test", dec.line()):
        return
    bi, t = sw
    zero = [a[1] for a in t["arms"] if a[0] == "0"][0]
    yes = t["otherwise"]
    rcs = [c.bb for c in w.live_calls() if is_recv(c)]
    ctx.check(up.bb not in w.reach([zero], avoid=[yes] + rcs), "R07.2", ["worker", "unpark-only-by-last"],
              "unpark is reachable when the counter did not reach zero", up.line())
    ctx.check(up.bb in tables.exclusive_blocks(w, yes, [zero], stop=rcs), "R07.2", ["worker", "unpark-on-zero-edge"],
              "unpark is not on the `== 1` edge", up.line())
    # unavoidable on that edge: from `yes` every path to the next recv / return passes unpark
    rc = [c for c in w.live_calls() if is_recv(c)]
    targets = set(w.returns) | {c.bb for c in rc}
    r = w.reach([yes], avoid=[up.bb])
    ctx.check(not (r & targets), "R07.2", ["worker", "last-one-always-unparks"],
              "the worker that brings the counter to zero can skip unpark", up.line())
    # the `== 1` decision is taken on every path after the decrement (whatever the task's outcome was)
    r2 = w.reach([dec.target], avoid=[bi]) if dec.target is not None else set()
    ctx.check(not (r2 & targets), "R07.2", ["worker", "last-one-test-unavoidable"],
              "after decrementing ref_count a path reaches the next recv()/return without testing whether this worker was the last one "
              "(e.g. when its task panicked): the caller may never be woken", dec.line())
    # nothing blocking between the decrement and the unpark
    between = (w.reach([dec.target], avoid=[up.bb] + rcs) & w.reach_back([up.bb], avoid=rcs)) if dec.target is not None else set()
    bl = [w.call_at(x).callee for x in between if w.call_at(x) is not None and w.call_at(x).callee in BLOCKING]
    ctx.check(not bl, "R07.2", ["worker", "no-blocking-before-unpark"] + bl, "blocking call between decrement and unpark: %s" % bl, up.line())
    # the decrement itself is unavoidable once a task was received (also when the task panicked: run is inside catch_unwind, C06/R06.4)
    for c in rc:
        some, _closed = recv_arms(w, c)
        if ctx.check(some is not None, "R07.2", ["worker", "recv-ok-arm"], "cannot find the Ok arm of recv()", c.line()):
            r = w.reach([some], avoid=[dec.bb])
            ctx.check(not (r & targets), "R07.2", ["worker", "always-decrements"],
                      "a received task can be finished without decrementing ref_count (the caller would wait forever)", dec.line())


def r07_3(ctx, prog, crate):
    w = worker(prog, crate)
    if w is None:
        return
    rc = [c for c in w.live_calls() if is_recv(c)]
    guard = [c for c in w.live_calls() if c.callee == "util::defer"]
    fg = [c for c in w.live_calls() if c.callee == "std::mem::forget"]
    if not ctx.check(len(rc) == 1 and len(guard) == 1 and len(fg) == 1, "R07.3", ["worker", "shape"],
                     "recv x%d defer x%d forget x%d" % (len(rc), len(guard), len(fg)), w.where(0)):
        return
    rc, guard, fg = rc[0], guard[0], fg[0]
    lp = w.innermost_loop(rc.bb)
    ctx.check(lp is not None and guard.bb not in lp["body"] and w.dominates(guard.bb, lp["header"]), "R07.3", ["worker", "guard-before-loop"],
              "the abort guard is not created before the receive loop", guard.line())
    # Err arm
    _task, err = recv_arms(w, rc)
    if ctx.check(err is not None, "R07.3", ["worker", "recv-err-arm"], "cannot find the Err arm of recv()", rc.line()):
        r = w.reach([err])
        ctx.check(bool(set(w.returns) & r) and rc.bb not in r, "R07.3", ["worker", "err-exits"],
                  "the worker does not leave its loop when the channel is closed", w.where(err))
        calls = [w.call_at(x).callee for x in sorted(r) if w.call_at(x) is not None]
        ctx.check(calls == ["std::mem::forget"], "R07.3", ["worker", "exit-path-only-forgets-guard"] + calls,
                  "on the exit path the worker calls %s" % calls, w.where(err))
        ctx.check(fg.bb in r and fg.bb not in (lp["body"] if lp else set()), "R07.3", ["worker", "guard-forgotten-only-on-exit"],
                  "the abort guard is disarmed inside the loop", fg.line())
        d = direct_place(w, fg.args[0])
        ctx.check(d is not None and ((d[0] == "call" and d[1].bb == guard.bb) or (d[0] == "place" and d[1] == guard.dest["l"])), "R07.3",
                  ["worker", "forgets-the-guard"], "mem::forget is applied to something other than the guard", fg.line())
        # no drop terminators of the guard on the normal path
        for x in sorted(w.live):
            tm = w.term(x)
            if tm["k"] == "drop" and "Defer<" in tm["ty"]:
                ctx.fail("R07.3", ["worker", "guard-dropped-on-normal-path"], "the abort guard is dropped (process abort) on a normal path", w.where(x))
    # the guard aborts
    g = [x for x in prog.children(w) if x.kind == "Closure" and any(c.callee == "std::process::abort" for c in x.live_calls())]
    ctx.check(len(g) == 1, "R07.3", ["worker", "guard-aborts"], "the panic guard does not abort", w.where(0))
    # sender ownership
    holders = []
    for f in prog.facts[crate]:
        if f["fact"] == "adt":
            for v in f["variants"]:
                for fld in v["fields"]:
                    if "SyncSender<" in fld["ty"]:
                        holders.append((norm(f["path"]), fld["name"]))
    ctx.check(holders == [("util::thread::pool::ThreadPool", "threads")], "R07.3", ["senders", "stored-only-in-pool"],
              "SyncSender values are stored in %s" % holders, "src/util/thread/pool.rs", detail=holders)
    for b in prog.lib_bodies(crate):
        if "::tests::" in b.path:
            continue
        for c in b.live_calls():
            g0 = c.gargs[0] if c.gargs else ""
            if "SyncSender" in g0 and c.callee.rsplit("::", 1)[-1] in ("clone", "forget", "leak", "into_raw", "new") and \
                    (c.callee.endswith("Clone>::clone") or c.callee in ("std::mem::forget", "std::boxed::Box::leak", "std::mem::ManuallyDrop::new")):
                ctx.fail("R07.3", ["senders", "cloned-or-leaked", b.path, c.callee], "a worker's sender is duplicated or leaked: its channel never closes", c.line())
    drops = [i for i in prog.impls(crate) if i["trait"] == "std::ops::Drop" and "ThreadPool" in i["self"]]
    ctx.check(not drops, "R07.3", ["ThreadPool", "no-custom-Drop"], "ThreadPool has a Drop impl (it could keep senders alive)", "src/util/thread/pool.rs")
    # spawn: per new worker one rendezvous channel, one detached thread, the sender goes to the list (either idiom, see C06.SpawnModel)
    from rules.C06 import SpawnModel
    m = SpawnModel(prog, crate)
    if ctx.check(m.ok_shape, "R07.3", ["spawn", "map-closure"], "spawn: %s" % m.why, m.sp.where(0) if m.sp else None):
        ctx.saw(m.starter)
        if ctx.check(m.channel is not None and m.channel.callee == "std::sync::mpsc::sync_channel", "R07.3", ["spawn", "one-channel-per-worker"], "sync_channel sites per worker: %d" % len(m.channels), m.starter.where(0)):
            ctx.check(const_int(m.channel.args[0]) == 0, "R07.3", ["spawn", "rendezvous-channel"], "channel capacity is not 0", m.channel.line())
            ctx.check(m.sender_goes_to_list, "R07.3", ["spawn", "returns-sender"], "the sender of the new channel does not go to the pool's list", m.starter.where(0))
        ctx.check(m.thread_spawn is not None, "R07.3", ["spawn", "one-thread-per-channel"], "thread spawn sites per worker: %d" % len(m.thread_spawns), m.starter.where(0))
        # the JoinHandle is dropped (detached), never joined
        ctx.check(not any(c.callee.endswith("JoinHandle::join") for c in m.starter.live_calls()), "R07.3", ["spawn", "detached"], "spawn joins", m.starter.where(0))


def r07_4(ctx, prog, crate):
    bt = prog.body(POOL + "ThreadPool::broadcast_task", crate)
    if bt is None:
        return
    lock = [c for c in bt.live_calls() if c.callee == "std::sync::Mutex::lock"]
    if not ctx.check(len(lock) == 1, "R07.4", ["caller", "one-lock"], "lock sites: %d" % len(lock), bt.where(0)):
        return
    gdrops = [x for x in sorted(bt.live) if bt.term(x)["k"] == "drop" and "MutexGuard<" in bt.term(x)["ty"]]
    if not ctx.check(len(gdrops) >= 1, "R07.4", ["caller", "guard-released"], "the mutex guard is never dropped on the normal path", lock[0].line()):
        return
    region = bt.between([lock[0].bb], gdrops) - set(gdrops)
    for x in sorted(region):
        c = bt.call_at(x)
        if c is None:
            continue
        ctx.calls_examined += 1
        if c.callee in BLOCKING and c.callee != "std::sync::mpsc::SyncSender::send":
            ctx.fail("R07.4", ["caller", "blocking-under-lock", c.callee], "`%s` is called while the threads mutex is held" % c.callee, c.line())
        else:
            ctx.ok("R07.4", "under-lock|" + c.callee)
    # the wait loop and the caller's own run happen after the guard is released
    for c in bt.live_calls():
        if c.callee in ("std::thread::park", "std::panic::catch_unwind"):
            ctx.check(c.bb not in region and all(bt.dominates(g, c.bb) or c.bb not in bt.reach([lock[0].bb], avoid=gdrops) for g in gdrops), "R07.4",
                      ["caller", "after-unlock", c.callee.rsplit("::", 1)[-1]], "`%s` runs while the threads mutex may be held" % c.callee, c.line())
    # poisoned lock is recovered, not propagated
    rec = [c for c in bt.live_calls() if c.callee == "std::result::Result::unwrap_or_else" and c.bb in bt.reach([lock[0].bb])]
    ok = False
    for c in rec:
        ok = ok or any(s.kind == "fnitem" and s.a.endswith("PoisonError::into_inner") for s in bt.prov.op_src(c.args[1]))
    ctx.check(ok, "R07.4", ["caller", "poison-recovered"], "a poisoned threads mutex is not recovered with PoisonError::into_inner", lock[0].line())


def r07_5(ctx, prog, crate):
    """The wake-up goes to the caller of THIS broadcast: the handle a worker unparks is (a clone of) the `Thread` stored
    in the shared block of the task it just received, and that field is initialised with thread::current() by the
    constructor that the broadcasting thread itself calls.  A handle captured elsewhere (at spawn time, in a static)
    would wake an earlier caller."""
    from lib.facts import origins, nophi
    w = worker(prog, crate)
    ts = prog.body(POOL + "TaskShared::new", crate)
    br = prog.body(POOL + "ThreadPool::broadcast", crate)
    if not ctx.anchor("R07.5", "worker loop, TaskShared::new, ThreadPool::broadcast", sum(1 for x in (w, ts, br) if x), 3):
        return
    adt = prog.adt(POOL + "TaskShared", crate) or prog.adt("TaskShared", crate)
    fields = []
    if adt:
        for v in adt.get("variants", []):
            fields += [f.get("name") for f in v.get("fields", [])]
    thread_fields = [f.get("name") for v in (adt or {}).get("variants", []) for f in v.get("fields", []) if f.get("ty", "").endswith("thread::Thread")]
    if not ctx.check(len(thread_fields) == 1, "R07.5", ["TaskShared", "carries-the-callers-handle"],
                     "the per-broadcast shared block has %d field(s) of type Thread (fields: %s): the worker cannot learn which thread called this broadcast" % (len(thread_fields), fields), ts.where(0)):
        return
    tf = thread_fields[0]
    # constructor: field = thread::current(), on every path
    aggs = [s for bi, si, s in ts.stmts() if s["k"] == "assign" and s["rv"]["k"] == "agg" and s["rv"]["ak"] == "adt" and "TaskShared" in s["rv"]["adt"]]
    if ctx.check(len(aggs) == 1 and tf in aggs[0]["rv"].get("fields", []), "R07.5", ["TaskShared::new", "aggregate"], "no single TaskShared aggregate with field %s" % tf, ts.where(0)):
        o = aggs[0]["rv"]["ops"][aggs[0]["rv"]["fields"].index(tf)]
        og = origins(ts, o)
        ctx.check(bool(og) and all(x[0] == "call" and x[1].callee == "std::thread::current" for x in og), "R07.5", ["TaskShared::new", "handle-is-current-thread"],
                  "TaskShared.%s is not thread::current() of the constructing (= broadcasting) thread" % tf, ts.where(0))
    # the constructor runs on the broadcasting thread: called directly by broadcast, which directly calls broadcast_task
    ctx.check(any(c.callee == POOL + "TaskShared::new" for c in br.live_calls()) and any(c.callee == POOL + "ThreadPool::broadcast_task" for c in br.live_calls()),
              "R07.5", ["broadcast", "constructs-then-waits-on-same-thread"], "broadcast does not itself build the shared block and call broadcast_task", br.where(0))
    # worker: every unpark is applied to a handle that derives from the received task's field, and from nothing else
    rc = [c for c in w.live_calls() if is_recv(c)]
    ups = [c for c in w.live_calls() if c.callee == "std::thread::Thread::unpark"]
    if not ctx.check(len(ups) >= 1 and len(rc) == 1, "R07.5", ["worker", "unpark-sites"], "unpark sites: %d, recv sites: %d" % (len(ups), len(rc)), w.where(0)):
        return
    recv_args = {s.label() for a in rc[0].args for s in w.prov.op_src(a)}
    clones = [x for x in w.live_calls() if x.callee.endswith("Thread as std::clone::Clone>::clone") and tf in field_of_arg(w, x)]
    for c in ups:
        srcs = w.prov.op_src(c.args[0])
        from_task = any(s.kind == "call" and s.b == rc[0].bb for s in srcs)
        og = origins(w, c.args[0])
        # the handle is the field itself or a clone of it (the clone is needed: the block is freed once the count reaches 0)
        through_field = tf in field_of_arg(w, c) or (bool(og) and all(o[0] == "call" and any(o[1].bb == x.bb for x in clones) for o in og))
        foreign = sorted(s.label() for s in srcs if s.kind in ("upvar", "static", "param") and s.label() not in recv_args)
        ctx.check(from_task and through_field and not foreign and nophi(srcs), "R07.5", ["worker", "unparks-the-received-tasks-caller"],
                  "the unparked handle does not derive (only) from `%s` of the task just received: from-task=%s through-field=%s other sources=%s"
                  % (tf, from_task, through_field, foreign), c.line())


def r07_6(ctx, prog, crate):
    """The caller waits on EVERY way out of a broadcast: no return and no unwinding leaves broadcast_task before the loop
    that observes ref_count == 0 (a caller that has left is not woken 'after the last worker finishes', its wake-up
    becomes a stale token and the workers touch a dead frame).  Clause shared with C06 (R06.4)."""
    from .C06 import r06_4
    from .common import Renamed
    r06_4(Renamed(ctx, "R07.6"), prog, crate)


def unwinding_task_path(ctx, rule, prog, crate):
    """A task call that panics unwinds to the catch_unwind of its thread (worker loop / broadcast_task): nothing between the
    two has a non-unwinding ABI. A `extern "C"` trampoline (function pointer field, local or function of the pool module)
    turns the panic into a process abort - the caller is never woken and no later broadcast runs."""
    n = 0
    bad = []
    for name in ("TaskShared", "Task", "ThreadPool"):
        adt = prog.adt(POOL + name, crate)
        if not adt:
            continue
        for v in adt["variants"]:
            for f in v["fields"]:
                n += 1
                if 'extern "' in f["ty"] and 'extern "Rust"' not in f["ty"] and "-unwind" not in f["ty"]:
                    bad.append(("%s.%s" % (name, f["name"]), f["ty"]))
    for b in prog.lib_bodies(crate):
        if not b.path.startswith(POOL) or "::tests::" in b.path or "::benches::" in b.path:
            continue
        ctx.saw(b)
        tys = {x["ty"] for x in (b.locals.values() if isinstance(b.locals, dict) else b.locals) if isinstance(x, dict) and x.get("ty")}
        for t in tys:
            n += 1
            if t and 'extern "' in t and 'extern "Rust"' not in t and "-unwind" not in t:
                bad.append((b.path, t))
    ctx.anchor(rule, "field and local types on the pool's task path", n, 20)
    for where_, t in sorted(set(bad)):
        ctx.fail(rule, ["non-unwinding-abi", where_.rsplit("::", 1)[-1]], "`%s` has type `%s`: a panic of the task cannot unwind through it "
                 "to the thread's catch_unwind and aborts the process" % (where_, t), None)
    if not bad:
        ctx.ok(rule, "task-path-unwinds")


def r07_7(ctx, prog, crate):
    unwinding_task_path(ctx, "R07.7", prog, crate)


def run(ctx, prog, crate):
    r07_7(ctx, prog, crate)
    r07_6(ctx, prog, crate)
    r07_5(ctx, prog, crate)
    r07_1(ctx, prog, crate)
    r07_2(ctx, prog, crate)
    r07_3(ctx, prog, crate)
    r07_4(ctx, prog, crate)
