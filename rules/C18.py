"""C18  Printed durations, sizes and throughputs are truthful truncations."""
from lib.facts import norm, direct_place, const_int, origins, place_fields
from lib import tables
from .C15 import const_str

EXPLANATION = (
    "Narrow: constant-table agreement only. R18.1 TimeScale::from_picos is a chain of `<` tests against the constants "
    "1e3, 1e6, 1e9, 1e12, 60e12, 3600e12, 86400e12 in ascending order, each returning the unit whose picos() value is the "
    "previous threshold (so the unit chosen is the largest one not exceeding the value); picos() = {1, 1e3, ..., "
    "86400e12}; suffix() = {ps, ns, us, ms, s, m, h, d}; the sub-nanosecond -> ns override is present. scale_starts = "
    "1000^k / 1024^k for k = 0..5 (constant expressions folded from literals), scale_value's comparison chain tests "
    "starts[1..5] in order with `<` and divides by starts[scale]; every suffix table has the prefixes {none, K, M, G, T, "
    "P} (Ki.. for binary) in that order followed by one unit. R18.2 DisplayThroughput: count == 0 selects the constant 0 "
    "on the branch that avoids the division; counter kind <-> ScaleFormat pairing by name; each ScaleFormat arm of "
    "Scale::suffix uses the table of its own unit. The truncation rule itself, float rounding, exponent notation and "
    "panic-freedom over all u128 are value computations and are NOT claimed.")
NOT_DECIDED = ["the truncation rule (format_f64's string surgery)", "rounding of the float path, absence of exponent notation",
               "panic-freedom of formatting over all u128 / f64 values"]

UNITS = ["PicoSec", "NanoSec", "MicroSec", "MilliSec", "Sec", "Min", "Hour", "Day"]
PICOS = [1, 10 ** 3, 10 ** 6, 10 ** 9, 10 ** 12, 60 * 10 ** 12, 3600 * 10 ** 12, 86400 * 10 ** 12]
SUFFIX = ["ps", "ns", "µs", "ms", "s", "m", "h", "d"]


def per_variant_consts(b, names, kind):
    sws = tables.discr_switches(b, 1)
    if len(sws) != 1:
        return None
    bi, t, _ = sws[0]
    arms, otherwise = tables.arm_targets(t)
    out = {}
    for i, nm in enumerate(names):
        tgt = arms.get(i, otherwise)
        vals = set()
        for y in tables.exclusive_blocks(b, tgt, [z for z in list(arms.values()) + [otherwise] if z != tgt]):
            for s in b.blocks[y]["stmts"]:
                if s["k"] == "assign" and s["p"]["l"] == 0 and s["rv"]["k"] == "use":
                    o = s["rv"]["o"]
                    v = const_str(o) if kind == "str" else const_int(o)
                    vals.add(v)
        out[nm] = list(vals)[0] if len(vals) == 1 else None
    return out


def indexed_read(b, op):
    """operand is (a copy of) `base[idx]`: returns (index local, constant index or None) else None."""
    cur = op
    for _ in range(6):
        if cur["k"] not in ("copy", "move"):
            return None
        pl = cur["p"]
        ix = [pr for pr in pl["proj"] if pr["k"] == "index"]
        ci = [pr for pr in pl["proj"] if pr["k"] == "cindex"]
        if ci:
            return (None, ci[0]["o"])
        if ix:
            k = None
            for dd in b.prov.defs.get(ix[0]["l"], []):
                if dd[0] == "S" and dd[3]["rv"]["k"] == "use":
                    k = const_int(dd[3]["rv"]["o"])
            return (ix[0]["l"], k)
        if pl["proj"]:
            return None
        defs = b.prov.defs.get(pl["l"], [])
        if len(defs) != 1 or defs[0][0] != "S" or defs[0][3]["rv"]["k"] != "use":
            return None
        cur = defs[0][3]["rv"]["o"]
    return None


def r18_1(ctx, prog, crate):
    names = tables.variant_names(prog, "time::fine_duration::TimeScale", crate)
    if not ctx.check(names == UNITS, "R18.1", ["TimeScale", "variants"], "TimeScale variants: %s" % names, None):
        return
    pb = prog.body("time::fine_duration::TimeScale::picos", crate)
    sb = prog.body("time::fine_duration::TimeScale::suffix", crate)
    fb = prog.body("time::fine_duration::TimeScale::from_picos", crate)
    if not ctx.anchor("R18.1", "TimeScale::{picos, suffix, from_picos}", sum(1 for x in (pb, sb, fb) if x), 3):
        return
    for x in (pb, sb, fb):
        ctx.saw(x)
    pt = per_variant_consts(pb, names, "int")
    ctx.check(pt == dict(zip(UNITS, PICOS)), "R18.1", ["TimeScale::picos", "table"], "TimeScale::picos() = %s" % pt, pb.where(0), detail=pt)
    st = per_variant_consts(sb, names, "str")
    ctx.check(st == dict(zip(UNITS, SUFFIX)), "R18.1", ["TimeScale::suffix", "table"], "TimeScale::suffix() = %s" % st, sb.where(0), detail=st)
    # from_picos: walk the comparison chain from entry
    chain = []
    cur = 0
    seen = set()
    last_zero = None
    while cur is not None and cur not in seen:
        seen.add(cur)
        t = fb.term(cur)
        if t["k"] == "switch":
            d = direct_place(fb, t["discr"])
            if d and d[0] == "rvalue" and d[1]["k"] == "binop":
                op = d[1]["op"]
                lhs = {z.label() for z in fb.prov.op_src(d[1]["a"])}
                k = const_int(d[1]["b"])
                zero = [a[1] for a in t["arms"] if a[0] == "0"][0]
                tv = {s["rv"]["variant"] for y in tables.exclusive_blocks(fb, t["otherwise"], [zero]) for s in fb.blocks[y]["stmts"]
                      if s["k"] == "assign" and s["p"]["l"] == 0 and s["rv"]["k"] == "agg"}
                chain.append((op, sorted(lhs), k, sorted(tv)))
                cur = zero
                last_zero = (zero, t["otherwise"])
                continue
            break
        elif t["k"] == "goto":
            cur = t["t"]
        else:
            break
    last = {s["rv"]["variant"] for y in tables.exclusive_blocks(fb, last_zero[0], [last_zero[1]]) for s in fb.blocks[y]["stmts"]
            if s["k"] == "assign" and s["p"]["l"] == 0 and s["rv"]["k"] == "agg"} if last_zero is not None else set()
    want = [("Lt", ["param:" + fb.param_name(1)], PICOS[i + 1], [UNITS[i]]) for i in range(7)]
    ctx.check(chain == want, "R18.1", ["TimeScale::from_picos", "threshold-chain"],
              "from_picos tests %s; expected picos < next unit's size => this unit, in ascending order" % chain, fb.where(0), detail=[list(c) for c in chain])
    ctx.check(last == {"Day"}, "R18.1", ["TimeScale::from_picos", "fallthrough-is-Day"], "values >= one day select %s" % sorted(last), fb.where(0))
    # sub-nanosecond override in Display
    db = prog.body("<time::fine_duration::FineDuration as std::fmt::Display>::fmt", crate)
    if ctx.anchor("R18.1", "Display for FineDuration", 1 if db else 0, 1):
        ctx.saw(db)
        vs = [s["rv"]["variant"] for bi, si, s in db.stmts() if s["k"] == "assign" and s["rv"]["k"] == "agg" and s["rv"].get("adt", "").endswith("TimeScale")]
        ctx.check("NanoSec" in vs and "PicoSec" in vs or "NanoSec" in vs, "R18.1", ["Display", "ps-shown-as-ns"], "no PicoSec -> NanoSec override in Display (%s)" % vs, db.where(0))
        cs = {c.callee for c in db.live_calls()}
        ctx.check({"time::fine_duration::TimeScale::from_picos", "time::fine_duration::TimeScale::picos", "time::fine_duration::TimeScale::suffix"} <= cs, "R18.1",
                  ["Display", "uses-the-tables"], "Display does not use from_picos/picos/suffix (%s)" % sorted(x for x in cs if "TimeScale" in x), db.where(0))
        # divides by the selected scale's picos(), and the same scale supplies the suffix
        pc = [c for c in db.live_calls() if c.callee == "time::fine_duration::TimeScale::picos"]
        sc = [c for c in db.live_calls() if c.callee == "time::fine_duration::TimeScale::suffix"]
        if pc and sc:
            a = {db.prov.op_src(pc[0].args[0]) and frozenset(z.label() for z in db.prov.op_src(pc[0].args[0]))}
            c2 = {frozenset(z.label() for z in db.prov.op_src(sc[0].args[0]))}
            ctx.check(a == c2, "R18.1", ["Display", "number-and-unit-use-the-same-scale"], "picos() and suffix() are asked of different scales", pc[0].line())
    # scale_starts
    stc = [b for (ck, pth, pr), b in prog.bodies.items() if ck == crate and pth.startswith("util::fmt::scale_starts::STARTS") and pr == 0]
    if ctx.check(len(stc) == 1, "R18.1", ["scale_starts", "STARTS-constant"], "STARTS promoted bodies: %d" % len(stc), None):
        rows = _float_rows(stc[0])
        want = [[1000.0 ** k for k in range(6)], [1024.0 ** k for k in range(6)]]
        ctx.check(rows == want, "R18.1", ["scale_starts", "1000^k-and-1024^k"], "STARTS = %s" % rows, stc[0].where(0), detail=rows)
    ss = prog.body("util::fmt::scale_starts", crate)
    if ctx.anchor("R18.1", "util::fmt::scale_starts", 1 if ss else 0, 1):
        ok = False
        for bi, si, s in ss.stmts():
            if s["k"] == "assign" and s["rv"]["k"] == "ref":
                ix = [pr for pr in s["rv"]["p"]["proj"] if pr["k"] == "index"]
                if ix:
                    srcs = ss.prov.local_src(ix[0]["l"])
                    ok = any(z.kind == "discr" for z in srcs) and {z.label() for z in srcs if z.kind == "param"} == {"param:" + ss.param_name(1)}
        ctx.check(ok, "R18.1", ["scale_starts", "row-by-bytes_format"], "scale_starts does not select the row by `bytes_format as usize`", ss.where(0))
    bf = tables.variant_names(prog, "counter::BytesFormat", crate)
    ctx.check(bf == ["Decimal", "Binary"], "R18.1", ["BytesFormat", "Decimal=0-Binary=1"], "BytesFormat variants: %s (row 0 is the 1000^k table)" % bf, None)
    # scale_value chain
    sv = prog.body("util::fmt::scale_value", crate)
    sn = tables.variant_names(prog, "util::fmt::Scale", crate)
    if ctx.anchor("R18.1", "util::fmt::scale_value", (1 if sv else 0) + (1 if sn else 0), 2):
        ctx.saw(sv)
        ctx.check(sn == ["One", "Kilo", "Mega", "Giga", "Tera", "Peta"], "R18.1", ["Scale", "variants"], "Scale variants: %s" % sn, None)
        tests = []
        for bi, t in sv.switches():
            d = direct_place(sv, t["discr"])
            if d and d[0] == "rvalue" and d[1]["k"] == "binop" and d[1]["op"] in ("Lt", "Le", "Gt", "Ge"):
                rhs = d[1]["b"]
                ir = indexed_read(sv, rhs)
                idx = ir[1] if ir else None
                if ir is None or not any(z.kind == "call" and z.a == "util::fmt::scale_starts" for z in sv.prov.op_src(rhs)):
                    continue
                zero = [a[1] for a in t["arms"] if a[0] == "0"][0]
                tv = {s["rv"]["variant"] for y in tables.exclusive_blocks(sv, t["otherwise"], [zero]) for s in sv.blocks[y]["stmts"]
                      if s["k"] == "assign" and s["rv"]["k"] == "agg" and s["rv"].get("adt", "").endswith("fmt::Scale")}
                lhs = {z.label() for z in sv.prov.op_src(d[1]["a"]) if z.kind == "param"}
                tests.append((bi, d[1]["op"], idx, sorted(tv), sorted(lhs)))
        tests.sort(key=lambda x: (x[2] if x[2] is not None else 99))
        got = [(op, idx, tv) for bi, op, idx, tv, lhs in tests]
        want = [("Lt", k, [sn[k - 1]]) for k in range(1, 6)] if sn else []
        ctx.check(got == want and all(l == ["param:" + sv.param_name(1)] for *_x, l in tests), "R18.1", ["scale_value", "threshold-chain"],
                  "scale_value tests %s; expected value < starts[k] => scale k-1 for k = 1..5" % got, sv.where(0), detail=[list(g) for g in got])
        divs = [s for bi, si, s in sv.stmts() if s["k"] == "assign" and s["rv"]["k"] == "binop" and s["rv"]["op"] == "Div"]
        ok = len(divs) == 1
        if ok:
            ir = indexed_read(sv, divs[0]["rv"]["b"])
            ok = ir is not None and ir[0] is not None and any(z.kind == "discr" for z in sv.prov.local_src(ir[0])) and \
                any(z.kind == "variant" and z.a.startswith("util::fmt::Scale::") for z in sv.prov.local_src(ir[0])) and \
                any(z.kind == "call" and z.a == "util::fmt::scale_starts" for z in sv.prov.op_src(divs[0]["rv"]["b"])) and \
                {z.label() for z in sv.prov.op_src(divs[0]["rv"]["a"])} == {"param:" + sv.param_name(1)}
        ctx.check(ok, "R18.1", ["scale_value", "divides-by-starts[scale]"], "the scaled value is not value / starts[scale as usize]", sv.where(0))
    # suffix tables
    sfx = sorted([b for (ck, pth, pr), b in prog.bodies.items() if ck == crate and pth.startswith("util::fmt::Scale::suffix::SUFFIXES") and pr == 0], key=lambda x: x.span["line"])
    if ctx.check(len(sfx) == 5, "R18.1", ["Scale::suffix", "five-tables"], "SUFFIXES tables: %d" % len(sfx), None):
        units = []
        for tb in sfx:
            rows = _str_rows(tb)
            okr = True
            unit = None
            for r_i, row in enumerate(rows):
                dec = ["", "K", "M", "G", "T", "P"]
                bin_ = ["", "Ki", "Mi", "Gi", "Ti", "Pi"]
                pre = bin_ if (len(rows) == 2 and r_i == 1) else dec
                if len(row) != 6 or not all(isinstance(x, str) and x.startswith(pre[i]) for i, x in enumerate(row)):
                    okr = False
                    continue
                us = {x[len(pre[i]):] for i, x in enumerate(row)}
                if len(us) != 1:
                    okr = False
                unit = list(us)[0] if len(us) == 1 else unit
            units.append(unit)
            ctx.check(okr and unit is not None, "R18.1", ["Scale::suffix", "table@%d" % sfx.index(tb), "prefix-order"],
                      "suffix table %s is not {'', K, M, G, T, P} (Ki.. for the binary row) + one unit" % rows, tb.where(0), detail=rows)
        ctx.check(units == ["B", "B/s", "char/s", "Hz", "item/s"], "R18.1", ["Scale::suffix", "units"], "units of the suffix tables in declaration order: %s" % units, None, detail=units)
    return


def _float_rows(b):
    """Rows of an array-of-arrays constant of f64, folding `pow(1024, k) as f64`."""
    vals = {}
    rows = {}
    top = None
    for bl in b.blocks:
        t = bl["term"]
        if t["k"] == "call" and (t["callee"] or "").endswith("::pow"):
            a, k = const_int(t["args"][0]), const_int(t["args"][1])
            if a is not None and k is not None:
                vals[t["dest"]["l"]] = float(a ** k)
    for bi, si, s in b.stmts(live_only=False):
        if s["k"] != "assign" or s["p"]["proj"]:
            continue
        rv = s["rv"]
        if rv["k"] == "cast" and rv["o"]["k"] in ("copy", "move") and rv["o"]["p"]["l"] in vals:
            vals[s["p"]["l"]] = float(vals[rv["o"]["p"]["l"]])
        elif rv["k"] == "agg" and rv["ak"] == "array":
            elems = []
            for o in rv["ops"]:
                if o["k"] == "const":
                    try:
                        elems.append(float(o["c"]["d"].replace("f64", "").replace("E+", "e")))
                    except ValueError:
                        elems.append(None)
                elif o["p"]["l"] in vals:
                    elems.append(vals[o["p"]["l"]])
                elif o["p"]["l"] in rows:
                    elems.append(rows[o["p"]["l"]])
                else:
                    elems.append(None)
            rows[s["p"]["l"]] = elems
            top = s["p"]["l"]
    return rows.get(top)


def _str_rows(b):
    rows = {}
    top = None
    for bi, si, s in b.stmts(live_only=False):
        if s["k"] == "assign" and s["rv"]["k"] == "agg" and s["rv"]["ak"] == "array" and not s["p"]["proj"]:
            elems = []
            for o in s["rv"]["ops"]:
                v = const_str(o)
                if v is not None:
                    elems.append(v)
                elif o["k"] in ("copy", "move") and o["p"]["l"] in rows:
                    elems.append(rows[o["p"]["l"]])
                else:
                    elems.append(None)
            rows[s["p"]["l"]] = elems
            top = s["p"]["l"]
    r = rows.get(top)
    if r is None:
        return []
    return r if r and isinstance(r[0], list) else [r]


def r18_2(ctx, prog, crate):
    b = prog.body("<util::fmt::DisplayThroughput<'_> as std::fmt::Display>::fmt", crate) or prog.body("<util::fmt::DisplayThroughput as std::fmt::Display>::fmt", crate)
    if not ctx.anchor("R18.2", "Display for DisplayThroughput", 1 if b else 0, 1):
        return
    ctx.saw(b)
    # count == 0 => 0, else division
    sw = None
    for bi, t in b.switches():
        d = direct_place(b, t["discr"])
        if d and d[0] == "rvalue" and d[1]["k"] == "binop" and d[1]["op"] == "Eq" and const_int(d[1]["b"]) == 0 and \
                any(z.kind == "call" and z.a.endswith("AnyCounter::count") for z in b.prov.op_src(d[1]["a"])):
            sw = (bi, t)
    if ctx.check(sw is not None, "R18.2", ["DisplayThroughput", "zero-count-test"], "no `count == 0` test", b.where(0)):
        bi, t = sw
        zero = [a[1] for a in t["arms"] if a[0] == "0"][0]
        divs = [bi2 for bi2, si2, s in b.stmts() if s["k"] == "assign" and s["rv"]["k"] == "binop" and s["rv"]["op"] == "Div" and s["p"]["ty"] == "f64"
                and any(z.kind == "param" and z.b[-1:] == ("picos",) for z in b.prov.op_src(s["rv"]["b"]))]
        ok = len(divs) == 1 and divs[0] in tables.exclusive_blocks(b, zero, [t["otherwise"]]) and divs[0] not in b.reach([t["otherwise"]], avoid=[zero])
        ctx.check(ok, "R18.2", ["DisplayThroughput", "zero-count-avoids-division"], "the division by the duration is not confined to count != 0 (0/0 would print NaN)", b.where(bi))
        zs = [s for y in tables.exclusive_blocks(b, t["otherwise"], [zero]) for s in b.blocks[y]["stmts"] if s["k"] == "assign" and s["rv"]["k"] == "use" and s["rv"]["o"]["k"] == "const"
              and s["rv"]["o"]["c"]["ty"] == "f64"]
        ctx.check(len(zs) == 1 and zs[0]["rv"]["o"]["c"]["d"] in ("0f64", "0.0f64", "0E+0f64"), "R18.2", ["DisplayThroughput", "zero-count-prints-zero"],
                  "a zero count yields %s" % [z["rv"]["o"]["c"]["d"] for z in zs], b.where(t["otherwise"]))
    # kind <-> ScaleFormat pairing
    kn = tables.variant_names(prog, "counter::any_counter::KnownCounterKind", crate)
    pair = {}
    for bi, t, base in tables.discr_switches(b):
        defs = [d for d in b.prov.defs.get(t["discr"]["p"]["l"], []) if d[0] == "S" and d[3]["rv"]["k"] == "discr"]
        if not defs or "KnownCounterKind" not in defs[0][3]["rv"]["p"]["ty"]:
            continue
        arms, otherwise = tables.arm_targets(t)
        for i, nm in enumerate(kn):
            tgt = arms.get(i, otherwise)
            vs = {s["rv"]["variant"] for y in tables.exclusive_blocks(b, tgt, [z for z in list(arms.values()) + [otherwise] if z != tgt]) for s in b.blocks[y]["stmts"]
                  if s["k"] == "assign" and s["rv"]["k"] == "agg" and s["rv"].get("adt", "").endswith("ScaleFormat")}
            pair[nm] = sorted(vs)
    want = {k: [k + "Throughput"] for k in (kn or [])}
    ctx.check(pair == want and bool(pair), "R18.2", ["DisplayThroughput", "kind-to-format"], "counter kind -> format: %s" % pair, b.where(0), detail=pair)
    # Scale::suffix: each ScaleFormat arm indexes the table of its own unit
    sb = prog.body("util::fmt::Scale::suffix", crate)
    fn = tables.variant_names(prog, "util::fmt::ScaleFormat", crate)
    if ctx.anchor("R18.2", "Scale::suffix", (1 if sb else 0) + (1 if fn else 0), 2):
        ctx.saw(sb)
        sws = [x for x in tables.discr_switches(sb) if "ScaleFormat" in sb.local_ty(x[2])]
        if ctx.check(len(sws) == 1, "R18.2", ["Scale::suffix", "match-on-format"], "matches on the format: %d" % len(sws), sb.where(0)):
            bi, t, _ = sws[0]
            arms, otherwise = tables.arm_targets(t)
            got = {}
            for i, nm in enumerate(fn):
                tgt = arms.get(i, otherwise)
                units = set()
                for y in tables.exclusive_blocks(sb, tgt, [z for z in list(arms.values()) + [otherwise] if z != tgt]):
                    for s in sb.blocks[y]["stmts"]:
                        if s["k"] == "assign" and s["rv"]["k"] == "use" and s["rv"]["o"]["k"] == "const" and s["rv"]["o"]["c"].get("udid", -1) >= 0:
                            cb = prog.const_body(sb.crate, s["rv"]["o"])
                            pb = prog.by_did.get((sb.crate, s["rv"]["o"]["c"]["udid"], 0))
                            if pb is not None:
                                rows = _str_rows(pb)
                                if rows and rows[0] and isinstance(rows[0][0], str):
                                    units.add(rows[0][0])
                got[nm] = sorted(units)
            want = {"Bytes": ["B"], "BytesThroughput": ["B/s"], "CharsThroughput": ["char/s"], "CyclesThroughput": ["Hz"], "ItemsThroughput": ["item/s"]}
            ctx.check(got == want, "R18.2", ["Scale::suffix", "format-to-unit"], "format -> unit: %s" % got, sb.where(0), detail=got)
            # indexed by `self as usize`
            n_idx = 0
            for bi2, si2, s in sb.stmts():
                if s["k"] == "assign" and s["rv"]["k"] in ("use", "ref"):
                    pl = s["rv"].get("p") or s["rv"]["o"].get("p")
                    if pl:
                        for pr in pl["proj"]:
                            if pr["k"] == "index":
                                srcs = sb.prov.local_src(pr["l"])
                                if any(z.kind == "discr" for z in srcs) and any(z.kind == "param" and z.a == sb.param_name(1) for z in srcs):
                                    n_idx += 1
            ctx.check(n_idx >= 5, "R18.2", ["Scale::suffix", "indexed-by-scale"], "table reads indexed by `self as usize`: %d" % n_idx, sb.where(0))
    fb = prog.body("util::fmt::ScaleFormat::bytes_format", crate)
    if ctx.anchor("R18.2", "ScaleFormat::bytes_format", 1 if fb else 0, 1):
        vs = {s["rv"]["variant"] for bi, si, s in fb.stmts() if s["k"] == "assign" and s["rv"]["k"] == "agg" and s["rv"].get("adt", "").endswith("BytesFormat")}
        ctx.check(vs == {"Decimal"}, "R18.2", ["ScaleFormat::bytes_format", "non-byte-units-are-decimal"], "non-byte units scale with %s" % sorted(vs), fb.where(0))


def run(ctx, prog, crate):
    r18_1(ctx, prog, crate)
    r18_2(ctx, prog, crate)
