"""C18  Printed durations, sizes and throughputs are truthful truncations."""
from lib.facts import norm, direct_place, const_int, origins, place_fields, nophi
from lib import tables
from .C15 import const_str

INLINE = True      # crate-local helpers the rules do not know by name are inlined into their callers (lib/inline.py)
EXPLANATION = (
    "Narrow: constant-table agreement only. R18.1 TimeScale::from_picos is a chain of `<` tests against the constants "
    "1e3, 1e6, 1e9, 1e12, 60e12, 3600e12, 86400e12 in ascending order, each returning the unit whose picos() value is the "
    "previous threshold (so the unit chosen is the largest one not exceeding the value); picos() = {1, 1e3, ..., "
    "86400e12}; suffix() = {ps, ns, us, ms, s, m, h, d}; the sub-nanosecond -> ns override is present. scale_starts = "
    "1000^k / 1024^k for k = 0..5 (constant expressions folded from literals), scale_value's comparison chain tests "
    "starts[1..5] in order with `<` and divides by starts[scale]; every suffix table has the prefixes {none, K, M, G, T, "
    "P} (Ki.. for binary) in that order followed by one unit. R18.2 DisplayThroughput: count == 0 selects the constant 0 "
    "on the branch that avoids the division; counter kind <-> ScaleFormat pairing by name; each ScaleFormat arm of "
    "Scale::suffix uses the table of its own unit. R18.3 (value-expression rule over lib/symexpr.py normal forms, robust "
    "to renaming, temporaries and re-association) format_f64: the returned string originates in val.to_string() "
    "(Display without precision - exact, never rounds), is assigned once and mutated only by String::truncate, so the "
    "result is a prefix of the exact rendering; the cut positions are truncate(dot) when saturating_sub(sig_figs, dot) "
    "== 0 or when every byte of str[dot+1 .. dot+1+that] is '0', and truncate(window_end - index of the first non-'0' "
    "byte from the end) otherwise. R18.4 FineDuration::fmt: format_f64 receives ((picos*10^p)/unit) as f64 / 10^p as "
    "f64 with p the same precision that format_f64 cuts at (integer division truncates before the float conversion), "
    "the unit that scales is the unit whose suffix is printed and comes from from_picos(self.picos) (+ sub-ns "
    "override); the integer path prints picos / DAY and is taken exactly when picos >= DAY.checked_mul(multiple). "
    "Double-precision rounding of the quotient, exponent notation and panic-freedom over all u128 are value "
    "computations and are NOT claimed.")
EXPLANATION += (' R18.5 (= R15.13) --bytes-format has no clap default: sizes keep the base configured through Divan::bytes_format.')
EXPLANATION += (" R18.6 format_bytes prints format_f64(scale_value(val, fmt).0, sig_figs) with the caller's sig_figs on every path, suffix of the same scale.")
NOT_DECIDED = ["double-precision rounding of the float path (the property itself allows it for sizes/throughputs), absence of exponent notation",
               "panic-freedom of formatting over all u128 / f64 values (picos * multiple can overflow for precisions far above the 4 divan uses)"]

UNITS = ["PicoSec", "NanoSec", "MicroSec", "MilliSec", "Sec", "Min", "Hour", "Day"]
PICOS = [1, 10 ** 3, 10 ** 6, 10 ** 9, 10 ** 12, 60 * 10 ** 12, 3600 * 10 ** 12, 86400 * 10 ** 12]
SUFFIX = ["ps", "ns", "µs", "ms", "s", "m", "h", "d"]


def per_variant_consts(b, names, kind):
    sws = tables.discr_switches(b, 1)
    if len(sws) != 1:
        return None
    bi, t, _ = sws[0]
    arms, otherwise = tables.arm_targets(t)
    out = {}
    for i, nm in enumerate(names):
        tgt = arms.get(i, otherwise)
        vals = set()
        for y in tables.exclusive_blocks(b, tgt, [z for z in list(arms.values()) + [otherwise] if z != tgt]):
            for s in b.blocks[y]["stmts"]:
                if s["k"] == "assign" and s["p"]["l"] == 0 and s["rv"]["k"] == "use":
                    o = s["rv"]["o"]
                    v = const_str(o) if kind == "str" else const_int(o)
                    vals.add(v)
        out[nm] = list(vals)[0] if len(vals) == 1 else None
    return out


def indexed_read(b, op):
    """operand is (a copy of) `base[idx]`: returns (index local, constant index or None) else None."""
    cur = op
    for _ in range(6):
        if cur["k"] not in ("copy", "move"):
            return None
        pl = cur["p"]
        ix = [pr for pr in pl["proj"] if pr["k"] == "index"]
        ci = [pr for pr in pl["proj"] if pr["k"] == "cindex"]
        if ci:
            return (None, ci[0]["o"])
        if ix:
            k = None
            for dd in b.prov.defs.get(ix[0]["l"], []):
                if dd[0] == "S" and dd[3]["rv"]["k"] == "use":
                    k = const_int(dd[3]["rv"]["o"])
            return (ix[0]["l"], k)
        if pl["proj"]:
            return None
        defs = b.prov.defs.get(pl["l"], [])
        if len(defs) != 1 or defs[0][0] != "S" or defs[0][3]["rv"]["k"] != "use":
            return None
        cur = defs[0][3]["rv"]["o"]
    return None


def _from_picos_table_search(ctx, prog, crate, fb, names):
    """from_picos as a search of the unit table: `ALL.iter().rev().copied().find(|u| u.picos() <= picos).unwrap_or(PicoSec)`
    with ALL listing every unit in ascending order (the sizes themselves are R18.1's picos() table): the first hit walking
    down from the largest unit is the largest unit not exceeding the value - the unit the threshold chain selects - and a
    value below the smallest size (0) falls back to PicoSec, as the chain's first test does."""
    from lib.patheval import PathEval
    from lib.symexpr import canon_cmp
    allc = prog.bodies.get((crate, "time::fine_duration::TimeScale::ALL", -1))
    if allc is None:
        return False
    arr = None
    # the array literal itself lives in the constant's body or (for a `&[T]` constant) in its promoted constant
    for (ck_, pth_, pr_), cb_ in prog.bodies.items():
        if ck_ != crate or pth_ != "time::fine_duration::TimeScale::ALL":
            continue
        agg = {}
        for bi, si, s_ in cb_.stmts(live_only=False):
            if s_["k"] != "assign":
                continue
            rv = s_["rv"]
            if rv["k"] == "agg" and rv["ak"] == "adt" and not s_["p"]["proj"]:
                agg[s_["p"]["l"]] = rv["variant"]
            if rv["k"] == "agg" and rv["ak"] == "array":
                arr = [agg.get(o["p"]["l"]) if o.get("k") in ("copy", "move") else None for o in rv["ops"]]
    ok_all = arr == list(names)
    ctx.check(ok_all, "R18.1", ["TimeScale::ALL", "every-unit-ascending"], "TimeScale::ALL = %s, expected every unit in ascending order %s" % (arr, list(names)), allc.where(0))
    calls = [c.callee.rsplit("::", 1)[-1] for c in fb.live_calls()]
    order_ok = [x for x in calls if x in ("iter", "rev", "copied", "cloned", "find", "unwrap_or")] in (["iter", "rev", "copied", "find", "unwrap_or"], ["iter", "rev", "cloned", "find", "unwrap_or"],
                                                                                                          ["iter", "rev", "find", "unwrap_or"]) and \
        not any(x in ("skip", "take", "step_by", "filter", "skip_while", "take_while", "chain", "zip", "rposition", "position", "min", "max", "last", "nth") for x in calls)
    uses_all = any(z.kind == "const" and "TimeScale::ALL" in str(z.a) + str(z.c) for c in fb.live_calls() if c.callee.rsplit("::", 1)[-1] == "iter" for z in fb.prov.op_src(c.args[0]))
    uo = [c for c in fb.live_calls() if c.callee == "std::option::Option::unwrap_or"]
    dflt = {z.a for z in fb.prov.op_src(uo[0].args[1]) if z.kind == "variant"} if len(uo) == 1 else set()
    d0 = fb.prov.defs.get(0, [])
    ret_ok = len(uo) == 1 and len(d0) == 1 and d0[0][0] == "C" and d0[0][1] == uo[0].bb
    fd = [c for c in fb.live_calls() if c.callee.rsplit("::", 1)[-1] == "find" and "Iterator" in c.callee]
    pred_ok = False
    if len(fd) == 1 and fd[0].args[1].get("k") in ("copy", "move"):
        for d in fb.prov.defs.get(fd[0].args[1]["p"]["l"], []):
            if d[0] == "S" and d[3]["rv"]["k"] == "agg" and d[3]["rv"].get("ak") == "closure":
                cl = prog.bodies.get((fb.crate, norm(d[3]["rv"]["def"]), -1))
                cs = PathEval(cl).run() if cl is not None else None
                if cs and len(cs) == 1 and not cs[0].conds:
                    atom, pol = canon_cmp(cs[0].ret, unsigned=False)
                    # unit.picos() <= value  ==  not (value < unit.picos())
                    if atom is not None and atom[0] == "Lt" and pol is False and atom[1][0] == "upvar" and atom[2][0] == "site" and atom[2][1] == "time::fine_duration::TimeScale::picos" and \
                            len(d[3]["rv"]["ops"]) == 1 and {z.label() for z in fb.prov.op_src(d[3]["rv"]["ops"][0])} == {"param:" + fb.param_name(1)}:
                        pred_ok = True
    ctx.check(order_ok and uses_all and pred_ok and ret_ok and dflt == {"time::fine_duration::TimeScale::PicoSec"}, "R18.1", ["TimeScale::from_picos", "table-search"],
              "from_picos is not `ALL.iter().rev().find(|u| u.picos() <= picos).unwrap_or(PicoSec)` (calls %s, default %s)" % (calls, sorted(dflt)), fb.where(0))
    return True


def r18_1(ctx, prog, crate):
    names = tables.variant_names(prog, "time::fine_duration::TimeScale", crate)
    if not ctx.check(names == UNITS, "R18.1", ["TimeScale", "variants"], "TimeScale variants: %s" % names, None):
        return
    pb = prog.body("time::fine_duration::TimeScale::picos", crate)
    sb = prog.body("time::fine_duration::TimeScale::suffix", crate)
    fb = prog.body("time::fine_duration::TimeScale::from_picos", crate)
    if not ctx.anchor("R18.1", "TimeScale::{picos, suffix, from_picos}", sum(1 for x in (pb, sb, fb) if x), 3):
        return
    for x in (pb, sb, fb):
        ctx.saw(x)
    pt = per_variant_consts(pb, names, "int")
    ctx.check(pt == dict(zip(UNITS, PICOS)), "R18.1", ["TimeScale::picos", "table"], "TimeScale::picos() = %s" % pt, pb.where(0), detail=pt)
    st = per_variant_consts(sb, names, "str")
    ctx.check(st == dict(zip(UNITS, SUFFIX)), "R18.1", ["TimeScale::suffix", "table"], "TimeScale::suffix() = %s" % st, sb.where(0), detail=st)
    # from_picos: walk the comparison chain from entry
    chain = []
    cur = 0
    seen = set()
    last_zero = None
    while cur is not None and cur not in seen:
        seen.add(cur)
        t = fb.term(cur)
        if t["k"] == "switch":
            d = direct_place(fb, t["discr"])
            if d and d[0] == "rvalue" and d[1]["k"] == "binop":
                op = d[1]["op"]
                lhs = {z.label() for z in fb.prov.op_src(d[1]["a"])}
                k = const_int(d[1]["b"])
                zero = [a[1] for a in t["arms"] if a[0] == "0"][0]
                tv = {s["rv"]["variant"] for y in tables.exclusive_blocks(fb, t["otherwise"], [zero]) for s in fb.blocks[y]["stmts"]
                      if s["k"] == "assign" and s["p"]["l"] == 0 and s["rv"]["k"] == "agg"}
                chain.append((op, sorted(lhs), k, sorted(tv)))
                cur = zero
                last_zero = (zero, t["otherwise"])
                continue
            break
        elif t["k"] == "goto":
            cur = t["t"]
        else:
            break
    last = {s["rv"]["variant"] for y in tables.exclusive_blocks(fb, last_zero[0], [last_zero[1]]) for s in fb.blocks[y]["stmts"]
            if s["k"] == "assign" and s["p"]["l"] == 0 and s["rv"]["k"] == "agg"} if last_zero is not None else set()
    want = [("Lt", ["param:" + fb.param_name(1)], PICOS[i + 1], [UNITS[i]]) for i in range(7)]
    if not chain and _from_picos_table_search(ctx, prog, crate, fb, names):
        ctx.ok("R18.1", "TimeScale::from_picos|table-search (largest unit of ALL, ascending, whose size does not exceed the value; PicoSec below the smallest)")
    else:
        ctx.check(chain == want, "R18.1", ["TimeScale::from_picos", "threshold-chain"],
                  "from_picos tests %s; expected picos < next unit's size => this unit, in ascending order" % chain, fb.where(0), detail=[list(c) for c in chain])
        ctx.check(last == {"Day"}, "R18.1", ["TimeScale::from_picos", "fallthrough-is-Day"], "values >= one day select %s" % sorted(last), fb.where(0))
    # sub-nanosecond override in Display
    db = prog.body("<time::fine_duration::FineDuration as std::fmt::Display>::fmt", crate)
    if ctx.anchor("R18.1", "Display for FineDuration", 1 if db else 0, 1):
        ctx.saw(db)
        vs = [s["rv"]["variant"] for bi, si, s in db.stmts() if s["k"] == "assign" and s["rv"]["k"] == "agg" and s["rv"].get("adt", "").endswith("TimeScale")]
        ctx.check("NanoSec" in vs and "PicoSec" in vs or "NanoSec" in vs, "R18.1", ["Display", "ps-shown-as-ns"], "no PicoSec -> NanoSec override in Display (%s)" % vs, db.where(0))
        cs = {c.callee for c in db.live_calls()}
        ctx.check({"time::fine_duration::TimeScale::from_picos", "time::fine_duration::TimeScale::picos", "time::fine_duration::TimeScale::suffix"} <= cs, "R18.1",
                  ["Display", "uses-the-tables"], "Display does not use from_picos/picos/suffix (%s)" % sorted(x for x in cs if "TimeScale" in x), db.where(0))
        # divides by the selected scale's picos(), and the same scale supplies the suffix
        pc = [c for c in db.live_calls() if c.callee == "time::fine_duration::TimeScale::picos"]
        sc = [c for c in db.live_calls() if c.callee == "time::fine_duration::TimeScale::suffix"]
        if pc and sc:
            a = {db.prov.op_src(pc[0].args[0]) and frozenset(z.label() for z in db.prov.op_src(pc[0].args[0]))}
            c2 = {frozenset(z.label() for z in db.prov.op_src(sc[0].args[0]))}
            ctx.check(a == c2, "R18.1", ["Display", "number-and-unit-use-the-same-scale"], "picos() and suffix() are asked of different scales", pc[0].line())
    # scale_starts
    stc = [b for (ck, pth, pr), b in prog.bodies.items() if ck == crate and pth.startswith("util::fmt::scale_starts::STARTS") and pr == 0]
    if ctx.check(len(stc) == 1, "R18.1", ["scale_starts", "STARTS-constant"], "STARTS promoted bodies: %d" % len(stc), None):
        rows = _float_rows(stc[0])
        want = [[1000.0 ** k for k in range(6)], [1024.0 ** k for k in range(6)]]
        ctx.check(rows == want, "R18.1", ["scale_starts", "1000^k-and-1024^k"], "STARTS = %s" % rows, stc[0].where(0), detail=rows)
    ss = prog.body("util::fmt::scale_starts", crate)
    if ctx.anchor("R18.1", "util::fmt::scale_starts", 1 if ss else 0, 1):
        ok = False
        for bi, si, s in ss.stmts():
            if s["k"] == "assign" and s["rv"]["k"] == "ref":
                ix = [pr for pr in s["rv"]["p"]["proj"] if pr["k"] == "index"]
                if ix:
                    srcs = ss.prov.local_src(ix[0]["l"])
                    ok = any(z.kind == "discr" for z in srcs) and {z.label() for z in srcs if z.kind == "param"} == {"param:" + ss.param_name(1)}
        ctx.check(ok, "R18.1", ["scale_starts", "row-by-bytes_format"], "scale_starts does not select the row by `bytes_format as usize`", ss.where(0))
    bf = tables.variant_names(prog, "counter::BytesFormat", crate)
    ctx.check(bf == ["Decimal", "Binary"], "R18.1", ["BytesFormat", "Decimal=0-Binary=1"], "BytesFormat variants: %s (row 0 is the 1000^k table)" % bf, None)
    # scale_value chain
    sv = prog.body("util::fmt::scale_value", crate)
    sn = tables.variant_names(prog, "util::fmt::Scale", crate)
    if ctx.anchor("R18.1", "util::fmt::scale_value", (1 if sv else 0) + (1 if sn else 0), 2):
        ctx.saw(sv)
        ctx.check(sn == ["One", "Kilo", "Mega", "Giga", "Tera", "Peta"], "R18.1", ["Scale", "variants"], "Scale variants: %s" % sn, None)
        tests = []
        for bi, t in sv.switches():
            d = direct_place(sv, t["discr"])
            if d and d[0] == "rvalue" and d[1]["k"] == "binop" and d[1]["op"] in ("Lt", "Le", "Gt", "Ge"):
                rhs = d[1]["b"]
                ir = indexed_read(sv, rhs)
                idx = ir[1] if ir else None
                if ir is None or not any(z.kind == "call" and z.a == "util::fmt::scale_starts" for z in sv.prov.op_src(rhs)):
                    continue
                zero = [a[1] for a in t["arms"] if a[0] == "0"][0]
                tv = {s["rv"]["variant"] for y in tables.exclusive_blocks(sv, t["otherwise"], [zero]) for s in sv.blocks[y]["stmts"]
                      if s["k"] == "assign" and s["rv"]["k"] == "agg" and s["rv"].get("adt", "").endswith("fmt::Scale")}
                lhs = {z.label() for z in sv.prov.op_src(d[1]["a"]) if z.kind == "param"}
                tests.append((bi, d[1]["op"], idx, sorted(tv), sorted(lhs)))
        tests.sort(key=lambda x: (x[2] if x[2] is not None else 99))
        got = [(op, idx, tv) for bi, op, idx, tv, lhs in tests]
        want = [("Lt", k, [sn[k - 1]]) for k in range(1, 6)] if sn else []
        ctx.check(got == want and all(l == ["param:" + sv.param_name(1)] for *_x, l in tests), "R18.1", ["scale_value", "threshold-chain"],
                  "scale_value tests %s; expected value < starts[k] => scale k-1 for k = 1..5" % got, sv.where(0), detail=[list(g) for g in got])
        divs = [s for bi, si, s in sv.stmts() if s["k"] == "assign" and s["rv"]["k"] == "binop" and s["rv"]["op"] == "Div"]
        ok = len(divs) == 1
        if ok:
            ir = indexed_read(sv, divs[0]["rv"]["b"])
            ok = ir is not None and ir[0] is not None and any(z.kind == "discr" for z in sv.prov.local_src(ir[0])) and \
                any(z.kind == "variant" and z.a.startswith("util::fmt::Scale::") for z in sv.prov.local_src(ir[0])) and \
                any(z.kind == "call" and z.a == "util::fmt::scale_starts" for z in sv.prov.op_src(divs[0]["rv"]["b"])) and \
                {z.label() for z in sv.prov.op_src(divs[0]["rv"]["a"])} == {"param:" + sv.param_name(1)}
        ctx.check(ok, "R18.1", ["scale_value", "divides-by-starts[scale]"], "the scaled value is not value / starts[scale as usize]", sv.where(0))
    # suffix tables
    sfx = sorted([b for (ck, pth, pr), b in prog.bodies.items() if ck == crate and pth.startswith("util::fmt::Scale::suffix::SUFFIXES") and pr == 0], key=lambda x: x.span["line"])
    if ctx.check(len(sfx) == 5, "R18.1", ["Scale::suffix", "five-tables"], "SUFFIXES tables: %d" % len(sfx), None):
        units = []
        for tb in sfx:
            rows = _str_rows(tb)
            okr = True
            unit = None
            for r_i, row in enumerate(rows):
                dec = ["", "K", "M", "G", "T", "P"]
                bin_ = ["", "Ki", "Mi", "Gi", "Ti", "Pi"]
                pre = bin_ if (len(rows) == 2 and r_i == 1) else dec
                if len(row) != 6 or not all(isinstance(x, str) and x.startswith(pre[i]) for i, x in enumerate(row)):
                    okr = False
                    continue
                us = {x[len(pre[i]):] for i, x in enumerate(row)}
                if len(us) != 1:
                    okr = False
                unit = list(us)[0] if len(us) == 1 else unit
            units.append(unit)
            ctx.check(okr and unit is not None, "R18.1", ["Scale::suffix", "table@%d" % sfx.index(tb), "prefix-order"],
                      "suffix table %s is not {'', K, M, G, T, P} (Ki.. for the binary row) + one unit" % rows, tb.where(0), detail=rows)
        ctx.check(units == ["B", "B/s", "char/s", "Hz", "item/s"], "R18.1", ["Scale::suffix", "units"], "units of the suffix tables in declaration order: %s" % units, None, detail=units)
    return


def _float_rows(b):
    """Rows of an array-of-arrays constant of f64, folding `pow(1024, k) as f64`."""
    vals = {}
    rows = {}
    top = None
    for bl in b.blocks:
        t = bl["term"]
        if t["k"] == "call" and (t["callee"] or "").endswith("::pow"):
            a, k = const_int(t["args"][0]), const_int(t["args"][1])
            if a is not None and k is not None:
                vals[t["dest"]["l"]] = float(a ** k)
    for bi, si, s in b.stmts(live_only=False):
        if s["k"] != "assign" or s["p"]["proj"]:
            continue
        rv = s["rv"]
        if rv["k"] == "cast" and rv["o"]["k"] in ("copy", "move") and rv["o"]["p"]["l"] in vals:
            vals[s["p"]["l"]] = float(vals[rv["o"]["p"]["l"]])
        elif rv["k"] == "agg" and rv["ak"] == "array":
            elems = []
            for o in rv["ops"]:
                if o["k"] == "const":
                    try:
                        elems.append(float(o["c"]["d"].replace("f64", "").replace("E+", "e")))
                    except ValueError:
                        elems.append(None)
                elif o["p"]["l"] in vals:
                    elems.append(vals[o["p"]["l"]])
                elif o["p"]["l"] in rows:
                    elems.append(rows[o["p"]["l"]])
                else:
                    elems.append(None)
            rows[s["p"]["l"]] = elems
            top = s["p"]["l"]
    return rows.get(top)


def _str_rows(b):
    rows = {}
    top = None
    for bi, si, s in b.stmts(live_only=False):
        if s["k"] == "assign" and s["rv"]["k"] == "agg" and s["rv"]["ak"] == "array" and not s["p"]["proj"]:
            elems = []
            for o in s["rv"]["ops"]:
                v = const_str(o)
                if v is not None:
                    elems.append(v)
                elif o["k"] in ("copy", "move") and o["p"]["l"] in rows:
                    elems.append(rows[o["p"]["l"]])
                else:
                    elems.append(None)
            rows[s["p"]["l"]] = elems
            top = s["p"]["l"]
    r = rows.get(top)
    if r is None:
        return []
    return r if r and isinstance(r[0], list) else [r]


def r18_2(ctx, prog, crate):
    b = prog.body("<util::fmt::DisplayThroughput<'_> as std::fmt::Display>::fmt", crate) or prog.body("<util::fmt::DisplayThroughput as std::fmt::Display>::fmt", crate)
    if not ctx.anchor("R18.2", "Display for DisplayThroughput", 1 if b else 0, 1):
        return
    ctx.saw(b)
    # count == 0 => 0, else division
    sw = None
    for bi, t in b.switches():
        d = direct_place(b, t["discr"])
        if d and d[0] == "rvalue" and d[1]["k"] == "binop" and d[1]["op"] == "Eq" and const_int(d[1]["b"]) == 0 and \
                any(z.kind == "call" and z.a.endswith("AnyCounter::count") for z in b.prov.op_src(d[1]["a"])):
            sw = (bi, t)
    if ctx.check(sw is not None, "R18.2", ["DisplayThroughput", "zero-count-test"], "no `count == 0` test", b.where(0)):
        bi, t = sw
        zero = [a[1] for a in t["arms"] if a[0] == "0"][0]
        divs = [bi2 for bi2, si2, s in b.stmts() if s["k"] == "assign" and s["rv"]["k"] == "binop" and s["rv"]["op"] == "Div" and s["p"]["ty"] == "f64"
                and any(z.kind == "param" and z.b[-1:] == ("picos",) for z in b.prov.op_src(s["rv"]["b"]))]
        ok = len(divs) == 1 and divs[0] in tables.exclusive_blocks(b, zero, [t["otherwise"]]) and divs[0] not in b.reach([t["otherwise"]], avoid=[zero])
        ctx.check(ok, "R18.2", ["DisplayThroughput", "zero-count-avoids-division"], "the division by the duration is not confined to count != 0 (0/0 would print NaN)", b.where(bi))
        zs = [s for y in tables.exclusive_blocks(b, t["otherwise"], [zero]) for s in b.blocks[y]["stmts"] if s["k"] == "assign" and s["rv"]["k"] == "use" and s["rv"]["o"]["k"] == "const"
              and s["rv"]["o"]["c"]["ty"] == "f64"]
        ctx.check(len(zs) == 1 and zs[0]["rv"]["o"]["c"]["d"] in ("0f64", "0.0f64", "0E+0f64"), "R18.2", ["DisplayThroughput", "zero-count-prints-zero"],
                  "a zero count yields %s" % [z["rv"]["o"]["c"]["d"] for z in zs], b.where(t["otherwise"]))
    # the prefix base that scales the VALUE is the base of the table that supplies the SUFFIX: scale_value gets
    # format.bytes_format() of the very ScaleFormat handed to Scale::suffix (binary only for byte units), never the global setting
    sv_ = [c for c in b.live_calls() if c.callee == "util::fmt::scale_value"]
    sf_ = [c for c in b.live_calls() if c.callee == "util::fmt::Scale::suffix"]
    if ctx.check(len(sv_) == 1 and len(sf_) == 1, "R18.2", ["DisplayThroughput", "one-scale-one-suffix"], "scale_value x%d Scale::suffix x%d" % (len(sv_), len(sf_)), b.where(0)):
        og = origins(b, sv_[0].args[1])
        via = [o[1] for o in og if o[0] == "call" and o[1].callee == "util::fmt::ScaleFormat::bytes_format"]
        ok = len(og) == 1 and len(via) == 1
        if ok:
            from lib.symexpr import Sym
            S_ = Sym(b)
            ok = S_.op(via[0].args[0]) == S_.op(sf_[0].args[1])
        ctx.check(ok, "R18.2", ["DisplayThroughput", "value-scaled-with-the-suffix-tables-base"],
                  "scale_value's prefix base comes from %s, expected <format>.bytes_format() of the format given to Scale::suffix (a decimal-labelled unit must not be scaled by 1024^k)"
                  % [o[1].callee if o[0] == "call" else (o[0], o[2] if len(o) > 2 else "") for o in og], sv_[0].line())
        # and the scale whose suffix is printed is the scale scale_value chose
        from lib.symexpr import Sym as _Sym
        e_ = _Sym(b).op(sf_[0].args[0])
        ctx.check(e_[0] == "field" and e_[2] == (1,) and e_[1][0] == "site" and e_[1][2] == sv_[0].bb, "R18.2", ["DisplayThroughput", "suffix-of-the-chosen-scale"],
                  "Scale::suffix is not applied to the scale that scale_value returned", sf_[0].line())
    # kind <-> ScaleFormat pairing
    kn = tables.variant_names(prog, "counter::any_counter::KnownCounterKind", crate)
    pair = {}
    for bi, t, base in tables.discr_switches(b):
        defs = [d for d in b.prov.defs.get(t["discr"]["p"]["l"], []) if d[0] == "S" and d[3]["rv"]["k"] == "discr"]
        if not defs or "KnownCounterKind" not in defs[0][3]["rv"]["p"]["ty"]:
            continue
        arms, otherwise = tables.arm_targets(t)
        for i, nm in enumerate(kn):
            tgt = arms.get(i, otherwise)
            vs = {s["rv"]["variant"] for y in tables.exclusive_blocks(b, tgt, [z for z in list(arms.values()) + [otherwise] if z != tgt]) for s in b.blocks[y]["stmts"]
                  if s["k"] == "assign" and s["rv"]["k"] == "agg" and s["rv"].get("adt", "").endswith("ScaleFormat")}
            pair[nm] = sorted(vs)
    want = {k: [k + "Throughput"] for k in (kn or [])}
    ctx.check(pair == want and bool(pair), "R18.2", ["DisplayThroughput", "kind-to-format"], "counter kind -> format: %s" % pair, b.where(0), detail=pair)
    # Scale::suffix: each ScaleFormat arm indexes the table of its own unit
    sb = prog.body("util::fmt::Scale::suffix", crate)
    fn = tables.variant_names(prog, "util::fmt::ScaleFormat", crate)
    if ctx.anchor("R18.2", "Scale::suffix", (1 if sb else 0) + (1 if fn else 0), 2):
        ctx.saw(sb)
        sws = [x for x in tables.discr_switches(sb) if "ScaleFormat" in sb.local_ty(x[2])]
        if ctx.check(len(sws) == 1, "R18.2", ["Scale::suffix", "match-on-format"], "matches on the format: %d" % len(sws), sb.where(0)):
            bi, t, _ = sws[0]
            arms, otherwise = tables.arm_targets(t)
            got = {}
            for i, nm in enumerate(fn):
                tgt = arms.get(i, otherwise)
                units = set()
                for y in tables.exclusive_blocks(sb, tgt, [z for z in list(arms.values()) + [otherwise] if z != tgt]):
                    for s in sb.blocks[y]["stmts"]:
                        if s["k"] == "assign" and s["rv"]["k"] == "use" and s["rv"]["o"]["k"] == "const" and s["rv"]["o"]["c"].get("udid", -1) >= 0:
                            cb = prog.const_body(sb.crate, s["rv"]["o"])
                            pb = prog.by_did.get((sb.crate, s["rv"]["o"]["c"]["udid"], 0))
                            if pb is not None:
                                rows = _str_rows(pb)
                                if rows and rows[0] and isinstance(rows[0][0], str):
                                    units.add(rows[0][0])
                got[nm] = sorted(units)
            want = {"Bytes": ["B"], "BytesThroughput": ["B/s"], "CharsThroughput": ["char/s"], "CyclesThroughput": ["Hz"], "ItemsThroughput": ["item/s"]}
            ctx.check(got == want, "R18.2", ["Scale::suffix", "format-to-unit"], "format -> unit: %s" % got, sb.where(0), detail=got)
            # indexed by `self as usize`
            n_idx = 0
            for bi2, si2, s in sb.stmts():
                if s["k"] == "assign" and s["rv"]["k"] in ("use", "ref"):
                    pl = s["rv"].get("p") or s["rv"]["o"].get("p")
                    if pl:
                        for pr in pl["proj"]:
                            if pr["k"] == "index":
                                srcs = sb.prov.local_src(pr["l"])
                                if any(z.kind == "discr" for z in srcs) and any(z.kind == "param" and z.a == sb.param_name(1) for z in srcs):
                                    n_idx += 1
            ctx.check(n_idx >= 5, "R18.2", ["Scale::suffix", "indexed-by-scale"], "table reads indexed by `self as usize`: %d" % n_idx, sb.where(0))
    fb = prog.body("util::fmt::ScaleFormat::bytes_format", crate)
    if ctx.anchor("R18.2", "ScaleFormat::bytes_format", 1 if fb else 0, 1):
        vs = {s["rv"]["variant"] for bi, si, s in fb.stmts() if s["k"] == "assign" and s["rv"]["k"] == "agg" and s["rv"].get("adt", "").endswith("BytesFormat")}
        ctx.check(vs == {"Decimal"}, "R18.2", ["ScaleFormat::bytes_format", "non-byte-units-are-decimal"], "non-byte units scale with %s" % sorted(vs), fb.where(0))


def _mut_ref_uses(b, local):
    """(call, arg_index) for every call that receives a `&mut <local>` (directly or through single-def reborrows);
    second result: other uses of such a reference (stored, returned, dereferenced for writing)."""
    refs = set()
    for bi, si, s in b.stmts():
        if s["k"] == "assign" and s["rv"]["k"] in ("ref", "rawptr") and s["rv"]["p"]["l"] == local and not any(p["k"] == "deref" for p in s["rv"]["p"]["proj"]) \
                and (s["rv"]["k"] == "rawptr" or s["rv"].get("mut")):
            refs.add(s["p"]["l"])
    grew = True
    while grew:
        grew = False
        for bi, si, s in b.stmts():
            if s["k"] == "assign" and not s["p"]["proj"] and s["p"]["l"] not in refs:
                rv = s["rv"]
                src = None
                if rv["k"] == "use" and rv["o"]["k"] in ("copy", "move"):
                    src = rv["o"]["p"]
                elif rv["k"] in ("ref", "rawptr"):
                    src = rv["p"]
                if src is not None and src["l"] in refs and all(p["k"] == "deref" for p in src["proj"]):
                    refs.add(s["p"]["l"])
                    grew = True
    uses = []
    for c in b.live_calls():
        for i, a in enumerate(c.args):
            if a["k"] in ("copy", "move") and a["p"]["l"] in refs and not a["p"]["proj"]:
                uses.append((c, i))
    writes = [(bi, si) for bi, si, s in b.stmts() if s["k"] == "assign" and s["p"]["l"] in refs and s["p"]["proj"]]
    return refs, uses, writes


def r18_3(ctx, prog, crate):
    """format_f64 returns a prefix of the exact decimal rendering of its argument, cut at the documented position."""
    from lib.symexpr import Sym, show, add
    b = prog.body("util::fmt::format_f64", crate)
    if not ctx.anchor("R18.3", "util::fmt::format_f64", 1 if b else 0, 1):
        return
    ctx.saw(b)
    S = Sym(b, site_args=True)
    # (1) the returned string is the Display rendering of `val` (no precision: Display for f64 without precision is exact)
    ret = origins(b, {"k": "move", "p": {"l": 0, "proj": [], "ty": ""}})
    calls = [o[1] for o in ret if o[0] == "call"]
    # several `return str` (early returns) are several definitions of the one result
    ok = len(calls) == len(ret) and len({c_.bb for c_ in calls}) == 1 and calls[0].callee.endswith("ToString>::to_string")
    if ok:
        a0 = S.op(calls[0].args[0])
        ok = a0 == ("arg", 1, ())
    if not ctx.check(ok, "R18.3", ["format_f64", "digits-are-exact-display-of-val"],
                     "the returned string does not originate in `val.to_string()` (origins: %s); a rendering with a precision rounds to nearest instead of truncating"
                     % [o[1].callee if o[0] == "call" else o[0] for o in ret], b.where(0)):
        return
    ts = calls[0]
    sl = ts.dest["l"]
    defs = b.prov.defs.get(sl, [])
    ctx.check(len(defs) == 1, "R18.3", ["format_f64", "string-assigned-once"], "the digit string is assigned %d times" % len(defs), ts.line())
    # (2) the only mutation is String::truncate (the result is a prefix)
    refs, uses, writes = _mut_ref_uses(b, sl)
    bad = [c.callee for c, i in uses if c.callee != "std::string::String::truncate"]
    ctx.check(not bad and not writes, "R18.3", ["format_f64", "only-truncated"],
              "the digit string is modified by %s (only String::truncate keeps it a prefix of the exact rendering)" % (sorted(set(bad)) or "direct writes"), b.where(0))
    trunc = [c for c, i in uses if c.callee == "std::string::String::truncate" and i == 0]
    # (3) cut positions
    finds = [c for c in b.live_calls() if c.callee == "core::str::find"]
    ok = len(finds) == 1 and const_int(finds[0].args[1]) == ord(".")
    if not ctx.check(ok, "R18.3", ["format_f64", "finds-decimal-point"], "no single `str.find('.')`", b.where(0)):
        return
    D = ("payload", "Some", 0, S.local(finds[0].dest["l"]))
    ctx.check(_derives_from_string(b, S, finds[0].args[0], ts), "R18.3", ["format_f64", "find-on-the-string"], "`find('.')` is not applied to the digit string", finds[0].line())
    F = ("call", "core::num::saturating_sub", (("arg", 2, ()), D))
    gets = [c for c in b.live_calls() if c.callee == "core::str::get"]
    # how the trailing zeros of the window are found - four spellings of the same search, each with its own arithmetic:
    #   zeros-from-end  Z = window.bytes().rev().enumerate().find_map(|(i, b)| (b != '0').then(i))  /  .rev().position(|b| b != '0')
    #   last-non-zero   L = window.bytes().rposition(|b| b != '0')
    #   kept-length     K = window.trim_end_matches('0').len()
    def last_is(c, name, trait_word="Iterator"):
        return c.callee.rsplit("::", 1)[-1] == name and trait_word in c.callee
    cands = [("zeros-from-end", c) for c in b.live_calls() if last_is(c, "find_map") or (last_is(c, "position") and not last_is(c, "rposition"))] + \
        [("last-non-zero", c) for c in b.live_calls() if last_is(c, "rposition")] + \
        [("kept-length", c) for c in b.live_calls() if c.callee.rsplit("::", 1)[-1] == "trim_end_matches"]
    if not ctx.check(len(cands) == 1 and len(gets) == 1, "R18.3", ["format_f64", "fraction-scan"], "searches for the trailing zeros: %d, str::get sites: %d" % (len(cands), len(gets)), b.where(0)):
        return
    kind, fm = cands[0]
    want_range = ("adt", "std::ops::Range", "Range", (add(D, ("int", 1)), add(add(D, ("int", 1)), F)))
    got_range = S.op(gets[0].args[1])
    ctx.check(got_range == want_range and _derives_from_string(b, S, gets[0].args[0], ts), "R18.3", ["format_f64", "fraction-window"],
              "the fraction window is %s, expected str[dot+1 .. dot+1+saturating_sub(sig_figs, dot)]" % show(got_range), gets[0].line(), detail=show(got_range))
    G = ("payload", "Some", 0, S.local(gets[0].dest["l"]))
    FS, FE = add(D, ("int", 1)), add(add(D, ("int", 1)), F)
    # the search runs over the window's bytes (from the end), and tests each byte against '0'
    chain = []
    e = S.op(fm.args[0])
    while e[0] == "site":
        chain.append(e[1].rsplit("::", 1)[-1])
        e = e[3][0] if len(e) > 3 and e[3] else ("opaque", "")
    want_chain = {"zeros-from-end": (["enumerate", "rev", "bytes"], ["rev", "bytes"]), "last-non-zero": (["bytes"],), "kept-length": ([],)}[kind]
    if kind == "zeros-from-end" and last_is(fm, "position"):
        want_chain = (["rev", "bytes"],)
    elif kind == "zeros-from-end":
        want_chain = (["enumerate", "rev", "bytes"],)
    ctx.check(chain in [list(x) for x in want_chain] and e == G, "R18.3", ["format_f64", "scan-from-the-end"],
              "the search runs over %s of %s, expected the window's bytes from the end" % (chain, show(e)), fm.line())
    cl = [x for x in prog.children(b) if x.kind == "Closure"]
    if kind == "kept-length":
        ctx.check(len(fm.args) == 2 and fm.args[1].get("k") == "const" and fm.args[1]["c"].get("ty") == "char" and fm.args[1]["c"].get("d", "").strip("'") == "0" and not cl,
                  "R18.3", ["format_f64", "scan-closure", "tests-byte-against-'0'"], "trim_end_matches is not given the character '0'", fm.line())
    elif ctx.check(len(cl) == 1, "R18.3", ["format_f64", "scan-closure"], "closures: %d" % len(cl), b.where(0)):
        c = cl[0]
        ctx.saw(c)
        if last_is(fm, "find_map"):
            SC = Sym(c)
            hit = None
            for bi, t in c.switches():
                e = SC.op(t["discr"])
                if e == ("cmp", "Lt", ("int", 48), ("arg", 2, (1,))):  # `b > b'0'`: same test on a window of decimal digits
                    e = ("cmp", "Ne", e[2], e[3])
                if e[0] == "cmp" and e[1] in ("Ne", "Eq") and {e[2], e[3]} == {("arg", 2, (1,)), ("int", 48)}:
                    arms, otherwise = tables.arm_targets(t)
                    f_t = arms.get(0, otherwise)
                    t_t = otherwise if 0 in arms else None
                    hit = (bi, e[1], t_t, f_t)
            if ctx.check(hit is not None and hit[2] is not None, "R18.3", ["format_f64", "scan-closure", "tests-byte-against-'0'"], "no `byte != b'0'` test in the scan closure", c.where(0)):
                bi, op, t_t, f_t = hit
                nz, z = (t_t, f_t) if op == "Ne" else (f_t, t_t)

                def ret_of(start, other):
                    out = []
                    for y in tables.exclusive_blocks(c, start, [other]):
                        for s_ in c.blocks[y]["stmts"]:
                            if s_["k"] == "assign" and s_["p"]["l"] == 0 and not s_["p"]["proj"]:
                                out.append(SC.rv(s_["rv"]))
                    return out
                rn, rz = ret_of(nz, z), ret_of(z, nz)
                ok = len(rn) == 1 and rn[0][0] == "adt" and rn[0][2] == "Some" and rn[0][3] == (("arg", 2, (0,)),) and len(rz) == 1 and rz[0][0] == "adt" and rz[0][2] == "None"
                ctx.check(ok, "R18.3", ["format_f64", "scan-closure", "first-nonzero-from-end"], "closure returns %s for a non-'0' byte and %s for '0' (expected Some(index) / None)" %
                          ([show(x) for x in rn], [show(x) for x in rz]), c.where(bi))
        else:
            # position / rposition predicate: the byte is not '0' (b != b'0'; b > b'0' is the same test on decimal digits)
            from lib.patheval import PathEval
            from lib.symexpr import canon_cmp
            cs = PathEval(c).run()
            okp = False
            if cs and len(cs) == 1 and not cs[0].conds:
                atom, pol = canon_cmp(cs[0].ret, unsigned=True)
                okp = atom is not None and ((atom[0] == "Eq" and set(atom[1:]) == {("int", 48), ("arg", 2, ())} and pol is False) or
                                            (atom == ("Lt", ("int", 48), ("arg", 2, ())) and pol is True))
            ctx.check(okp, "R18.3", ["format_f64", "scan-closure", "tests-byte-against-'0'"], "the search predicate is not `byte != b'0'`", c.where(0))
    # where to cut: at the dot when no fraction digit may stay or all of them are '0'; after the last non-'0' digit otherwise
    if kind == "kept-length":
        Z = S.local(b.call_at(fm.target).dest["l"]) if fm.target is not None and b.call_at(fm.target) is not None and b.call_at(fm.target).callee.rsplit("::", 1)[-1] == "len" else None
        lens_ = [c_ for c_ in b.live_calls() if c_.callee.rsplit("::", 1)[-1] == "len" and any(z.kind == "call" and z.b == fm.bb for z in b.prov.op_src(c_.args[0]))]
        Z = S.local(lens_[0].dest["l"]) if len(lens_) == 1 else None
        want_cut = add(FS, Z) if Z is not None else None
    else:
        Z = ("payload", "Some", 0, S.local(fm.dest["l"]))
        want_cut = add(FE, Z, -1) if kind == "zeros-from-end" else add(add(FS, Z), ("int", 1))
    sw_f = sw_z = None
    from lib.symexpr import bool_switch
    for bi, t in b.switches():
        e = S.op(t["discr"])
        if e[0] == "cmp" and e[1] == "Eq" and {e[2], e[3]} == {F, ("int", 0)}:
            arms, otherwise = tables.arm_targets(t)
            sw_f = (arms.get(0, otherwise), otherwise)          # (false target, true target)
        if kind != "kept-length" and e == ("discr", S.local(fm.dest["l"])):
            arms, otherwise = tables.arm_targets(t)
            sw_z = (arms.get(1, otherwise), arms.get(0, otherwise))  # (Some, None)
        if kind == "kept-length" and Z is not None:
            bs = bool_switch(b, S, bi)
            if bs is not None and bs[0][0] == "Eq" and set(bs[0][1:]) == {("int", 0), Z}:
                sw_z = (bs[2], bs[1])                            # (some digit kept, none kept)
    if not ctx.check(sw_f is not None and sw_z is not None and want_cut is not None, "R18.3", ["format_f64", "cut-cases"], "missing `fract_digits == 0` test or decision on the search result", b.where(0)):
        return
    zero_region = tables.exclusive_blocks(b, sw_f[1], [sw_f[0]])
    none_region = tables.exclusive_blocks(b, sw_z[1], [sw_z[0]])
    some_region = tables.exclusive_blocks(b, sw_z[0], [sw_z[1]])
    seen = {"dot@no-fraction-digits": 0, "dot@all-zero": 0, "end-minus-zeros": 0}
    # every (value, place it was decided) that reaches a truncate: the argument itself, or - when one truncate gets a length
    # chosen on several arms - each arm's value where it is assigned
    sites = []
    for c in trunc:
        a = c.args[1]
        l = a["p"]["l"] if a.get("k") in ("copy", "move") and not a["p"]["proj"] else None
        for _ in range(3):
            d_ = b.prov.defs.get(l, []) if l is not None else []
            if len(d_) == 1 and d_[0][0] == "S" and d_[0][3]["rv"]["k"] == "use" and d_[0][3]["rv"]["o"].get("k") in ("copy", "move") and not d_[0][3]["rv"]["o"]["p"]["proj"]:
                l = d_[0][3]["rv"]["o"]["p"]["l"]
            else:
                break
        d_ = b.prov.defs.get(l, []) if l is not None else []
        if len(d_) > 1 and all(x[0] == "S" and not x[3]["p"]["proj"] for x in d_):
            for x in d_:
                sites.append((S.rv(x[3]["rv"]), x[1], c))
        else:
            sites.append((S.op(a), c.bb, c))
    for e, bb, c in sites:
        if e == D and bb in zero_region:
            seen["dot@no-fraction-digits"] += 1
        elif e == D and bb in none_region:
            seen["dot@all-zero"] += 1
        elif e == want_cut and bb in some_region:
            seen["end-minus-zeros"] += 1
        else:
            ctx.fail("R18.3", ["format_f64", "cut-position"], "truncate(%s) is neither truncate(dot) [no fraction digits kept / all kept digits are '0'] nor "
                     "the cut after the last non-'0' digit (%s) [otherwise]" % (show(e), show(want_cut)), c.line())
    ctx.check(all(v == 1 for v in seen.values()), "R18.3", ["format_f64", "three-cut-cases"], "cut cases present: %s (each expected once)" % seen, b.where(0), detail=seen)


def _derives_from_string(b, S, op, ts):
    """operand is the digit string itself, a reference to it, or `Deref::deref(&string)`."""
    e = S.op(op)
    want = S.local(ts.dest["l"])
    for _ in range(4):
        if e == want:
            return True
        if e[0] == "site" and e[1].endswith("Deref>::deref") and len(e) > 3:
            e = e[3][0]
            continue
        break
    return e == want


def r18_4(ctx, prog, crate):
    """FineDuration's Display hands format_f64 the exact value truncated (by integer division) to sig_figs decimals."""
    from lib.symexpr import Sym, show, mul
    b = prog.body("<time::fine_duration::FineDuration as std::fmt::Display>::fmt", crate)
    if not ctx.anchor("R18.4", "Display for FineDuration", 1 if b else 0, 1):
        return
    ctx.saw(b)
    S = Sym(b, keep_casts=True, site_args=True)
    ff = [c for c in b.live_calls() if c.callee == "util::fmt::format_f64"]
    pw = [c for c in b.live_calls() if c.callee == "core::num::saturating_pow"]
    pc = [c for c in b.live_calls() if c.callee == "time::fine_duration::TimeScale::picos"]
    sf = [c for c in b.live_calls() if c.callee == "time::fine_duration::TimeScale::suffix"]
    fp = [c for c in b.live_calls() if c.callee == "time::fine_duration::TimeScale::from_picos"]
    if not ctx.check(len(ff) == 1 and len(pw) == 1 and len(pc) == 1 and len(sf) == 1 and len(fp) == 1, "R18.4", ["FineDuration::fmt", "sites"],
                     "format_f64 x%d saturating_pow x%d TimeScale::picos x%d suffix x%d from_picos x%d" % (len(ff), len(pw), len(pc), len(sf), len(fp)), b.where(0)):
        return
    P = ("arg", 1, ("picos",))
    M = S.local(pw[0].dest["l"])
    ctx.check(M[0] == "call" and M[2][0] == ("int", 10), "R18.4", ["FineDuration::fmt", "multiple-is-power-of-ten"], "multiple = %s" % show(M), pw[0].line())
    sig = S.op(ff[0].args[1])
    # the exponent is the precision handed to format_f64 (through try_from/unwrap_or)
    e = M[2][1] if M[0] == "call" else ("opaque", "")
    chain = []
    while e[0] in ("site", "cast") and e != sig:
        if e[0] == "cast":
            e = e[2]
            continue
        chain.append(e[1].rsplit("::", 1)[-1])
        e = e[3][0] if len(e) > 3 and e[3] else ("opaque", "")
    ctx.check(e == sig and set(chain) <= {"unwrap_or", "try_from"}, "R18.4", ["FineDuration::fmt", "same-precision-for-scaling-and-cut"],
              "10^x uses x = %s via %s, but format_f64 cuts at %s" % (show(e), chain, show(sig)), pw[0].line())
    U = S.local(pc[0].dest["l"])
    want = ("div", ("cast", "f64", ("div", mul(P, M), U)), ("cast", "f64", M))
    got = S.op(ff[0].args[0])
    ctx.check(got == want, "R18.4", ["FineDuration::fmt", "value-truncated-by-integer-division"],
              "format_f64 receives %s, expected ((picos * multiple) / scale.picos()) as f64 / multiple as f64" % show(got), ff[0].line(), detail=show(got))
    # the unit used for scaling is the unit whose suffix is printed, and it was chosen from this value
    a_p, a_s = S.op(pc[0].args[0]), S.op(sf[0].args[0])
    ctx.check(a_p == a_s and a_p[0] == "phi", "R18.4", ["FineDuration::fmt", "suffix-of-the-scaling-unit"], "scaled by %s, suffix of %s" % (show(a_p), show(a_s)), sf[0].line())
    if a_p[0] == "phi":
        srcs = {o[1].callee if o[0] == "call" else ("variant:" + o[1].get("variant", "?") if o[0] == "rvalue" and o[1]["k"] == "agg" else o[0])
                for o in origins(b, pc[0].args[0])}
        ctx.check(srcs == {"time::fine_duration::TimeScale::from_picos", "variant:NanoSec"}, "R18.4", ["FineDuration::fmt", "unit-chosen-from-value"],
                  "the unit comes from %s, expected from_picos(self.picos) with the sub-nanosecond -> ns override" % sorted(srcs), pc[0].line())
    ctx.check(S.op(fp[0].args[0]) == P, "R18.4", ["FineDuration::fmt", "unit-chosen-from-value", "of-self.picos"], "from_picos(%s)" % show(S.op(fp[0].args[0])), fp[0].line())
    # integer path: picos / DAY printed when picos >= DAY * multiple
    tsx = [c for c in b.live_calls() if c.callee.endswith("ToString>::to_string")]
    if ctx.check(len(tsx) == 1, "R18.4", ["FineDuration::fmt", "integer-path"], "to_string sites: %d" % len(tsx), b.where(0)):
        DAY = 86400 * 10 ** 12
        got = S.op(tsx[0].args[0])
        ctx.check(got == ("div", P, ("int", DAY)), "R18.4", ["FineDuration::fmt", "integer-path", "whole-days"], "integer path prints %s" % show(got), tsx[0].line())
        lim = ("payload", "Some", 0, ("call", "core::num::checked_mul", (("int", DAY), M)))
        guard = [bi for bi, t in b.switches() if S.op(t["discr"]) in (("cmp", "Le", lim, P),)]
        if not guard:
            # the same test as a combinator: DAY.checked_mul(multiple).is_some_and(|d| picos >= d)
            from lib.patheval import PathEval
            from lib.symexpr import canon_cmp
            for bi, t in b.switches():
                e = S.op(t["discr"])
                if not (e[0] == "site" and e[1] == "std::option::Option::is_some_and" and len(e[3]) == 2 and e[3][0] == ("call", "core::num::checked_mul", (("int", DAY), M))):
                    continue
                isa = b.call_at(e[2])
                clo = None
                if isa is not None and isa.args[1].get("k") in ("copy", "move"):
                    for d in b.prov.defs.get(isa.args[1]["p"]["l"], []):
                        if d[0] == "S" and d[3]["rv"]["k"] == "agg" and d[3]["rv"].get("ak") == "closure":
                            clo = (prog.bodies.get((b.crate, norm(d[3]["rv"]["def"]), -1)), d[3]["rv"]["ops"])
                if clo is None or clo[0] is None:
                    continue
                cs = PathEval(clo[0]).run()
                if cs and len(cs) == 1 and not cs[0].conds:
                    atom, pol = canon_cmp(cs[0].ret, unsigned=False)
                    # picos >= d  ==  not (picos < d)
                    if atom is not None and atom[0] == "Lt" and pol is False and atom[1][0] == "upvar" and atom[2] == ("arg", 2, ()) and len(clo[1]) == 1 and \
                            S.op(clo[1][0]) in (P, ("sptr", (1, ("picos",)))) or (atom is not None and atom[0] == "Lt" and pol is False and atom[1][0] == "upvar" and atom[2] == ("arg", 2, ()) and
                                                                                    len(clo[1]) == 1 and {z.label() for z in b.prov.op_src(clo[1][0])} == {"param:self.picos"}):
                        guard = [bi]
        ok = len(guard) == 1
        if ok:
            t = b.term(guard[0])
            arms, otherwise = tables.arm_targets(t)
            ok = tsx[0].bb in tables.exclusive_blocks(b, otherwise, [arms.get(0, otherwise)]) and ff[0].bb not in b.reach([otherwise], avoid=[arms.get(0, otherwise)])
        ctx.check(ok, "R18.4", ["FineDuration::fmt", "integer-path", "only-from-DAY*multiple"], "the integer path is not guarded by picos >= DAY.checked_mul(multiple)", tsx[0].line())
    ctx.note("R18.4 value argument: q = floor(picos*10^s / unit) is exact integer arithmetic; q / 10^s as f64 then has at most s decimals and format_f64 only truncates")


def r18_5(ctx, prog, crate):
    """(= R15.13) Sizes are printed with decimal or binary prefixes *as configured*: the command line gives `--bytes-format`
    no default of its own, so a run without the flag keeps the format set through Divan::bytes_format."""
    from .C15 import no_cli_defaults
    no_cli_defaults(ctx, "R18.5", prog, crate, only={"bytes-format"})


def r18_6(ctx, prog, crate):
    """Sizes keep max(0, 4 - d) decimals whatever their unit: on every path of format_bytes the number printed is
    format_f64(scaled value, sig_figs) with the caller's sig_figs unchanged, the scaled value and the suffix both taken from
    the one scale_value(val, bytes_format) result, and the suffix looked up with ScaleFormat::Bytes(bytes_format). (Byte
    figures are per-iteration means: 10.5 B is a legitimate value, dropping the decimals of the unit `B` prints 10 B.)"""
    from lib.patheval import PathEval
    b = prog.body("util::fmt::format_bytes", crate)
    if not ctx.anchor("R18.6", "util::fmt::format_bytes", 1 if b else 0, 1):
        return
    ctx.saw(b)
    sums = PathEval(b).run()
    if not ctx.check(bool(sums), "R18.6", ["format_bytes", "readable"], "cannot summarise format_bytes", b.where(0)):
        return
    sv = ("site", "util::fmt::scale_value")

    def base_is_the_callers(e):
        """bytes_format itself, or ScaleFormat::Bytes(bytes_format).bytes_format() (which R18.2 shows to be that value)"""
        if e == ("arg", 3, ()):
            return True
        return e[0] == "site" and e[1].endswith("ScaleFormat::bytes_format") and len(e[3]) == 1 and e[3][0][0] == "adt" and \
            e[3][0][2] == "Bytes" and tuple(e[3][0][3]) == (("arg", 3, ()),)

    def scaled_of_the_callers(e, field):
        return e[0] == "field" and e[1][:2] == sv and e[2] == (field,) and len(e[1][3]) == 2 and e[1][3][0] == ("arg", 1, ()) and base_is_the_callers(e[1][3][1])
    for n, sm in enumerate(sums):
        ff = [c for c in sm.calls if c[0] == "util::fmt::format_f64"]
        sx = [c for c in sm.calls if c[0] == "util::fmt::Scale::suffix"]
        ok = len(ff) == 1 and len(ff[0][1]) == 2 and ff[0][1][1] == ("arg", 2, ()) and scaled_of_the_callers(ff[0][1][0], 0)
        ctx.check(ok, "R18.6", ["format_bytes", "number-is-format_f64(scaled, sig_figs)"],
                  "a path of format_bytes does not print format_f64(scale_value(val, bytes_format).0, sig_figs) with the caller's sig_figs "
                  "(conditions %s)" % [str(c[0])[:60] for c in sm.conds], b.where(sm.blocks[-1]))
        ok2 = len(sx) == 1 and scaled_of_the_callers(sx[0][1][0], 1) and \
            sx[0][1][1][0] == "adt" and sx[0][1][1][2] == "Bytes" and tuple(sx[0][1][1][3]) == (("arg", 3, ()),)
        ctx.check(ok2, "R18.6", ["format_bytes", "suffix-of-the-same-scale"], "the suffix does not come from the same scale_value result with "
                  "ScaleFormat::Bytes(bytes_format)", b.where(sm.blocks[-1]))


def run(ctx, prog, crate):
    r18_6(ctx, prog, crate)
    r18_5(ctx, prog, crate)
    r18_1(ctx, prog, crate)
    r18_2(ctx, prog, crate)
    r18_3(ctx, prog, crate)
    r18_4(ctx, prog, crate)
