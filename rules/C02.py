"""C02  Only the benchmarked calls happen inside a sample's timed section."""
from lib.facts import norm, origins, direct_place
from lib.paths import Explorer, call_sequences
from .common import Recorder, START, END, TIMED_PLUMBING

INLINE = True      # crate-local helpers the rules do not know by name are inlined into their callers (lib/inline.py)
EXPLANATION = (
    "Static region/ordering analysis over MIR (drop-elaborated, no inlining). R02.1: for every pair of "
    "UntaggedTimestamp::start -> ::end calls in any body, every terminator on every normal CFG path between them is "
    "either the measured function (in the recorder: the captured `benched` only) or loop plumbing from a closed "
    "allow-list; no Drop terminator, no other call. R02.2: tally bracket - after the tally is cleared only "
    "Barrier::wait happens before the start timestamp, and between the end timestamp and the tally snapshot only the "
    "end barrier; the snapshot precedes every drop loop. R02.3: who may write/clear the tally. R02.4: fences and the "
    "clock read are ordered full_fence<clock<compiler_fence (start) and compiler_fence<clock<full_fence (end). "
    "This decides the ordering clause of the property exactly on the analysed configurations; it does not decide "
    "that the allow-listed core functions do not allocate (trusted) nor hardware reordering beyond the fences."
    " R02.5 ThreadAllocInfo::clear is unconditional and total (whole struct from new(), or every field). R02.6 the overhead subtracted from a sample is computed from that same raw sample's allocation info. R02.7 every measurement a Timer method caches in a static lives in a per-kind array read at self.kind() as usize and is initialised by measuring with the captured timer.")
EXPLANATION += (' R02.8 (= R19.1/R19.2) per-sample allocation snapshots and counter values are discarded with the timings of the tuning rounds.')
EXPLANATION += (" R02.9 every __private::Arg::get (run inside the generated timed closure) is a plain copy / reborrow. R02.10 (expansions) the generated runner's bench argument yields the benchmarked call's value.")
NOT_DECIDED = ["that allow-listed core leaf functions do not allocate (trusted)",
               "hardware reordering beyond the stated fences"]
TRUSTED = ["core::iter / MaybeUninit / UnsafeCell / black_box / mem::forget are allocation-free leaf functions"]

FLOOR_REGIONS = 7


def r02_1(ctx, prog, crate):
    rec = Recorder(prog, crate)
    regions = 0
    for b in prog.lib_bodies(crate):
        st = b.calls_named("=" + START)
        en = b.calls_named("=" + END)
        if not st and not en:
            continue
        ctx.saw(b)
        # every `end` is dominated by some `start`
        for e in en:
            ok = e.bb not in b.reach([0], avoid=[s.bb for s in st])
            ctx.check(ok, "R02.1", [b.path, "end-without-start"],
                      "an `end` timestamp is reachable without a preceding `start`", e.line())
        is_rec = rec.body is not None and b.path == rec.body.path
        for s in st:
            others = [x.bb for x in st if x.bb != s.bb]
            fw = b.reach(b.succ[s.bb], avoid=others)
            ends = [e.bb for e in en if e.bb in fw]
            if not ctx.check(bool(ends), "R02.1", [b.path, "start-without-end"],
                             "a `start` timestamp with no `end` on its paths", s.line()):
                continue
            # no path from start to return avoiding every end
            escapes = set(b.returns) & b.reach(b.succ[s.bb], avoid=ends)
            ctx.check(not escapes, "R02.1", [b.path, "start-escapes-end"],
                      "a normal path leaves the function after `start` without taking `end`", s.line())
            regions += 1
            region = b.between([s.bb], ends) - set(ends)
            measured = []
            spl = set(getattr(b, "spliced_closures", ()) or ())
            for x in sorted(region):
                t = b.term(x)
                if not is_rec and spl and set(b.inlined_chain(x)) & spl:
                    # the body of the measured operation itself: a closure handed to the measuring helper, spliced in at
                    # the helper's call of it (lib.inline) - what it does is what is being measured
                    if not measured:
                        measured.append(None)
                    continue
                if t["k"] == "call":
                    c = b.call_at(x)
                    ctx.calls_examined += 1
                    if is_rec:
                        role = rec.role(c)
                        if role == "benched":
                            measured.append(c)
                            continue
                        if role is not None:
                            ctx.fail("R02.1", [b.path, "forbidden-in-timed-region", role],
                                     "`%s` is called between the start and end timestamps" % role, c.line())
                            continue
                    elif c.is_fn_trait_call or c.decl is None:
                        measured.append(c)
                        continue
                    if c.callee in TIMED_PLUMBING:
                        continue
                    ctx.fail("R02.1", [b.path, "call-in-timed-region", c.callee],
                             "call to `%s` between the start and end timestamps (not the measured function, "
                             "not allow-listed loop plumbing)" % c.callee, c.line())
                elif t["k"] == "drop":
                    ctx.fail("R02.1", [b.path, "drop-in-timed-region", t["ty"]],
                             "a value of type `%s` is dropped between the start and end timestamps" % t["ty"],
                             b.where(x))
                elif t["k"] == "asm":
                    ctx.fail("R02.1", [b.path, "asm-in-timed-region"], "inline asm in timed region", b.where(x))
            if is_rec:
                ctx.check(len(measured) == 1, "R02.1", [b.path, "measured-call-sites", "start@" + _lbl(rec, s)],
                          "expected exactly one call site of the benchmarked function in the timed region, found %d"
                          % len(measured), s.line())
                for m in measured:
                    lp = b.innermost_loop(m.bb)
                    ok = lp is not None and lp["header"] in region and b.once_per_iteration(m.bb, lp)
                    ctx.check(ok, "R02.1", [b.path, "measured-once-per-iteration", "start@" + _lbl(rec, s)],
                              "the benchmarked call is not executed exactly once per iteration of the timed loop",
                              m.line())
            ctx.ok("R02.1", "%s|region|%s" % (b.path, _lbl(rec, s) if is_rec else "bb-order-%d" % st.index(s)),
                   {"body": b.path, "blocks": len(region), "measured": [m.name if m is not None else "<spliced operation>" for m in measured]})
    ctx.anchor("R02.1", "timed regions (UntaggedTimestamp::start -> ::end)", regions, FLOOR_REGIONS)
    # side conditions of the allow-list entries that consume an output inside the timed region:
    #  * black_box_drop(output) (inputs-only path) is drop-free only if that path is selected exactly when !needs_drop::<O>()
    #  * mem::forget(black_box(output)) (ZST path) never drops
    if rec.body is not None:
        from .C01 import only_inputs_is_not_needs_drop, generic_names
        only_inputs_is_not_needs_drop(ctx, prog, crate, "R02.1")
        b = rec.body
        I, O = generic_names(b)
        sl = [c for c in b.live_calls() if c.callee == "benchmark::defer::DeferStore::slots"]
        for p in rec.paths:
            uses_bbd = any(c.callee == "black_box_drop" for c in p.calls("timed"))
            if not uses_bbd:
                continue
            # this path must be the Err (inputs-only) arm of slots()
            ok = False
            for c in sl:
                for bi, t, base in __import__("lib.tables", fromlist=["x"]).discr_switches(b):
                    if base == c.dest["l"] and not c.dest["proj"]:
                        arms = {int(a[0]): a[1] for a in t["arms"]}
                        from .common import slots_result_variants as _srv2
                        sv2 = _srv2(prog, crate)
                        err_t = arms.get(sv2["inputs"][1] if sv2 else 1, t["otherwise"] if len(arms) == 1 and (sv2["inputs"][1] if sv2 else 1) not in arms else None)
                        ok_t = arms.get(sv2["slots"][1] if sv2 else 0, t["otherwise"] if len(arms) == 1 and (sv2["slots"][1] if sv2 else 0) not in arms else None)
                        ok = err_t is not None and b.dominates(err_t, p.start.bb) and (ok_t is None or not b.dominates(ok_t, p.start.bb))
            ctx.check(ok, "R02.1", [b.path, p.label, "black_box_drop-only-on-inputs-only-arm"],
                      "black_box_drop(output) is used in a timed loop that is not the Err (outputs need no drop) arm of slots()", p.start.line())
        sb = prog.body("benchmark::defer::DeferStore::slots", crate)
        if sb is not None:
            from lib import tables as _t
            sw = [(bi, t) for bi, t in sb.switches() if any(s.kind == "const" and "ONLY_INPUTS" in str(s.a) + str(s.c) for s in sb.prov.op_src(t["discr"]))
                  and not any(s.kind in ("unop", "binop") for s in sb.prov.op_src(t["discr"]))]
            res = {}
            if len(sw) == 1:
                bi, t = sw[0]
                zero = [x[1] for x in t["arms"] if x[0] == "0"][0]
                for val, tgt, other in ((True, t["otherwise"], zero), (False, zero, t["otherwise"])):
                    for x in _t.exclusive_blocks(sb, tgt, [other]):
                        for s in sb.blocks[x]["stmts"]:
                            if s["k"] == "assign" and s["p"]["l"] == 0 and s["rv"]["k"] == "agg":
                                res[val] = s["rv"].get("variant")
            from .common import slots_result_variants as _srv
            sv_ = _srv(prog, crate)
            ctx.check(bool(sv_) and res == {True: sv_["inputs"][0], False: sv_["slots"][0]}, "R02.1", ["DeferStore::slots", "Err-iff-ONLY_INPUTS"],
                      "slots() returns %s; Err (inputs-only loop) must be returned exactly when ONLY_INPUTS" % res, sb.where(0))
    return rec


def _lbl(rec, s):
    for p in rec.paths:
        if p.start.bb == s.bb:
            return p.label
    return "?"


def r02_2(ctx, prog, crate, rec):
    if not ctx.anchor("R02.2", "sample recorder body", 1 if rec.body is not None else 0, 1):
        return
    b = rec.body
    ctx.saw(b)
    ctx.anchor("R02.2", "recorder sample-loop paths", rec.paths, 3)
    # (a)/(d): the sync implementation: feasible call sequences
    sync_bodies = []
    for sp in rec.sync_closures:
        cb = prog.bodies.get((b.crate, sp, -1))
        bodies, ext, _ = prog.callee_closure([cb], crate=b.crate)
        from .common import pure_waiter as _pw
        direct = [x for x in bodies if any(c.callee == "std::sync::Barrier::wait" for c in x.calls)]
        callers = [x for x in bodies if any(_pw(prog, x, c) for c in x.live_calls())]
        helpers = [x for x in direct if set(c.callee for c in x.live_calls()) == {"std::sync::Barrier::wait"} and any(
            any(_pw(prog, y, c) and (c.name == x.path or c.callee == x.path) for c in y.live_calls()) for y in callers)]
        sync_bodies.extend([x for x in direct if x not in helpers] + [x for x in callers if x not in direct])
    if ctx.anchor("R02.2", "sync implementation (body calling Barrier::wait)", sync_bodies, 1):
        clears_somewhere = False
        for sb in sync_bodies:
            ctx.saw(sb)

            def tag(c, sb=sb):
                n = c.callee
                if n == "std::sync::Barrier::wait":
                    return "wait"
                from .common import pure_waiter
                if pure_waiter(prog, sb, c):
                    return "wait"
                if n.endswith("ThreadAllocInfo::clear"):
                    return "clear"
                if n.endswith("ThreadAllocInfo::current") or n.endswith("ThreadAllocInfo::try_current"):
                    return "current"
                if n in ("std::ptr::NonNull::as_mut", "std::ptr::NonNull::as_ptr"):
                    return None
                return "other:" + n

            # which parameter is the start flag: the bool one
            seqs = call_sequences(sb, Explorer(sb).run(), tag)
            for (seq, reason), path in sorted(seqs.items()):
                # after a `clear`, only `wait`
                if "clear" in seq:
                    i = seq.index("clear")
                    ctx.check(all(x == "wait" for x in seq[i + 1:]), "R02.2a", [sb.path, "after-clear"] + list(seq),
                              "after the tally is cleared something other than Barrier::wait runs before the "
                              "timed section: %s" % (seq,), sb.where(path[-1]))
                    ctx.check(seq.count("clear") == 1, "R02.2a", [sb.path, "clear-once"] + list(seq),
                              "tally cleared more than once", sb.where(path[-1]))
                others = [x for x in seq if x.startswith("other:")]
                ctx.check(not others, "R02.2a", [sb.path, "foreign-call"] + others,
                          "the thread synchronisation helper calls %s" % others, sb.where(path[-1]))
            # (d) the non-start call must not clear: paths on which `current` is not called have no clear
            for (seq, reason), path in sorted(seqs.items()):
                if "current" not in seq:
                    ctx.check("clear" not in seq, "R02.2d", [sb.path, "clear-without-current"] + list(seq),
                              "tally cleared on a path that did not fetch the current thread's tally", sb.where(path[-1]))
            # the clear path exists and `current` is fetched only when the start flag is true
            has_flag_ = any(sb.local_ty(l) == "bool" for l in range(1, sb.arg_count + 1))
            clears_somewhere = clears_somewhere or any("clear" in s for (s, _r) in seqs)
            if has_flag_ or len(sync_bodies) == 1:
                ctx.check(any("clear" in s for (s, _r) in seqs), "R02.2a", [sb.path, "clear-exists"],
                          "no feasible path clears the tally before the timed section", sb.where(0))
            _start_flag_guards_current(ctx, sb)
        ctx.check(clears_somewhere, "R02.2a", ["sync", "clear-exists"], "no synchronisation step clears the tally before the timed section", b.where(0))
    for p in rec.paths:
        lbl = p.label
        # (b) no call between sync_threads(true) returning and `start`
        syncs_pre = [c for c in b.live_calls() if rec.role(c) == "sync_threads" and c.bb in p.pre]
        ok = len(syncs_pre) >= 1
        if ctx.check(ok, "R02.2b", [b.path, lbl, "sync-before-start"],
                     "no thread synchronisation before the start timestamp on this path", p.start.line()):
            last = [c for c in syncs_pre if c.target is not None]
            for c in last:
                if p.start.bb in b.reach([c.target]):
                    blocks = b.between([c.bb], [p.start.bb]) - {p.start.bb}
                    calls = [b.call_at(x) for x in blocks if b.call_at(x) is not None]
                    # only the *last* sync before start matters: those from which start is reachable w/o another sync
                    direct = p.start.bb in b.reach([c.target], avoid=[x.bb for x in syncs_pre if x.bb != c.bb])
                    if not direct:
                        continue
                    ctx.check(rec.sync_arg(c) is True, "R02.2b", [b.path, lbl, "sync-start-flag"],
                              "the synchronisation before `start` is not called with is_start = true", c.line())
                    ctx.check(not calls, "R02.2b", [b.path, lbl, "between-sync-and-start"] + [x.name for x in calls],
                              "calls between the start synchronisation (tally clear) and the start timestamp: %s"
                              % [x.name for x in calls], p.start.line())
                    drops = [x for x in blocks if b.term(x)["k"] == "drop"]
                    ctx.check(not drops, "R02.2b", [b.path, lbl, "drop-between-sync-and-start"],
                              "a drop between the tally clear and the start timestamp", p.start.line())
        # (c) between `end` and save_alloc_info only sync_threads(false)
        saves = [c for c in b.live_calls() if rec.role(c) == "save_alloc_info" and c.bb in p.post]
        if not ctx.check(len(saves) >= 1, "R02.2c", [b.path, lbl, "snapshot-after-end"],
                         "the allocation tally is not snapshotted after the end timestamp", p.start.line()):
            continue
        for e in p.ends:
            # every path from end to return passes a save
            esc = set(b.returns) & b.reach(b.succ[e.bb], avoid=[s.bb for s in saves])
            ctx.check(not esc, "R02.2c", [b.path, lbl, "snapshot-on-every-path"],
                      "a path from the end timestamp returns without snapshotting the tally", e.line())
            blocks = b.between([e.bb], [s.bb for s in saves]) - {s.bb for s in saves}
            names = []
            for x in sorted(blocks):
                c = b.call_at(x)
                if c is not None:
                    r = rec.role(c)
                    if r == "sync_threads" and rec.sync_arg(c) is False:
                        continue
                    if c.callee in ("std::mem::needs_drop", "std::mem::size_of"):
                        continue  # type-level constants (intrinsics), no code
                    names.append(r or c.callee)
                elif b.term(x)["k"] == "drop":
                    names.append("drop " + b.term(x)["ty"])
            ctx.check(not names, "R02.2c", [b.path, lbl, "between-end-and-snapshot"] + names,
                      "between the end timestamp and the tally snapshot something other than the end "
                      "synchronisation happens: %s" % names, e.line())
        # (e) the snapshot dominates the drop loops (every post loop and every drop/drop_input after end)
        for c in b.live_calls():
            if c.bb in p.post and (rec.role(c) == "drop_input" or c.callee.endswith("assume_init_drop")):
                ok = c.bb not in b.reach([e.target for e in p.ends if e.target is not None], avoid=[s.bb for s in saves])
                ctx.check(ok, "R02.2e", [b.path, lbl, "snapshot-before-drops", rec.role(c) or c.callee],
                          "a drop of an input/output can run before the tally snapshot", c.line())
        for l in p.loops("post"):
            ok = l["header"] not in b.reach([e.target for e in p.ends if e.target is not None], avoid=[s.bb for s in saves])
            ctx.check(ok, "R02.2e", [b.path, lbl, "snapshot-before-drop-loop"],
                      "the drop loop can start before the tally snapshot", b.where(l["header"]))
    # the snapshot closure reads the current thread's tally
    for sp in rec.save_closures:
        cb = prog.bodies.get((b.crate, sp, -1))
        ctx.saw(cb)
        names = [c.callee for c in cb.live_calls()]
        ctx.check(any(n.endswith("ThreadAllocInfo::try_current") for n in names), "R02.2c",
                  [cb.path, "snapshot-reads-current-thread-tally"], "snapshot does not read try_current()", cb.where(0))
        allowed = ("ThreadAllocInfo::try_current", "AtomicFlag::get", "NonNull::as_ptr", "mut_ptr::read",
                   "NonNull::as_ref", "clone")
        def leaf(n, depth=0):
            # a crate-local function whose whole callee closure is crate-local and call-free at the leaves (e.g. the
            # all-zero constructor ThreadAllocInfo::new -> AllocOpMap::new) cannot allocate or tally
            lb = prog.bodies.get((b.crate, n, -1))
            if lb is None or depth > 4:
                return False
            if any(lb.term(x)["k"] == "drop" for x in lb.live):
                return False
            return all(leaf(c.callee, depth + 1) for c in lb.live_calls())
        extra = [n for n in names if not n.endswith(allowed) and not leaf(n)]
        ctx.check(not extra, "R02.2c", [cb.path, "snapshot-foreign-calls"] + extra,
                  "the snapshot helper calls %s" % extra, cb.where(0))


def _start_flag_guards_current(ctx, sb):
    """`ThreadAllocInfo::current()` (which precedes the clear) is control-dependent on the bool parameter."""
    cur = [c for c in sb.live_calls() if c.callee.endswith("ThreadAllocInfo::current")]
    has_flag = any(sb.local_ty(l) == "bool" for l in range(1, sb.arg_count + 1))
    if not has_flag:
        # start and end synchronisation are separate functions: this one is the start step (it fetches the tally to
        # clear it) or the end step (it does not) - which one runs where is decided at the call sites (R02.2b/c)
        ctx.ok("R02.2a", sb.path + "|" + ("start-step" if cur else "end-step"))
        return
    if not ctx.anchor("R02.2a", "ThreadAllocInfo::current() in the sync implementation", cur, 1):
        return
    for c in cur:
        # find a switch on a bool parameter whose false arm avoids c
        guarded = False
        for bi, t in sb.switches():
            srcs = sb.prov.op_src(t["discr"])
            if any(s.kind == "param" and sb.local_ty_of_param(s.a) == "bool" for s in srcs if s.kind == "param"):
                zero = [a[1] for a in t["arms"] if a[0] == "0"]
                if zero and c.bb not in sb.reach(zero) and c.bb in sb.reach([t["otherwise"]]) and sb.dominates(bi, c.bb):
                    guarded = True
        ctx.check(guarded, "R02.2a", [sb.path, "clear-only-at-start"],
                  "fetching/clearing the tally is not guarded by the is_start flag", c.line())


def r02_3(ctx, prog, crate):
    """Who may touch a tally: tally_* from GlobalAlloc methods + overhead measurement; clear from the sync
    implementation + overhead measurement."""
    allowed_tally = ("<alloc::AllocProfiler<A> as std::alloc::GlobalAlloc>::", "time::timer::Timer::measure_tally_",
                     "alloc::ThreadAllocInfo::tally_", "alloc::tests::")
    n = 0
    for c in prog.callers_of("alloc::ThreadAllocInfo::tally_alloc", "alloc::ThreadAllocInfo::tally_dealloc",
                             "alloc::ThreadAllocInfo::tally_realloc", "alloc::ThreadAllocInfo::tally_op",
                             crates=[crate]):
        n += 1
        ok = c.body.path.startswith(allowed_tally)
        if not ok and c.body.path.startswith("alloc::ThreadAllocInfo::") and c.body.kind != "Closure":
            # a helper of the tally type itself (whatever it is called): allowed when everything that calls it is
            def _via(p, seen):
                if p in seen:
                    return True
                seen.add(p)
                cs = [x for x in prog.callers_of(p, crates=[crate])]
                return bool(cs) and all(x.body.path.startswith(allowed_tally) or
                                        (x.body.path.startswith("alloc::ThreadAllocInfo::") and x.body.kind != "Closure" and _via(x.body.path, seen)) for x in cs)
            ok = _via(c.body.path, set())
        if not ok and c.body.path.startswith("alloc::benches::"):
            # exception (one named module, feature internal_benches): divan's own benchmarks of the tally
            # functions.  Side condition: the benchmark first sets IGNORE_ALLOC, which makes the recorder's
            # snapshot helper skip the tally (checked in R02.2c: snapshot helper tests AtomicFlag::get).
            par = prog.parent_body(c.body)
            if par is not None:
                for pc in par.live_calls():
                    if pc.callee.endswith("AtomicFlag::set") and len(pc.args) == 2:
                        a0 = par.prov.op_src(pc.args[0])
                        a1 = par.prov.op_src(pc.args[1])
                        if any(x.kind == "static" and x.a.endswith("IGNORE_ALLOC") for x in a0) and \
                                any(x.kind == "const" and x.a == "true" for x in a1) and \
                                not (set(par.returns) & par.reach([0], avoid=[pc.bb])):
                            ok = True
        ctx.check(ok, "R02.3", ["tally-writer", c.body.path, c.callee.rsplit("::", 1)[-1]],
                  "`%s` is called from `%s`, which is neither an allocator hook nor the overhead measurement"
                  % (c.callee, c.body.path), c.line())
    ctx.anchor("R02.3", "tally_* call sites", n, 4)
    m = 0
    rec = Recorder(prog, crate)
    sync_paths = set()
    if rec.body is not None:
        for sp in rec.sync_closures:
            cb = prog.bodies.get((rec.body.crate, sp, -1))
            bodies, _, _ = prog.callee_closure([cb], crate=rec.body.crate)
            sync_paths |= {x.path for x in bodies}
    for c in prog.callers_of("alloc::ThreadAllocInfo::clear", crates=[crate]):
        m += 1
        ok = c.body.path in sync_paths or c.body.path.startswith(("time::timer::Timer::measure_alloc_info_overhead",
                                                                  "alloc::tests::"))
        ctx.check(ok, "R02.3", ["tally-clear", c.body.path],
                  "the tally is cleared from `%s` (only the start synchronisation and the overhead measurement may)"
                  % c.body.path, c.line())
    ctx.anchor("R02.3", "ThreadAllocInfo::clear call sites", m, 2)


def _order_on_all_paths(b, names):
    """Each normal entry->return path calls exactly the callees `names` (by suffix) in that relative order,
    ignoring other calls. Returns (ok, seen sequences)."""
    def tag(c):
        for n in names:
            if c.callee.endswith(n):
                return n
        return None
    seqs = call_sequences(b, Explorer(b).run(), tag)
    return seqs


def r02_4(ctx, prog, crate):
    clock = ("std::time::Instant::now", "TscTimestamp::start", "TscTimestamp::end")
    specs = [
        ("time::timestamp::UntaggedTimestamp::start", ["full_fence", "CLOCK", "compiler_fence"]),
        ("time::timestamp::UntaggedTimestamp::end", ["compiler_fence", "CLOCK", "full_fence"]),
        ("time::timestamp::Timestamp::start", ["full_fence", "CLOCK", "compiler_fence"]),
    ]
    for path, want in specs:
        b = prog.body(path, crate)
        if not ctx.anchor("R02.4", path, 1 if b else 0, 1):
            continue
        ctx.saw(b)

        def tag(c):
            n = c.callee
            if n.endswith("fence::full_fence"):
                return "full_fence"
            if n.endswith("fence::compiler_fence"):
                return "compiler_fence"
            if n.endswith(clock):
                return "CLOCK"
            return None
        seqs = call_sequences(b, Explorer(b).run(), tag)
        for (seq, reason), p in sorted(seqs.items()):
            if reason != "return":
                continue
            ctx.check(list(seq) == want, "R02.4", [b.path, "fence-order"] + list(seq),
                      "fence/clock order on a path is %s, expected %s" % (list(seq), want), b.where(p[-1]))
        # which clock: start uses TscTimestamp::start, end uses ::end
        want_tsc = "TscTimestamp::end" if path.endswith("::end") else "TscTimestamp::start"
        tsc = [c.callee for c in b.live_calls() if "TscTimestamp::" in c.callee]
        ctx.check(tsc and all(x.endswith(want_tsc) for x in tsc), "R02.4", [b.path, "tsc-read-kind"],
                  "expected the TSC read `%s`, found %s" % (want_tsc, tsc), b.where(0))
    # fence implementations
    for path, want in (("time::fence::full_fence", "std::sync::atomic::fence"),
                       ("time::fence::compiler_fence", "std::sync::atomic::compiler_fence")):
        b = prog.body(path, crate)
        if not ctx.anchor("R02.4", path, 1 if b else 0, 1):
            continue
        ctx.saw(b)
        cs = [c for c in b.live_calls() if c.callee == want]
        ok = len(cs) == 1 and all(x in b.reach(b.succ[0]) or True for x in [0])
        if ctx.check(len(cs) == 1 and not (set(b.returns) & b.reach([0], avoid=[cs[0].bb] if cs else [])), "R02.4",
                     [path, "calls", want], "`%s` does not call `%s` on every path" % (path, want), b.where(0)):
            srcs = b.prov.op_src(cs[0].args[0])
            ctx.check(any(s.kind == "variant" and s.a.endswith("Ordering::SeqCst") for s in srcs), "R02.4",
                      [path, "ordering-SeqCst"], "fence ordering is not SeqCst: %s" % sorted(s.label() for s in srcs),
                      cs[0].line())
    # x86 TSC reads: lfence; rdtsc; lfence  /  rdtscp; lfence
    for fn, want in (("start_timestamp", ["_mm_lfence", "_rdtsc", "_mm_lfence"]), ("end_timestamp", ["__rdtscp", "_mm_lfence"])):
        bs = [x for x in prog.find(fn, crate) if "tsc::x86" in x.path or "tsc::arch" in x.path]
        if not ctx.anchor("R02.4", "x86 " + fn, bs, 1):
            continue
        for b in bs:
            ctx.saw(b)

            def tag(c, want=want, b=b):
                intr = ("_mm_lfence", "_rdtsc", "__rdtscp")
                last = c.callee.rsplit("::", 1)[-1]
                if last in intr:
                    return last
                wb = prog.bodies.get((b.crate, c.callee, -1))  # thin wrapper around one intrinsic
                if wb is not None:
                    inner = [x.callee.rsplit("::", 1)[-1] for x in wb.live_calls()]
                    hits = [x for x in inner if x in intr]
                    if len(hits) == 1 and not (set(wb.returns) & wb.reach([0], avoid=[x.bb for x in wb.live_calls() if x.callee.rsplit("::", 1)[-1] in intr])):
                        ctx.saw(wb)
                        return hits[0]
                    if hits:
                        return "wrapper-with-" + "+".join(hits)
                return None
            seqs = call_sequences(b, Explorer(b).run(), tag)
            for (seq, reason), p in sorted(seqs.items()):
                if reason != "return":
                    continue
                ctx.check(list(seq) == want, "R02.4", [b.path, "x86-serialisation"] + list(seq),
                          "TSC read sequence is %s, expected %s" % (list(seq), want), b.where(p[-1]))


def r02_6(ctx, prog, crate):
    """What is attributed to a sample is that sample's own: the tally overhead subtracted from a sample's duration is
    computed from the allocation record of the SAME raw sample (total_overhead(.., &s.alloc_info) next to s.duration()),
    never from another thread's or another round's record."""
    from lib.symexpr import Sym, show
    sites = [c for c in prog.callers_of("total_overhead", crates=[crate]) if "::tests::" not in c.body.path and c.callee.endswith("::total_overhead")]
    if not ctx.anchor("R02.6", "total_overhead call sites", sites, 1):
        return
    for c in sites:
        b = c.body
        ctx.saw(b)
        S = Sym(b, site_args=True)
        ai = S.op(c.args[-1])
        durs = [x for x in b.live_calls() if x.callee.endswith("RawSample::duration")]
        ok = len(durs) >= 1
        owner = None
        if ok:
            # alloc_info of X, duration of the same X
            if ai[0] in ("arg", "upvar") and ai[2][-1:] == ("alloc_info",):
                owner = (ai[0], ai[1], ai[2][:-1])
            elif ai[0] == "field" and ai[2][-1:] == ("alloc_info",):
                owner = ai[1] if len(ai[2]) == 1 else ("field", ai[1], ai[2][:-1])
            ok = owner is not None and all(S.op(x.args[0]) == owner for x in durs)
        ctx.check(ok, "R02.6", [b.path, "overhead-from-the-same-samples-record"],
                  "the overhead is computed from %s but subtracted from the duration of %s" % (show(ai), [show(S.op(x.args[0])) for x in durs] or "no sample in this body"),
                  c.line(), detail={"alloc_info": show(ai)})
        # the owner is a per-sample value: the closure's own parameter (called once per raw sample, R05.2 same-raw-sample)
        ctx.check(owner is not None and owner[0] == "arg" and b.kind == "Closure", "R02.6", [b.path, "per-sample"],
                  "the overhead is not computed per raw sample (owner %s)" % (show(owner) if owner else None), c.line())


def r02_7(ctx, prog, crate):
    """What is subtracted from a sample was measured with the clock that timed the sample: every value a Timer method
    caches in a static (precision, sample-loop overhead, the overhead set) lives in a per-kind array of cells and is read
    at `self.kind() as usize` - one timer kind never reuses what the other kind's clock measured."""
    from lib.symexpr import Sym, show
    n = 0
    for b in prog.lib_bodies(crate):
        if not b.path.startswith("time::timer::Timer::") or b.kind == "Closure" or "::tests::" in b.path or "::benches::" in b.path:
            continue
        gois = [c for c in b.live_calls() if c.callee.endswith("OnceLock::get_or_init")]
        if not gois:
            continue
        ctx.saw(b)
        S = Sym(b, site_args=True)
        for c in gois:
            n += 1
            # the cell: &CACHED[idx]
            cell = None
            d = direct_place(b, c.args[0])
            for bi, si, s in b.stmts():
                if s["k"] == "assign" and s["rv"]["k"] == "ref" and any(pr["k"] == "index" for pr in s["rv"]["p"]["proj"]):
                    if any(z.kind == "static" for z in b.prov.place_src(s["rv"]["p"])) or "static" in str(b.prov.local_src(s["rv"]["p"]["l"])):
                        pr = [p_ for p_ in s["rv"]["p"]["proj"] if p_["k"] == "index"][0]
                        cell = (bi, S.local(pr["l"]))
            ok = cell is not None and cell[1][0] == "discr" and cell[1][1][0] == "site" and cell[1][1][1] == "time::timer::Timer::kind" and \
                cell[1][1][3] and cell[1][1][3][0] in (("arg", 1, ()), ("sptr", (1, ())))
            if not ok:
                from .common import slot_selected_by_match
                ok = slot_selected_by_match(b, c.args[0], "time::timer::Timer::kind")
            ctx.check(ok, "R02.7", [b.path.rsplit("::", 1)[-1], "cached-per-timer-kind"],
                      "`%s` caches its measurement in %s: expected a per-kind array of cells read at `self.kind() as usize` (a process-wide cell lets one clock's measurement be "
                      "subtracted from samples timed by the other)" % (b.path, "a cell indexed by " + show(cell[1]) if cell else "a single static cell"), c.line())
            # the initialiser measures with this very timer (self captured)
            cl = None
            for o in origins(b, c.args[1]):
                if o[0] == "rvalue" and o[1]["k"] == "agg" and o[1]["ak"] == "closure":
                    cl = prog.bodies.get((b.crate, norm(o[1]["def"]), -1))
            if ctx.check(cl is not None, "R02.7", [b.path.rsplit("::", 1)[-1], "initialiser"], "cannot find the cache initialiser", c.line()):
                recv = set()
                for cc in cl.live_calls():
                    if cc.callee.startswith("time::timer::Timer::") and cc.args:
                        recv |= {z.label().split(".")[0] for z in cl.prov.op_src(cc.args[0]) if z.kind in ("upvar", "param", "const", "variant")}
                ctx.check(recv and all(r.startswith("upvar:") for r in recv), "R02.7", [b.path.rsplit("::", 1)[-1], "measured-with-this-timer"],
                          "the cached value is measured with %s, expected the timer itself (captured self)" % sorted(recv), cl.where(0))
    ctx.anchor("R02.7", "Timer methods caching a measurement in a static", n, 3)


def r02_5(ctx, prog, crate):
    """The figures of a sample are the operations between its two timestamps ONLY if the clear before the start timestamp
    really resets the tally: ThreadAllocInfo::clear is unconditional and total (clause shared with C10, R10.5)."""
    from .C10 import r10_5
    from .common import Renamed
    r10_5(Renamed(ctx, "R02.5"), prog, crate)


def r02_8(ctx, prog, crate):
    """(= R19.1 / R19.2) The allocation figures attributed to a sample are those of its own timed section: when the tuning
    rounds are discarded, their per-sample allocation snapshots and counter values are discarded with their timings (one
    clear() over all per-sample collections) - a snapshot left behind would be attributed to the later sample that reuses
    its index."""
    from .C19 import r19_1, r19_2
    from .sampling import Sampling
    from .common import Renamed
    S = Sampling(prog, crate)
    if not ctx.anchor("R02.8", "sampling loop", 1 if S.body is not None and S.loop is not None and S.cond_switch is not None else 0, 1):
        return
    R = Renamed(ctx, "R02.8")
    info = r19_1(R, S, prog, crate)
    if isinstance(info, tuple) and len(info) == 3 and isinstance(info[1], set):
        r19_2(R, S, prog, crate, info)
    else:
        ctx.fail("R02.8/ANCHOR", ["tuning-edge"], "the tuning edge could not be identified", None)


def r02_9(ctx, prog, crate):
    """Nothing but the benchmarked call runs in the timed closure the macro generates for an `args` benchmark:
    `f(Arg::get(arg))` converts the argument inside the timed section, so every Arg::get is a plain copy / reborrow - its
    body calls no user code (no Clone::clone, no ToOwned), only the two Deref coercions of Cow and String."""
    n = 0
    for b in prog.lib_bodies(crate):
        if "__private::Arg<" not in b.path or not b.path.endswith("::get") or b.kind not in ("Fn", "AssocFn"):
            continue
        n += 1
        ctx.saw(b)
        for c in b.live_calls():
            ok = c.callee.endswith("as std::ops::Deref>::deref") and ("std::borrow::Cow" in c.callee or "std::string::String" in c.callee)
            ctx.check(ok, "R02.9", [b.path, "no-user-code", c.callee.rsplit("::", 1)[-1]],
                      "`%s` calls %s: the conversion runs inside the timed section of every iteration" % (b.path, c.callee), c.line())
        drops = [i for i in sorted(b.live) if b.term(i)["k"] == "drop"]
        ctx.check(not drops, "R02.9", [b.path, "no-drop"], "`%s` drops a value inside the timed section" % b.path, b.where(drops[0]) if drops else None)
    ctx.anchor("R02.9", "impls of __private::Arg::get", n, 4)


def run_extra(ctx):
    """R02.10 the dropping of outputs happens after the end timestamp, macro side: see C12.bench_closure_returns_value."""
    from . import C12
    C12.bench_closure_returns_value(ctx, "R02.10")


def run(ctx, prog, crate):
    r02_9(ctx, prog, crate)
    r02_8(ctx, prog, crate)
    r02_7(ctx, prog, crate)
    r02_6(ctx, prog, crate)
    r02_5(ctx, prog, crate)
    rec = r02_1(ctx, prog, crate)
    r02_2(ctx, prog, crate, rec)
    r02_3(ctx, prog, crate)
    r02_4(ctx, prog, crate)
