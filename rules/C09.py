"""C09  AllocProfiler is a transparent wrapper around the wrapped allocator."""
from lib.facts import norm, place_fields, origins

INLINE = True      # crate-local helpers the rules do not know by name are inlined into their callers (lib/inline.py)
EXPLANATION = (
    "Fully structural. R09.1: in each of the four GlobalAlloc methods of AllocProfiler<A> there is exactly one call of "
    "a GlobalAlloc method, it lies on every normal path, has the enclosing method's own name, receives `&self.alloc` "
    "and the method's parameters in order and unmodified, and writes the return place. R09.2: the transitive callee "
    "closure of the four methods (minus the forwarded call) contains only divan's tally helpers and an allow-list of "
    "non-allocating core items; there is no indirect call, Drop terminator or formatting machinery. R09.3: the "
    "thread-local slot is const-initialised, its type needs no drop (so std selects the destructor-free accessor), "
    "and it is read through try_with, never with. R09.2 as built: an external callee is accepted when it is on the explicit allow-list or is defined in crate core (no allocator) and is not a panicking / formatting / call-back function; local helpers of any name are held to the same standard transitively. R09.3 as built: the slot is const-initialised (no LazyStorage; a lazy initialiser's callees are reported) and its bare slot type needs no drop.")
EXPLANATION += (" R09.4 no overflow-checked arithmetic inside the hooks (dev profile): the tallies use wrapping arithmetic, so no valid request - however large, however many - makes a hook panic before forwarding.")
NOT_DECIDED = ["behaviour of the wrapped allocator itself", "macOS pthread-key implementation (cfg not analysable here)"]
TRUSTED = ["std LocalKey const-init fast path registers no destructor when needs_drop::<T>() is false",
           ]

METHODS = ["alloc", "alloc_zeroed", "realloc", "dealloc"]
IMPL = "<alloc::AllocProfiler<A> as std::alloc::GlobalAlloc>::"

ALLOWED_EXTERNAL = {
    "std::thread::LocalKey::try_with": "thread-local access that returns Err instead of panicking/allocating",
    "std::result::Result::ok": "Result -> Option",
    "std::ptr::NonNull::new_unchecked": "pointer wrap",
    "std::ptr::NonNull::as_mut": "pointer deref",
    "std::cell::UnsafeCell::get": "pointer to the slot",
    "std::alloc::Layout::size": "reads the size",
    "core::num::overflowing_sub": "usize::overflowing_sub",
    "core::num::wrapping_abs": "isize::wrapping_abs",
    "std::cmp::Ord::max": "integer max",
}
ALLOWED_LOCAL_PREFIX = ("alloc::ThreadAllocInfo::try_current", "alloc::ThreadAllocInfo::tally_",
                        "alloc::AllocOpMap::get_mut", "alloc::AllocOp::realloc")
# Functions defined in the `core` crate cannot reach an allocator (core has none). They are accepted unless they can panic
# (the panic machinery formats and may allocate) or format: judged by the last path segment / the module.
CORE_DENY_LAST = {"unwrap", "expect", "unwrap_err", "expect_err", "unwrap_or_else", "panic", "panic_fmt", "panic_display", "assert_failed", "index", "index_mut",
                  "copy_from_slice", "clone_from_slice", "split_at", "split_at_mut", "swap", "fmt", "write_fmt", "write_str", "to_string", "borrow", "borrow_mut",
                  "with", "set", "replace", "take", "div", "rem", "pow", "abs", "neg", "checked_ilog10", "ilog10", "ilog2", "ilog", "chunks", "windows", "copy_within",
                  "rotate_left", "rotate_right", "sort_unstable", "sort_unstable_by", "sort_unstable_by_key", "select_nth_unstable", "step_by", "from_digit",
                  "call", "call_mut", "call_once"}
CORE_DENY_PREFIX = ("core::panicking::", "std::panicking::", "std::fmt::", "core::fmt::", "std::panic::", "std::cell::RefCell", "std::cell::Ref", "std::str::", "std::slice::index",
                    "std::ops::Index", "std::ops::Fn", "std::iter::", "std::cell::OnceCell", "std::cell::LazyCell")


def core_callee_ok(c, name):
    """A callee defined in crate `core` that neither panics nor formats nor calls back into unknown code."""
    if getattr(c, "ck", None) != "core":
        return False
    if name.startswith(CORE_DENY_PREFIX) or name.rsplit("::", 1)[-1] in CORE_DENY_LAST:
        return False
    return True


_PLAIN = ("usize", "isize", "u8", "u16", "u32", "u64", "u128", "i8", "i16", "i32", "i64", "i128", "bool", "char", "f32", "f64", "()")


def _closure_without_drop(b, local):
    """The local holds a closure built in this function whose captures are plain values, references or raw pointers:
    dropping it runs no code."""
    from lib.inline import _closure_def
    cdef = _closure_def(b.blocks, local)
    if not cdef:
        return False
    for bi, si, s in b.stmts(live_only=False):
        rv = s.get("rv") or {}
        if s["k"] == "assign" and rv.get("k") == "agg" and rv.get("ak") == "closure" and norm(rv["def"]) == cdef:
            for o in rv["ops"]:
                ty = (o.get("p") or o.get("c") or {}).get("ty") or ""
                if not (ty in _PLAIN or ty.startswith(("&", "*const ", "*mut "))):
                    return False
            return True
    return False


def methods(prog, crate):
    return {m: prog.body(IMPL + m, crate) for m in METHODS}


def run(ctx, prog, crate):
    ms = methods(prog, crate)
    present = [m for m in METHODS if ms[m] is not None]
    ctx.anchor("R09.1", "GlobalAlloc methods overridden by AllocProfiler (alloc, alloc_zeroed, realloc, dealloc)", present, 4)
    for m in present:
        b = ms[m]
        ctx.saw(b)
        fwd = [c for c in b.live_calls() if (c.decl or "").startswith("std::alloc::GlobalAlloc::")
               or c.callee.startswith("std::alloc::GlobalAlloc::")]
        if not ctx.check(len(fwd) == 1, "R09.1", [m, "forward-exactly-once"],
                         "expected exactly one forwarded GlobalAlloc call in `%s`, found %d" % (m, len(fwd)), b.where(0)):
            continue
        c = fwd[0]
        ctx.calls_examined += 1
        ctx.check(c.callee.rsplit("::", 1)[-1] == m, "R09.1", [m, "same-method"],
                  "`%s` forwards to `%s`" % (m, c.callee), c.line())
        # on every normal path
        ctx.check(not (set(b.returns) & b.reach([0], avoid=[c.bb])), "R09.1", [m, "on-every-path"],
                  "a path through `%s` returns without forwarding the request" % m, c.line())
        # not in a loop
        ctx.check(b.innermost_loop(c.bb) is None, "R09.1", [m, "not-in-loop"], "forwarded call inside a loop", c.line())
        # receiver = &self.alloc
        recv = b.prov.op_src(c.args[0]) if c.args else set()
        ok = len(recv) == 1 and all(s.kind == "param" and s.a == b.param_name(1) and s.b == ("alloc",) for s in recv)
        ctx.check(ok, "R09.1", [m, "receiver-is-wrapped-allocator"],
                  "receiver of the forwarded call derives from %s, expected self.alloc" % sorted(s.label() for s in recv),
                  c.line())
        # arguments = parameters in order, unmodified
        for i, a in enumerate(c.args[1:], start=2):
            srcs = b.prov.op_src(a)
            want = b.param_name(i)
            ok = len(srcs) == 1 and all(s.kind == "param" and s.a == want and s.b == () for s in srcs) and \
                i <= b.arg_count
            ctx.check(ok, "R09.1", [m, "argument-verbatim", i - 1],
                      "argument %d of the forwarded call derives from %s, expected exactly parameter `%s`"
                      % (i - 1, sorted(s.label() for s in srcs), want), c.line())
        ctx.check(len(c.args) == b.arg_count, "R09.1", [m, "all-arguments"],
                  "forwarded call has %d arguments, the method has %d parameters" % (len(c.args), b.arg_count), c.line())
        # parameters are never reassigned
        for bi, si, s in b.stmts():
            if s["k"] == "assign" and 1 <= s["p"]["l"] <= b.arg_count:
                ctx.fail("R09.1", [m, "parameter-reassigned", b.param_name(s["p"]["l"])],
                         "a parameter is modified before being forwarded", b.where(bi))
        # result returned verbatim
        # (directly, or through a temporary that is only copied: `let ptr = inner.alloc(..); ...; ptr`)
        og = origins(b, {"k": "move", "p": {"l": 0, "proj": [], "ty": ""}})
        unit = b.local_ty(0) == "()"
        ctx.check(unit or (len(og) >= 1 and all(o[0] == "call" and o[1].bb == c.bb for o in og)), "R09.1", [m, "result-verbatim"],
                  "the value returned is not (only) the wrapped allocator's result: %s" % [o[1].callee if o[0] == "call" else o[0] for o in og], c.line())
        srcs0 = b.prov.local_src(0)
        same_result = len(og) >= 1 and all(o[0] == "call" and o[1].bb == c.bb for o in og)     # several returns of the one result are not a merge
        bad0 = [s for s in srcs0 if s.kind in ("binop", "unop", "const") or (s.kind == "phi" and not same_result)]
        ctx.check(unit or not bad0, "R09.1", [m, "result-not-overwritten"],
                  "the returned pointer is computed/merged from %s" % sorted(s.label() for s in bad0), b.where(0))
        # nothing else touches self.alloc
        for o in b.live_calls():
            if o.bb == c.bb:
                continue
            for a in o.args:
                # the allocator itself handed to something else (not: a value the forwarded call returned)
                if any(og_[0] == "place" and og_[1] == 1 and tuple(og_[2])[:1] == ("alloc",) for og_ in origins(b, a)):
                    ctx.fail("R09.1", [m, "second-use-of-wrapped-allocator", o.callee],
                             "`%s` also receives self.alloc" % o.callee, o.line())

    # R09.2 callee closure
    roots = [ms[m] for m in present]
    bodies, ext, indirect = prog.callee_closure(roots, crate=crate)
    n = 0
    from lib import inline as _inl
    absorbed = getattr(prog, "_absorbed", ())
    for b in bodies:
        ctx.saw(b)
        # every divan function the hooks reach is held to the same standard below (no drops, no panic edges, only
        # non-allocating callees): which helpers exist, and what they are called, is free
        ctx.ok("R09.2", "local|" + b.path)
        n += 1
        if (b.crate, b.path) in absorbed:
            continue    # a helper that only exists as copies inside the hooks: examined there, with the hooks' own arguments
        for i in sorted(b.live):
            t = b.term(i)
            src_ = b.inlined_from(i)
            if src_ and (b.crate, src_) not in absorbed:
                continue    # a copy of a helper's block: examined in the helper's own body
            if t["k"] == "drop":
                if src_ and not t["p"]["proj"] and _closure_without_drop(b, t["p"]["l"]):
                    continue    # the helper's `impl FnOnce` parameter: here a closure that owns nothing but plain values
                ctx.fail("R09.2", ["drop-in-allocator-hook", b.path, t["ty"]],
                         "a value of type `%s` is dropped inside an allocator hook" % t["ty"], b.where(i))
            if t["k"] == "assert" and t["kind"] == "Overflow":
                # R09.4: no overflow-checked arithmetic inside the hooks. Requests are tallied before they are forwarded, also
                # the ones the wrapped allocator refuses: one valid request of Layout's largest size (isize::MAX) on a thread
                # with live memory overflows the signed live-size total, three of them the unsigned byte sum - in the dev
                # profile the hook then panics (formats, allocates, unwinds out of the allocator) instead of forwarding.
                # The tallies therefore use wrapping arithmetic (F-C09).
                srcs = b.prov.op_src(t["cond"])
                leaves = sorted({x.label() for x in srcs if x.kind in ("param", "call", "static", "field", "deref")})
                op = (t.get("msg", "").split("(", 1)[-1].split(",")[0] or "?")
                ctx.fail("R09.4", [b.path, "overflow-checked-arithmetic-in-allocator-hook", op],
                         "an overflow-checked `%s` over %s inside an allocator hook: a valid oversized request (or a few of them) makes "
                         "the hook panic before the request is forwarded" % (op, leaves), b.where(i))
            if t["k"] == "assert" and t["kind"] not in ("Overflow", "BoundsCheck"):
                ctx.fail("R09.2", ["panic-edge", b.path, t["kind"]], "possible panic (%s) inside an allocator hook" % t["kind"],
                         b.where(i))
    ctx.anchor("R09.4", "bodies of the allocator hooks examined for overflow-checked arithmetic", n, 6)
    ctx.ok("R09.4", "no-overflow-checked-arithmetic|%s" % ctx.cfg)
    for name, c in sorted(ext.items()):
        if name.startswith("std::alloc::GlobalAlloc::") and c.body.path.startswith(IMPL):
            continue  # the forwarded call itself (R09.1)
        ctx.check(name in ALLOWED_EXTERNAL or core_callee_ok(c, name), "R09.2", ["external-callee", name],
                  "allocator hooks call `%s` (crate %s), which is neither a non-panicking `core` function nor on the non-allocating allow-list" % (name, getattr(c, "ck", "?")), c.line())
        n += 1
    for c in indirect:
        if (c.body.crate, c.body.path) in absorbed:
            continue    # the helper's call of its callable parameter: spliced into the hooks together with the closure given
        ctx.fail("R09.2", ["indirect-call", c.body.path, c.name], "indirect call inside an allocator hook", c.line())
    ctx.anchor("R09.2", "callees reachable from the allocator hooks", n, 6)
    # the one bounds check indexes [T; 4] with a 4-variant enum (see R10.2 table agreement)
    ctx.note("Assert(BoundsCheck) in AllocOpMap::get_mut is dead: the index is `AllocOp as usize` over 4 variants "
             "into `[T; 4]` (variant count and array length compared in C10/R10.2)")

    # R09.3 thread local
    from .common import tally_slot_statics
    all_slots, KEY = tally_slot_statics(prog, crate)
    KEY = KEY or "alloc::CURRENT_THREAD_INFO"
    tls = [s for s in all_slots if s["thread_local"]]
    if ctx.anchor("R09.3", "thread_local statics backing CURRENT_THREAD_INFO", tls, 1):
        lazy = [s for s in tls if "LazyStorage<" in s["ty"]]
        ctx.check(not lazy, "R09.3", ["slot-const-initialised"],
                  "the thread-local slot is lazily initialised (%s): its initialiser runs inside the first allocator request of every thread" % [s["ty"] for s in lazy], "src/alloc.rs")
        if lazy:
            # say what the initialiser does
            ini = [b for (ck_, pth, pr), b in prog.bodies.items() if ck_ == crate and pr < 0 and (KEY + "::") in pth and "init" in pth.lower()]
            ib, iext, _ = prog.callee_closure(ini, crate=crate) if ini else ([], {}, [])
            for name, c in sorted(iext.items()):
                ctx.check(name in ALLOWED_EXTERNAL or core_callee_ok(c, name), "R09.3", ["slot-initialiser", name],
                          "the lazy initialiser of the thread-local slot calls `%s` (crate %s) inside an allocator request" % (name, getattr(c, "ck", "?")), c.line())
        plain = [s for s in tls if not s["ty"].startswith("std::thread::local_impl::")]
        ctx.check(lazy or (len(plain) == 1 and plain[0]["needs_drop"] is False), "R09.3", ["slot-type-needs-no-drop"],
                  "the thread-local slot type needs drop (std would register a destructor, which may allocate): %s"
                  % [(s["ty"], s["needs_drop"]) for s in tls], "src/alloc.rs")
    adt = prog.adt("alloc::ThreadAllocInfo", crate)
    if ctx.anchor("R09.3", "ADT alloc::ThreadAllocInfo", 1 if adt else 0, 1):
        ctx.check(adt.get("needs_drop") is False, "R09.3", ["ThreadAllocInfo-needs-no-drop"],
                  "ThreadAllocInfo needs drop", "src/alloc.rs")
    # const-initialised: the key is built by LocalKey::new from an inline const that selects by needs_drop
    sel = prog.bodies.get((crate, KEY + "::{constant#0}", -1))
    if ctx.anchor("R09.3", "const-initialised thread_local! (inline-const accessor selector)", 1 if sel else 0, 1):
        ctx.saw(sel)
        nd = [c for c in sel.calls if c.callee == "std::mem::needs_drop"]
        ctx.check(len(nd) == 1, "R09.3", ["selector-tests-needs_drop"], "accessor selection is not by needs_drop", sel.where(0))
    tc = prog.body("alloc::ThreadAllocInfo::try_current", crate)
    if ctx.anchor("R09.3", "ThreadAllocInfo::try_current", 1 if tc else 0, 1):
        ctx.saw(tc)
        names = [c.callee for c in tc.live_calls()]
        ctx.check("std::thread::LocalKey::try_with" in names and "std::thread::LocalKey::with" not in names, "R09.3",
                  ["try_with-not-with"], "try_current does not use LocalKey::try_with (calls: %s)" % names, tc.where(0))
        # accesses exactly the CURRENT_THREAD_INFO key
        keys = set()
        for c in tc.live_calls():
            if c.callee.startswith("std::thread::LocalKey::"):
                for s in tc.prov.op_src(c.args[0]):
                    if s.kind == "const":
                        keys.add(s.a)
        ctx.check(any(KEY in k or KEY.rsplit("::", 1)[-1] in k for k in keys) and len(keys) == 1, "R09.3", ["key-identity"],
                  "try_current reads thread-local key(s) %s" % sorted(keys), tc.where(0))
    # hooks use try_current only (never `current`, which may initialise)
    for m in present:
        b = ms[m]
        names = [c.callee for c in b.live_calls()]
        ctx.check(not any(n.endswith("ThreadAllocInfo::current") for n in names), "R09.3", [m, "no-initialising-access"],
                  "`%s` uses ThreadAllocInfo::current() (may initialise) instead of try_current()" % m, b.where(0))
